//! C12: the formatting traits (Display, Debug, Binary, Octal, LowerHex, UpperHex, LowerExp, UpperExp) of
//! BUint / BInt through `format!` with every flag combination.  Hand-written; protocol: coq/Run/RunC12.v.
//!   U.fmt | I.fmt            L:<digits> Z:<trait> Z:<flags> Z:<width>  -> the output string as bytes
//!   U.cmp_prim | I.cmp_prim  same arguments, bit width <= 128          -> B:1 if the primitive integer holding
//!        the same value prints the same text under the same format string, else (L:<bnum> L:<primitive>)
//! The literal format strings are in the generated table ../c12_table.rs (tools/mk_c12_table.py).
use bnum_verif_harness::*;
use core::fmt::{Binary, Debug, Display, LowerExp, LowerHex, Octal, UpperExp, UpperHex};

include!("../c12_table.rs");

fn out(s: Option<String>) -> String {
    match s {
        Some(s) => sh(s),
        None => UNSUPPORTED.to_string(),
    }
}

/// the value of a digit-list token of at most 128 bits
fn tok_value(tok: &str, w: u32) -> u128 {
    let mut v: u128 = 0;
    for (i, d) in hex_list(tok).into_iter().enumerate() {
        v |= (d as u128) << (w as usize * i);
    }
    v
}

/// the text the primitive integer holding the value of the `bits`-bit pattern `v` prints.
/// Unsigned: the smallest primitive that has at least `bits` bits (the text depends on the value only).
/// Signed: Display / Debug / LowerExp / UpperExp depend on the value only: the sign-extended value in the
/// smallest primitive with at least `bits` bits; Binary / Octal / LowerHex / UpperHex print the two's
/// complement pattern, which depends on the width: only when a primitive of exactly `bits` bits exists.
fn prim_fmt(bits: u32, signed: bool, v: u128, tr: u32, fl: u32, width: usize) -> Option<String> {
    let pbits = [8u32, 16, 32, 64, 128].into_iter().find(|p| *p >= bits)?;
    if !signed {
        return match pbits {
            8 => fmt_table(&(v as u8), tr, fl, width),
            16 => fmt_table(&(v as u16), tr, fl, width),
            32 => fmt_table(&(v as u32), tr, fl, width),
            64 => fmt_table(&(v as u64), tr, fl, width),
            _ => fmt_table(&v, tr, fl, width),
        };
    }
    if (2..=5).contains(&tr) && pbits != bits {
        return None;
    }
    let sv: i128 = ((v << (128 - bits)) as i128) >> (128 - bits);
    match pbits {
        8 => fmt_table(&(sv as i8), tr, fl, width),
        16 => fmt_table(&(sv as i16), tr, fl, width),
        32 => fmt_table(&(sv as i32), tr, fl, width),
        64 => fmt_table(&(sv as i64), tr, fl, width),
        _ => fmt_table(&sv, tr, fl, width),
    }
}

fn cmp(b: Option<String>, p: Option<String>) -> String {
    match (b, p) {
        (Some(b), Some(p)) => {
            if b == p {
                sh(true)
            } else {
                sh((b, p))
            }
        }
        _ => UNSUPPORTED.to_string(),
    }
}

macro_rules! ops {
    ($U:ty, $I:ty, $D:ty, $N:expr, $op:expr, $a:expr) => {{
        let a = $a;
        let tr = tok_u32(a[1]);
        let fl = tok_u32(a[2]);
        let width = tok_u128(a[3]) as usize;
        let bits: u32 = <$D>::BITS * $N;
        match $op {
            "U.fmt" => out(fmt_table(&<$U>::from_tok(a[0]), tr, fl, width)),
            "I.fmt" => out(fmt_table(&<$I>::from_tok(a[0]), tr, fl, width)),
            "U.cmp_prim" if bits <= 128 => cmp(
                fmt_table(&<$U>::from_tok(a[0]), tr, fl, width),
                prim_fmt(bits, false, tok_value(a[0], <$D>::BITS), tr, fl, width),
            ),
            "I.cmp_prim" if bits <= 128 => cmp(
                fmt_table(&<$I>::from_tok(a[0]), tr, fl, width),
                prim_fmt(bits, true, tok_value(a[0], <$D>::BITS), tr, fl, width),
            ),
            _ => UNSUPPORTED.to_string(),
        }
    }};
}

fn main() {
    main_loop(|op, w, n, args| for_configs!(w, n, ops, op, args));
}

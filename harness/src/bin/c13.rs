//! C13: checked conversions — `TryFrom<bnum>` for the 12 primitive integers, `From` / `TryFrom` of primitive
//! integers, bool and char into bnum integers, `BTryFrom` between bnum integers over a grid of configurations
//! covering all four digit types and both signednesses, and the digit-array accessors.
//! Protocol: see coq/Run/RunC13.v.  Ok(x) prints as x, Err(TryFromIntError) as Err:0.
use bnum::BTryFrom;
use bnum_verif_harness::*;

/// the configuration grid of this binary (gen/c13.py CFG mirrors it; the grid of c09):
/// calls `$m!(U, I, Digit, N, args...)`
macro_rules! grid {
    ($w:expr, $n:expr, $m:ident $(, $a:expr)*) => {
        match ($w, $n) {
            (8, 1) => $m!(BUintD8<1>, BIntD8<1>, u8, 1 $(, $a)*),
            (8, 2) => $m!(BUintD8<2>, BIntD8<2>, u8, 2 $(, $a)*),
            (8, 3) => $m!(BUintD8<3>, BIntD8<3>, u8, 3 $(, $a)*),
            (8, 5) => $m!(BUintD8<5>, BIntD8<5>, u8, 5 $(, $a)*),
            (8, 17) => $m!(BUintD8<17>, BIntD8<17>, u8, 17 $(, $a)*),
            (8, 300) => $m!(BUintD8<300>, BIntD8<300>, u8, 300 $(, $a)*),
            (16, 1) => $m!(BUintD16<1>, BIntD16<1>, u16, 1 $(, $a)*),
            (16, 3) => $m!(BUintD16<3>, BIntD16<3>, u16, 3 $(, $a)*),
            (16, 5) => $m!(BUintD16<5>, BIntD16<5>, u16, 5 $(, $a)*),
            (32, 1) => $m!(BUintD32<1>, BIntD32<1>, u32, 1 $(, $a)*),
            (32, 3) => $m!(BUintD32<3>, BIntD32<3>, u32, 3 $(, $a)*),
            (64, 1) => $m!(BUint<1>, BInt<1>, u64, 1 $(, $a)*),
            (64, 2) => $m!(BUint<2>, BInt<2>, u64, 2 $(, $a)*),
            (64, 3) => $m!(BUint<3>, BInt<3>, u64, 3 $(, $a)*),
            (64, 1025) => $m!(BUint<1025>, BInt<1025>, u64, 1025 $(, $a)*),
            _ => UNSUPPORTED.to_string(),
        }
    };
}

fn res<T: Show, E>(r: Result<T, E>) -> String {
    sh(r.map_err(|_| ErrKind(0)))
}

// ---- bnum -> bnum
/// second level: the target type is known
macro_rules! to_target {
    ($U:ty, $I:ty, $D:ty, $N:expr, $src:expr, $dst_signed:expr) => {
        if $dst_signed {
            res(<$I as BTryFrom<_>>::try_from($src))
        } else {
            res(<$U as BTryFrom<_>>::try_from($src))
        }
    };
}
/// first level: the source type is known
macro_rules! from_source {
    ($U:ty, $I:ty, $D:ty, $N:expr, $w2:expr, $n2:expr, $ss:expr, $dsg:expr, $tok:expr) => {
        if $ss {
            let s = <$I>::from_tok($tok);
            grid!($w2, $n2, to_target, s, $dsg)
        } else {
            let s = <$U>::from_tok($tok);
            grid!($w2, $n2, to_target, s, $dsg)
        }
    };
}

// ---- bnum -> primitive; bits = 0 stands for usize / isize
macro_rules! prim_of {
    ($S:ty, $src:expr, $bits:expr, $ps:expr) => {
        match ($bits, $ps) {
            (8, false) => res(<u8 as TryFrom<$S>>::try_from($src)),
            (16, false) => res(<u16 as TryFrom<$S>>::try_from($src)),
            (32, false) => res(<u32 as TryFrom<$S>>::try_from($src)),
            (64, false) => res(<u64 as TryFrom<$S>>::try_from($src)),
            (128, false) => res(<u128 as TryFrom<$S>>::try_from($src)),
            (0, false) => res(<usize as TryFrom<$S>>::try_from($src)),
            (8, true) => res(<i8 as TryFrom<$S>>::try_from($src)),
            (16, true) => res(<i16 as TryFrom<$S>>::try_from($src)),
            (32, true) => res(<i32 as TryFrom<$S>>::try_from($src)),
            (64, true) => res(<i64 as TryFrom<$S>>::try_from($src)),
            (128, true) => res(<i128 as TryFrom<$S>>::try_from($src)),
            (0, true) => res(<isize as TryFrom<$S>>::try_from($src)),
            _ => UNSUPPORTED.to_string(),
        }
    };
}
macro_rules! try_to_prim {
    ($U:ty, $I:ty, $D:ty, $N:expr, $bits:expr, $ps:expr, $ss:expr, $tok:expr) => {
        if $ss {
            let s = <$I>::from_tok($tok);
            prim_of!($I, s, $bits, $ps)
        } else {
            let s = <$U>::from_tok($tok);
            prim_of!($U, s, $bits, $ps)
        }
    };
}

// ---- primitive -> bnum
fn okv<T: Show>(v: T) -> String {
    sh(v)
}
macro_rules! conv_prim {
    ($U:ty, $I:ty, $D:ty, $N:expr, $bits:expr, $ps:expr, $dsg:expr, $v:expr) => {{
        let v: i128 = $v;
        match ($bits, $ps, $dsg) {
            // From<uN> for BUint
            (8, false, false) => okv(<$U as From<u8>>::from(v as u8)),
            (16, false, false) => okv(<$U as From<u16>>::from(v as u16)),
            (32, false, false) => okv(<$U as From<u32>>::from(v as u32)),
            (64, false, false) => okv(<$U as From<u64>>::from(v as u64)),
            (128, false, false) => okv(<$U as From<u128>>::from(v as u128)),
            (0, false, false) => okv(<$U as From<usize>>::from(v as usize)),
            // TryFrom<iN> for BUint
            (8, true, false) => res(<$U as TryFrom<i8>>::try_from(v as i8)),
            (16, true, false) => res(<$U as TryFrom<i16>>::try_from(v as i16)),
            (32, true, false) => res(<$U as TryFrom<i32>>::try_from(v as i32)),
            (64, true, false) => res(<$U as TryFrom<i64>>::try_from(v as i64)),
            (128, true, false) => res(<$U as TryFrom<i128>>::try_from(v as i128)),
            (0, true, false) => res(<$U as TryFrom<isize>>::try_from(v as isize)),
            // From<uN> for BInt
            (8, false, true) => okv(<$I as From<u8>>::from(v as u8)),
            (16, false, true) => okv(<$I as From<u16>>::from(v as u16)),
            (32, false, true) => okv(<$I as From<u32>>::from(v as u32)),
            (64, false, true) => okv(<$I as From<u64>>::from(v as u64)),
            (128, false, true) => okv(<$I as From<u128>>::from(v as u128)),
            (0, false, true) => okv(<$I as From<usize>>::from(v as usize)),
            // From<iN> for BInt
            (8, true, true) => okv(<$I as From<i8>>::from(v as i8)),
            (16, true, true) => okv(<$I as From<i16>>::from(v as i16)),
            (32, true, true) => okv(<$I as From<i32>>::from(v as i32)),
            (64, true, true) => okv(<$I as From<i64>>::from(v as i64)),
            (128, true, true) => okv(<$I as From<i128>>::from(v as i128)),
            (0, true, true) => okv(<$I as From<isize>>::from(v as isize)),
            _ => UNSUPPORTED.to_string(),
        }
    }};
}
macro_rules! from_bool {
    ($U:ty, $I:ty, $D:ty, $N:expr, $dsg:expr, $b:expr) => {
        if $dsg {
            sh(<$I as From<bool>>::from($b))
        } else {
            sh(<$U as From<bool>>::from($b))
        }
    };
}
macro_rules! from_char {
    ($U:ty, $I:ty, $D:ty, $N:expr, $c:expr) => {
        sh(<$U as From<char>>::from($c))
    };
}

// ---- digit arrays
trait Dig: Copy + Default + std::fmt::LowerHex {
    fn of(v: u64) -> Self;
}
macro_rules! dig { ($($t:ty),*) => {$(
    impl Dig for $t { fn of(v: u64) -> Self { assert!(v <= <$t>::MAX as u64, "digit range"); v as $t } }
)*}}
dig!(u8, u16, u32, u64);
fn arr<D: Dig, const N: usize>(tok: &str) -> [D; N] {
    let v = hex_list(tok);
    assert_eq!(v.len(), N, "digit count");
    let mut a = [D::default(); N];
    for i in 0..N {
        a[i] = D::of(v[i]);
    }
    a
}
fn show_arr<D: Dig>(a: &[D]) -> String {
    let mut s = String::from("L:");
    for (i, d) in a.iter().enumerate() {
        if i > 0 {
            s.push(',');
        }
        s.push_str(&format!("{:x}", d));
    }
    s
}
macro_rules! arrays {
    ($U:ty, $I:ty, $D:ty, $N:expr, $op:expr, $tok:expr) => {{
        let a: [$D; $N] = arr::<$D, $N>($tok);
        match $op {
            "from_digits" => show_arr(<$U>::from_digits(a).digits()),
            "from_array" => show_arr(<$U as From<[$D; $N]>>::from(a).digits()),
            "into_array" => show_arr(&<[$D; $N] as From<$U>>::from(<$U>::from_digits(a))),
            "digits" => show_arr(<$U>::from_tok($tok).digits()),
            _ => UNSUPPORTED.to_string(),
        }
    }};
}
macro_rules! from_digit {
    ($U:ty, $I:ty, $D:ty, $N:expr, $d:expr) => {
        show_arr(<$U>::from_digit(<$D as Dig>::of($d)).digits())
    };
}

fn run(op: &str, w: u32, n: usize, a: &[&str]) -> String {
    match op {
        "btry_from" => {
            let w2 = tok_u32(a[0]);
            let n2 = tok_u32(a[1]) as usize;
            let (ss, dsg) = (tok_bool(a[2]), tok_bool(a[3]));
            grid!(w, n, from_source, w2, n2, ss, dsg, a[4])
        }
        "try_to_prim" => {
            let bits = tok_u32(a[0]);
            let (ps, ss) = (tok_bool(a[1]), tok_bool(a[2]));
            if bits == 0 {
                return UNSUPPORTED.to_string();
            }
            grid!(w, n, try_to_prim, bits, ps, ss, a[3])
        }
        "try_to_size" => {
            let (ps, ss) = (tok_bool(a[0]), tok_bool(a[1]));
            grid!(w, n, try_to_prim, 0u32, ps, ss, a[2])
        }
        "conv_prim" => {
            let bits = tok_u32(a[0]);
            let (ps, dsg) = (tok_bool(a[1]), tok_bool(a[2]));
            if bits == 0 {
                return UNSUPPORTED.to_string();
            }
            let v = tok_i128(a[3]);
            grid!(w, n, conv_prim, bits, ps, dsg, v)
        }
        "conv_size" => {
            let (ps, dsg) = (tok_bool(a[0]), tok_bool(a[1]));
            let v = tok_i128(a[2]);
            grid!(w, n, conv_prim, 0u32, ps, dsg, v)
        }
        "from_bool" => {
            let (dsg, b) = (tok_bool(a[0]), tok_bool(a[1]));
            grid!(w, n, from_bool, dsg, b)
        }
        "from_char" => {
            let c = char::from_u32(tok_u32(a[0])).expect("char");
            grid!(w, n, from_char, c)
        }
        "from_digits" | "from_array" | "into_array" | "digits" => grid!(w, n, arrays, op, a[0]),
        "from_digit" => {
            let d = tok_u128(a[0]) as u64;
            grid!(w, n, from_digit, d)
        }
        _ => UNSUPPORTED.to_string(),
    }
}

fn main() {
    main_loop(run);
}

//! C01: add / sub / neg / abs family through the public API.
use bnum_verif_harness::*;

macro_rules! ops {
    ($U:ty, $I:ty, $D:ty, $N:expr, $op:expr, $a:expr) => {{
        type U = $U;
        type I = $I;
        let a = $a;
        let u = |i: usize| <U>::from_tok(a[i]);
        let s = |i: usize| <I>::from_tok(a[i]);
        let b = |i: usize| tok_bool(a[i]);
        match $op {
            "U.overflowing_add" => sh(u(0).overflowing_add(u(1))),
            "U.overflowing_sub" => sh(u(0).overflowing_sub(u(1))),
            "U.overflowing_add_signed" => sh(u(0).overflowing_add_signed(s(1))),
            "U.overflowing_neg" => sh(u(0).overflowing_neg()),
            "U.checked_add" => sh(u(0).checked_add(u(1))),
            "U.checked_sub" => sh(u(0).checked_sub(u(1))),
            "U.checked_add_signed" => sh(u(0).checked_add_signed(s(1))),
            "U.checked_neg" => sh(u(0).checked_neg()),
            "U.wrapping_add" => sh(u(0).wrapping_add(u(1))),
            "U.wrapping_sub" => sh(u(0).wrapping_sub(u(1))),
            "U.wrapping_add_signed" => sh(u(0).wrapping_add_signed(s(1))),
            "U.wrapping_neg" => sh(u(0).wrapping_neg()),
            "U.saturating_add" => sh(u(0).saturating_add(u(1))),
            "U.saturating_sub" => sh(u(0).saturating_sub(u(1))),
            "U.saturating_add_signed" => sh(u(0).saturating_add_signed(s(1))),
            "U.strict_add" => sh(u(0).strict_add(u(1))),
            "U.strict_sub" => sh(u(0).strict_sub(u(1))),
            "U.strict_neg" => sh(u(0).strict_neg()),
            "U.add" => sh(u(0).add(u(1))),
            "U.sub" => sh(u(0).sub(u(1))),
            "U.carrying_add" => sh(u(0).carrying_add(u(1), b(2))),
            "U.borrowing_sub" => sh(u(0).borrowing_sub(u(1), b(2))),
            "U.abs_diff" => sh(u(0).abs_diff(u(1))),
            "U.midpoint" => sh(u(0).midpoint(u(1))),
            "I.overflowing_add" => sh(s(0).overflowing_add(s(1))),
            "I.overflowing_sub" => sh(s(0).overflowing_sub(s(1))),
            "I.overflowing_add_unsigned" => sh(s(0).overflowing_add_unsigned(u(1))),
            "I.overflowing_sub_unsigned" => sh(s(0).overflowing_sub_unsigned(u(1))),
            "I.overflowing_neg" => sh(s(0).overflowing_neg()),
            "I.overflowing_abs" => sh(s(0).overflowing_abs()),
            "I.checked_add" => sh(s(0).checked_add(s(1))),
            "I.checked_sub" => sh(s(0).checked_sub(s(1))),
            "I.checked_add_unsigned" => sh(s(0).checked_add_unsigned(u(1))),
            "I.checked_sub_unsigned" => sh(s(0).checked_sub_unsigned(u(1))),
            "I.checked_neg" => sh(s(0).checked_neg()),
            "I.checked_abs" => sh(s(0).checked_abs()),
            "I.wrapping_add" => sh(s(0).wrapping_add(s(1))),
            "I.wrapping_sub" => sh(s(0).wrapping_sub(s(1))),
            "I.wrapping_add_unsigned" => sh(s(0).wrapping_add_unsigned(u(1))),
            "I.wrapping_sub_unsigned" => sh(s(0).wrapping_sub_unsigned(u(1))),
            "I.wrapping_neg" => sh(s(0).wrapping_neg()),
            "I.wrapping_abs" => sh(s(0).wrapping_abs()),
            "I.saturating_add" => sh(s(0).saturating_add(s(1))),
            "I.saturating_sub" => sh(s(0).saturating_sub(s(1))),
            "I.saturating_add_unsigned" => sh(s(0).saturating_add_unsigned(u(1))),
            "I.saturating_sub_unsigned" => sh(s(0).saturating_sub_unsigned(u(1))),
            "I.saturating_neg" => sh(s(0).saturating_neg()),
            "I.saturating_abs" => sh(s(0).saturating_abs()),
            "I.strict_add" => sh(s(0).strict_add(s(1))),
            "I.strict_sub" => sh(s(0).strict_sub(s(1))),
            "I.strict_neg" => sh(s(0).strict_neg()),
            "I.strict_abs" => sh(s(0).strict_abs()),
            "I.add" => sh(s(0).add(s(1))),
            "I.sub" => sh(s(0).sub(s(1))),
            "I.neg" => sh(s(0).neg()),
            "I.abs" => sh(s(0).abs()),
            "I.carrying_add" => sh(s(0).carrying_add(s(1), b(2))),
            "I.borrowing_sub" => sh(s(0).borrowing_sub(s(1), b(2))),
            "I.unsigned_abs" => sh(s(0).unsigned_abs()),
            "I.abs_diff" => sh(s(0).abs_diff(s(1))),
            "I.midpoint" => sh(s(0).midpoint(s(1))),
            _ => UNSUPPORTED.to_string(),
        }
    }};
}

fn main() {
    main_loop(|op, w, n, args| for_configs!(w, n, ops, op, args));
}

//! C09: integer casts through `As::as_` / `CastFrom::cast_from` (bnum <-> bnum over a grid of
//! configurations covering all four digit types, bnum <-> the 12 primitive integers, bool/char -> bnum)
//! and the bit-preserving reinterpretations.  Protocol: see coq/Run/RunC09.v.
use bnum::cast::{As, CastFrom};
use bnum_verif_harness::*;

/// the configuration grid of this binary (gen/c09.py CFG mirrors it): calls `$m!(U, I, args...)`
macro_rules! grid {
    ($w:expr, $n:expr, $m:ident $(, $a:expr)*) => {
        match ($w, $n) {
            (8, 1) => $m!(BUintD8<1>, BIntD8<1> $(, $a)*),
            (8, 2) => $m!(BUintD8<2>, BIntD8<2> $(, $a)*),
            (8, 3) => $m!(BUintD8<3>, BIntD8<3> $(, $a)*),
            (8, 5) => $m!(BUintD8<5>, BIntD8<5> $(, $a)*),
            (8, 17) => $m!(BUintD8<17>, BIntD8<17> $(, $a)*),
            (8, 300) => $m!(BUintD8<300>, BIntD8<300> $(, $a)*),
            (16, 1) => $m!(BUintD16<1>, BIntD16<1> $(, $a)*),
            (16, 3) => $m!(BUintD16<3>, BIntD16<3> $(, $a)*),
            (16, 5) => $m!(BUintD16<5>, BIntD16<5> $(, $a)*),
            (32, 1) => $m!(BUintD32<1>, BIntD32<1> $(, $a)*),
            (32, 3) => $m!(BUintD32<3>, BIntD32<3> $(, $a)*),
            (64, 1) => $m!(BUint<1>, BInt<1> $(, $a)*),
            (64, 2) => $m!(BUint<2>, BInt<2> $(, $a)*),
            (64, 3) => $m!(BUint<3>, BInt<3> $(, $a)*),
            (64, 1025) => $m!(BUint<1025>, BInt<1025> $(, $a)*),
            _ => UNSUPPORTED.to_string(),
        }
    };
}

/// second level: the target type is known, cast the (already parsed) source
macro_rules! to_target {
    ($U:ty, $I:ty, $src:expr, $dst_signed:expr) => {
        if $dst_signed {
            sh(As::as_::<$I>($src))
        } else {
            sh(As::as_::<$U>($src))
        }
    };
}
/// first level: the source type is known
macro_rules! from_source {
    ($U:ty, $I:ty, $w2:expr, $n2:expr, $ss:expr, $dsg:expr, $tok:expr) => {
        if $ss {
            let s = <$I>::from_tok($tok);
            grid!($w2, $n2, to_target, s, $dsg)
        } else {
            let s = <$U>::from_tok($tok);
            grid!($w2, $n2, to_target, s, $dsg)
        }
    };
}

macro_rules! prim_of {
    ($src:expr, $bits:expr, $ps:expr) => {
        match ($bits, $ps) {
            (8, false) => sh(As::as_::<u8>($src)),
            (16, false) => sh(As::as_::<u16>($src)),
            (32, false) => sh(As::as_::<u32>($src)),
            (64, false) => sh(As::as_::<u64>($src)),
            (128, false) => sh(As::as_::<u128>($src)),
            (0, false) => sh(As::as_::<usize>($src)),
            (8, true) => sh(As::as_::<i8>($src)),
            (16, true) => sh(As::as_::<i16>($src)),
            (32, true) => sh(As::as_::<i32>($src)),
            (64, true) => sh(As::as_::<i64>($src)),
            (128, true) => sh(As::as_::<i128>($src)),
            (0, true) => sh(As::as_::<isize>($src)),
            _ => UNSUPPORTED.to_string(),
        }
    };
}
/// bits = 0 stands for usize / isize
macro_rules! to_prim {
    ($U:ty, $I:ty, $bits:expr, $ps:expr, $ss:expr, $tok:expr) => {
        if $ss {
            let s = <$I>::from_tok($tok);
            prim_of!(s, $bits, $ps)
        } else {
            let s = <$U>::from_tok($tok);
            prim_of!(s, $bits, $ps)
        }
    };
}
macro_rules! from_prim_to {
    ($T:ty, $bits:expr, $ps:expr, $v:expr) => {{
        let v: i128 = $v;
        match ($bits, $ps) {
            (8, false) => sh(<$T as CastFrom<u8>>::cast_from(v as u8)),
            (16, false) => sh(<$T as CastFrom<u16>>::cast_from(v as u16)),
            (32, false) => sh(<$T as CastFrom<u32>>::cast_from(v as u32)),
            (64, false) => sh(<$T as CastFrom<u64>>::cast_from(v as u64)),
            (128, false) => sh(<$T as CastFrom<u128>>::cast_from(v as u128)),
            (0, false) => sh(<$T as CastFrom<usize>>::cast_from(v as usize)),
            (8, true) => sh((v as i8).as_::<$T>()),
            (16, true) => sh((v as i16).as_::<$T>()),
            (32, true) => sh((v as i32).as_::<$T>()),
            (64, true) => sh((v as i64).as_::<$T>()),
            (128, true) => sh((v as i128).as_::<$T>()),
            (0, true) => sh((v as isize).as_::<$T>()),
            _ => UNSUPPORTED.to_string(),
        }
    }};
}
macro_rules! from_prim {
    ($U:ty, $I:ty, $bits:expr, $ps:expr, $dsg:expr, $v:expr) => {
        if $dsg {
            from_prim_to!($I, $bits, $ps, $v)
        } else {
            from_prim_to!($U, $bits, $ps, $v)
        }
    };
}
macro_rules! from_bool {
    ($U:ty, $I:ty, $dsg:expr, $b:expr) => {
        if $dsg {
            sh(($b).as_::<$I>())
        } else {
            sh(<$U as CastFrom<bool>>::cast_from($b))
        }
    };
}
macro_rules! from_char {
    ($U:ty, $I:ty, $dsg:expr, $c:expr) => {
        if $dsg {
            sh(<$I as CastFrom<char>>::cast_from($c))
        } else {
            sh(($c).as_::<$U>())
        }
    };
}
macro_rules! reinterpret {
    ($U:ty, $I:ty, $op:expr, $tok:expr) => {
        match $op {
            "cast_signed" => sh(<$U>::from_tok($tok).cast_signed()),
            "cast_unsigned" => sh(<$I>::from_tok($tok).cast_unsigned()),
            "to_bits" => sh(<$I>::from_tok($tok).to_bits()),
            "from_bits" => sh(<$I>::from_bits(<$U>::from_tok($tok))),
            _ => UNSUPPORTED.to_string(),
        }
    };
}

/// the primitive's value travels as a Z: token; unsigned 128-bit values above i128::MAX wrap, which
/// `v as u128` undoes
fn prim_value(tok: &str) -> i128 {
    tok_i128(tok)
}

fn run(op: &str, w: u32, n: usize, a: &[&str]) -> String {
    match op {
        "cast" => {
            let w2 = tok_u32(a[0]);
            let n2 = tok_u32(a[1]) as usize;
            let (ss, dsg) = (tok_bool(a[2]), tok_bool(a[3]));
            grid!(w, n, from_source, w2, n2, ss, dsg, a[4])
        }
        "to_prim" => {
            let bits = tok_u32(a[0]);
            let (ps, ss) = (tok_bool(a[1]), tok_bool(a[2]));
            if bits == 0 {
                return UNSUPPORTED.to_string();
            }
            grid!(w, n, to_prim, bits, ps, ss, a[3])
        }
        "to_size" => {
            let (ps, ss) = (tok_bool(a[0]), tok_bool(a[1]));
            grid!(w, n, to_prim, 0u32, ps, ss, a[2])
        }
        "from_prim" => {
            let bits = tok_u32(a[0]);
            let (ps, dsg) = (tok_bool(a[1]), tok_bool(a[2]));
            if bits == 0 {
                return UNSUPPORTED.to_string();
            }
            let v = prim_value(a[3]);
            grid!(w, n, from_prim, bits, ps, dsg, v)
        }
        "from_size" => {
            let (ps, dsg) = (tok_bool(a[0]), tok_bool(a[1]));
            let v = prim_value(a[2]);
            grid!(w, n, from_prim, 0u32, ps, dsg, v)
        }
        "from_bool" => {
            let (dsg, b) = (tok_bool(a[0]), tok_bool(a[1]));
            grid!(w, n, from_bool, dsg, b)
        }
        "from_char" => {
            let dsg = tok_bool(a[0]);
            let c = char::from_u32(tok_u32(a[1])).expect("char");
            grid!(w, n, from_char, dsg, c)
        }
        "cast_signed" | "cast_unsigned" | "to_bits" | "from_bits" => grid!(w, n, reinterpret, op, a[0]),
        _ => UNSUPPORTED.to_string(),
    }
}

fn main() {
    main_loop(run);
}

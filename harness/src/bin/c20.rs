//! C20: random generation (feature `rand`, rand 0.8) through the real bnum + rand API, driven by a
//! SCRIPTED RngCore whose output is exactly the byte list given on the case line.
//!
//! bnum only ever calls `try_fill_bytes` (Standard: one request of BYTES bytes via
//! `<[Digit] as Fill>::try_fill`; Fill for Slice<T>: one request of len*BYTES bytes).  The scripted
//! generator serves requests from the script left to right; `next_u32` / `next_u64` / `fill_bytes`
//! are derived from the same byte stream the way rand_core 0.6 derives them (little endian:
//! rand_core::impls::next_u32_via_fill / next_u64_via_fill), so any consumer sees one consistent
//! stream.  When the script is too short for a request the generator sets `dry` and fails the request
//! (Err from try_fill_bytes; a panic from the infallible methods): the case result is then `Err:3f`,
//! the model's out-of-stream outcome.
//!
//! Result protocol: `(L:<digits> Z:<bytes left in the script>)` | `Panic` | `Err:3f`.
#![allow(unused_variables, unused_imports, unused_macros)]
use bnum_verif_harness::*;
use core::num::NonZeroU32;
use rand::distributions::uniform::{SampleUniform, UniformSampler};
use rand::distributions::{Distribution, Uniform};
use rand::{Error, Fill, Rng, RngCore};
use std::panic::{catch_unwind, AssertUnwindSafe};

pub struct Scripted {
    data: Vec<u8>,
    pos: usize,
    dry: bool,
}
impl Scripted {
    fn new(data: Vec<u8>) -> Self {
        Scripted { data, pos: 0, dry: false }
    }
    fn left(&self) -> usize {
        self.data.len() - self.pos
    }
}
impl RngCore for Scripted {
    fn next_u32(&mut self) -> u32 {
        let mut b = [0u8; 4];
        self.fill_bytes(&mut b);
        u32::from_le_bytes(b)
    }
    fn next_u64(&mut self) -> u64 {
        let mut b = [0u8; 8];
        self.fill_bytes(&mut b);
        u64::from_le_bytes(b)
    }
    fn fill_bytes(&mut self, dest: &mut [u8]) {
        if self.try_fill_bytes(dest).is_err() {
            panic!("scripted rng: out of stream");
        }
    }
    fn try_fill_bytes(&mut self, dest: &mut [u8]) -> Result<(), Error> {
        if self.left() < dest.len() {
            self.dry = true;
            return Err(Error::from(NonZeroU32::new(Error::CUSTOM_START + 63).unwrap()));
        }
        dest.copy_from_slice(&self.data[self.pos..self.pos + dest.len()]);
        self.pos += dest.len();
        Ok(())
    }
}

/// runs `f` on a fresh scripted generator; `show` prints the value
fn run<T>(data: Vec<u8>, f: impl FnOnce(&mut Scripted) -> T, show: impl Fn(&T) -> String) -> String {
    let mut rng = Scripted::new(data);
    let r = catch_unwind(AssertUnwindSafe(|| f(&mut rng)));
    if rng.dry {
        return "Err:3f".to_string();
    }
    match r {
        Ok(v) => format!("({} Z:{:x})", show(&v), rng.left()),
        Err(_) => "Panic".to_string(),
    }
}

fn show_many<T: Show>(vs: &Vec<T>) -> String {
    let mut out = String::from("L:");
    for (i, v) in vs.iter().enumerate() {
        if i > 0 {
            out.push(',');
        }
        out.push_str(&sh_ref(v)[2..]);
    }
    out
}
fn sh_ref<T: Show>(v: &T) -> String {
    let mut s = String::new();
    v.show(&mut s);
    s
}

/// exhaustive sub-run: the generator holds exactly one word v (its `bytes` little-endian bytes) for
/// v = start .. start+cnt-1; entry = value drawn | 2^BITS (word rejected: script dry) | 2^BITS+1 (panic)
fn sweep<T>(bytes: usize, start: u64, cnt: u64, f: impl Fn(&mut Scripted) -> T, val: impl Fn(T) -> u64) -> String {
    assert!(bytes <= 4);
    let m: u64 = 1u64 << (8 * bytes as u32);
    let mut out = String::from("L:");
    for k in 0..cnt {
        let v = start + k;
        let script: Vec<u8> = v.to_le_bytes().iter().take(bytes).cloned().collect();
        let mut rng = Scripted::new(script);
        let r = catch_unwind(AssertUnwindSafe(|| f(&mut rng)));
        let e = if rng.dry {
            m
        } else {
            match r {
                Ok(x) => val(x),
                Err(_) => m + 1,
            }
        };
        if k > 0 {
            out.push(',');
        }
        out.push_str(&format!("{:x}", e));
    }
    out
}

macro_rules! ops {
    ($U:ty, $I:ty, $D:ty, $N:expr, $op:expr, $a:expr, $w:expr) => {{
        type U = $U;
        type I = $I;
        type D = $D;
        const N: usize = $N;
        const BYTES: usize = N * core::mem::size_of::<D>();
        let a = $a;
        let wbits: u32 = $w;
        let u = |i: usize| <U>::from_tok(a[i]);
        let s = |i: usize| <I>::from_tok(a[i]);
        let z = |i: usize| tok_u128(a[i]);
        let raw = |i: usize| tok_bytes(a[i]);
        // value of a (<= 32-bit) bnum integer as u64, for the sweeps
        let uv = |x: &U| -> u64 {
            let mut v = 0u64;
            for (i, d) in x.digits().iter().enumerate() {
                v |= (*d as u64) << (wbits as usize * i);
            }
            v
        };
        match $op {
            "U.standard" => run(raw(0), |r| r.gen::<U>(), |v| sh_ref(v)),
            "I.standard" => run(raw(0), |r| r.gen::<I>(), |v| sh_ref(v)),
            "U.try_fill_slice" => run(
                raw(1),
                |r| {
                    let mut v = vec![<U>::MAX; z(0) as usize];
                    bnum::random::try_fill_slice(&mut v, r).map(|_| v)
                },
                |v| match v {
                    Ok(v) => show_many(v),
                    Err(_) => "ERR".to_string(),
                },
            ),
            "I.try_fill_slice" => run(
                raw(1),
                |r| {
                    let mut v = vec![<I>::MAX; z(0) as usize];
                    bnum::random::try_fill_slice(&mut v, r).map(|_| v)
                },
                |v| match v {
                    Ok(v) => show_many(v),
                    Err(_) => "ERR".to_string(),
                },
            ),
            // the Fill impl reached through Rng::fill on the Slice wrapper (errors become a panic)
            "U.fill_trait" => run(
                raw(1),
                |r| {
                    let mut v = vec![<U>::MAX; z(0) as usize];
                    let sl = unsafe { &mut *(v.as_mut_slice() as *mut [U] as *mut bnum::random::Slice<U>) };
                    r.fill(sl);
                    v
                },
                |v| show_many(v),
            ),
            "I.fill_trait" => run(
                raw(1),
                |r| {
                    let mut v = vec![<I>::MAX; z(0) as usize];
                    let sl = unsafe { &mut *(v.as_mut_slice() as *mut [I] as *mut bnum::random::Slice<I>) };
                    r.fill(sl);
                    v
                },
                |v| show_many(v),
            ),
            "U.add_digit" => sh(u(0) + (z(1) as D)),
            "U.uniform_new_sample" => run(raw(2), |r| Uniform::new(u(0), u(1)).sample(r), |v| sh_ref(v)),
            "I.uniform_new_sample" => run(raw(2), |r| Uniform::new(s(0), s(1)).sample(r), |v| sh_ref(v)),
            "U.uniform_new_inclusive_sample" => {
                run(raw(2), |r| Uniform::new_inclusive(u(0), u(1)).sample(r), |v| sh_ref(v))
            }
            "I.uniform_new_inclusive_sample" => {
                run(raw(2), |r| Uniform::new_inclusive(s(0), s(1)).sample(r), |v| sh_ref(v))
            }
            "U.uniform_inclusive_sample_k" => run(
                raw(3),
                |r| {
                    let d = Uniform::new_inclusive(u(0), u(1));
                    (0..z(2)).map(|_| d.sample(r)).collect::<Vec<U>>()
                },
                |v| show_many(v),
            ),
            "I.uniform_inclusive_sample_k" => run(
                raw(3),
                |r| {
                    let d = Uniform::new_inclusive(s(0), s(1));
                    (0..z(2)).map(|_| d.sample(r)).collect::<Vec<I>>()
                },
                |v| show_many(v),
            ),
            "U.sample_single" => {
                run(raw(2), |r| <U as SampleUniform>::Sampler::sample_single(u(0), u(1), r), |v| sh_ref(v))
            }
            "I.sample_single" => {
                run(raw(2), |r| <I as SampleUniform>::Sampler::sample_single(s(0), s(1), r), |v| sh_ref(v))
            }
            "U.sample_single_inclusive" => run(
                raw(2),
                |r| <U as SampleUniform>::Sampler::sample_single_inclusive(u(0), u(1), r),
                |v| sh_ref(v),
            ),
            "I.sample_single_inclusive" => run(
                raw(2),
                |r| <I as SampleUniform>::Sampler::sample_single_inclusive(s(0), s(1), r),
                |v| sh_ref(v),
            ),
            "U.gen_range" => run(raw(2), |r| r.gen_range(u(0)..u(1)), |v| sh_ref(v)),
            "I.gen_range" => run(raw(2), |r| r.gen_range(s(0)..s(1)), |v| sh_ref(v)),
            "U.gen_range_inclusive" => run(raw(2), |r| r.gen_range(u(0)..=u(1)), |v| sh_ref(v)),
            "I.gen_range_inclusive" => run(raw(2), |r| r.gen_range(s(0)..=s(1)), |v| sh_ref(v)),
            "U.sweep_ssi" => sweep(
                BYTES, z(2) as u64, z(3) as u64,
                |r: &mut Scripted| <U as SampleUniform>::Sampler::sample_single_inclusive(u(0), u(1), r),
                |x: U| uv(&x),
            ),
            "I.sweep_ssi" => sweep(
                BYTES, z(2) as u64, z(3) as u64,
                |r: &mut Scripted| <I as SampleUniform>::Sampler::sample_single_inclusive(s(0), s(1), r),
                |x: I| uv(&x.to_bits()),
            ),
            "U.sweep_uni" => sweep(
                BYTES, z(2) as u64, z(3) as u64,
                |r: &mut Scripted| Uniform::new_inclusive(u(0), u(1)).sample(r),
                |x: U| uv(&x),
            ),
            "I.sweep_uni" => sweep(
                BYTES, z(2) as u64, z(3) as u64,
                |r: &mut Scripted| Uniform::new_inclusive(s(0), s(1)).sample(r),
                |x: I| uv(&x.to_bits()),
            ),
            _ => UNSUPPORTED.to_string(),
        }
    }};
}

fn main() {
    main_loop(|op, w, n, args| for_configs!(w, n, ops, op, args, w));
}

//! Common code of the correspondence harness: the text protocol (see
//! /verif/ocaml/runner_body.ml), parsing of digit lists into bnum values,
//! canonical printing of results, panic capture, configuration dispatch.
use std::io::{Read, Write};
use std::panic::{catch_unwind, AssertUnwindSafe};

pub use bnum::{BInt, BIntD16, BIntD32, BIntD8, BUint, BUintD16, BUintD32, BUintD8};

pub fn hex_list(tok: &str) -> Vec<u64> {
    let body = tok.strip_prefix("L:").expect("expected L: token");
    if body.is_empty() {
        return Vec::new();
    }
    body.split(',').map(|h| u64::from_str_radix(h, 16).expect("hex digit")).collect()
}
pub fn tok_bool(tok: &str) -> bool {
    tok == "B:1"
}
/// Z: token that fits in i128 (amounts, exponents, primitive operands)
pub fn tok_i128(tok: &str) -> i128 {
    let body = tok.strip_prefix("Z:").expect("expected Z: token");
    if let Some(m) = body.strip_prefix('-') {
        let v = u128::from_str_radix(m, 16).unwrap();
        (v as i128).wrapping_neg()
    } else {
        u128::from_str_radix(body, 16).unwrap() as i128
    }
}
pub fn tok_u128(tok: &str) -> u128 {
    let body = tok.strip_prefix("Z:").expect("expected Z: token");
    u128::from_str_radix(body, 16).unwrap()
}
pub fn tok_u32(tok: &str) -> u32 {
    tok_u128(tok) as u32
}
pub fn tok_bytes(tok: &str) -> Vec<u8> {
    hex_list(tok).into_iter().map(|x| x as u8).collect()
}

/// values that can be built from an `L:` token
pub trait FromTok: Sized {
    fn from_tok(tok: &str) -> Self;
}
/// canonical result printing
pub trait Show {
    fn show(&self, out: &mut String);
}

macro_rules! bnum_impls {
    ($U:ident, $I:ident, $D:ty) => {
        impl<const N: usize> FromTok for $U<N> {
            fn from_tok(tok: &str) -> Self {
                let v = hex_list(tok);
                assert_eq!(v.len(), N, "digit count");
                let mut d = [0 as $D; N];
                for i in 0..N {
                    assert!(v[i] <= <$D>::MAX as u64);
                    d[i] = v[i] as $D;
                }
                $U::from_digits(d)
            }
        }
        impl<const N: usize> FromTok for $I<N> {
            fn from_tok(tok: &str) -> Self {
                $I::from_bits(<$U<N>>::from_tok(tok))
            }
        }
        impl<const N: usize> Show for $U<N> {
            fn show(&self, out: &mut String) {
                out.push_str("L:");
                for (i, d) in self.digits().iter().enumerate() {
                    if i > 0 {
                        out.push(',');
                    }
                    out.push_str(&format!("{:x}", d));
                }
            }
        }
        impl<const N: usize> Show for $I<N> {
            fn show(&self, out: &mut String) {
                self.to_bits().show(out)
            }
        }
    };
}
bnum_impls!(BUint, BInt, u64);
bnum_impls!(BUintD32, BIntD32, u32);
bnum_impls!(BUintD16, BIntD16, u16);
bnum_impls!(BUintD8, BIntD8, u8);

impl Show for bool {
    fn show(&self, out: &mut String) {
        out.push_str(if *self { "B:1" } else { "B:0" });
    }
}
macro_rules! show_uint { ($($t:ty),*) => {$(
    impl Show for $t { fn show(&self, out: &mut String) { out.push_str(&format!("Z:{:x}", self)); } }
)*}}
show_uint!(u8, u16, u32, u64, u128, usize);
macro_rules! show_sint { ($($t:ty),*) => {$(
    impl Show for $t { fn show(&self, out: &mut String) {
        if *self < 0 { out.push_str(&format!("Z:-{:x}", self.unsigned_abs())); } else { out.push_str(&format!("Z:{:x}", self)); }
    } }
)*}}
show_sint!(i8, i16, i32, i64, i128, isize);
impl Show for core::cmp::Ordering {
    fn show(&self, out: &mut String) {
        out.push_str(match self {
            core::cmp::Ordering::Less => "Z:-1",
            core::cmp::Ordering::Equal => "Z:0",
            core::cmp::Ordering::Greater => "Z:1",
        });
    }
}
impl<T: Show> Show for Option<T> {
    fn show(&self, out: &mut String) {
        match self {
            None => out.push_str("None"),
            Some(v) => {
                out.push_str("Some(");
                v.show(out);
                out.push(')');
            }
        }
    }
}
impl<A: Show, B: Show> Show for (A, B) {
    fn show(&self, out: &mut String) {
        out.push('(');
        self.0.show(out);
        out.push(' ');
        self.1.show(out);
        out.push(')');
    }
}
impl Show for () {
    fn show(&self, out: &mut String) {
        out.push_str("Unit");
    }
}
/// a list of small integers (bytes, radix digits, string bytes)
pub struct Bytes(pub Vec<u8>);
impl Show for Bytes {
    fn show(&self, out: &mut String) {
        out.push_str("L:");
        for (i, d) in self.0.iter().enumerate() {
            if i > 0 {
                out.push(',');
            }
            out.push_str(&format!("{:x}", d));
        }
    }
}
impl Show for String {
    fn show(&self, out: &mut String) {
        Bytes(self.as_bytes().to_vec()).show(out)
    }
}
/// error kinds, as small integers agreed with the model
pub struct ErrKind(pub u32);
impl<T: Show> Show for Result<T, ErrKind> {
    fn show(&self, out: &mut String) {
        match self {
            Ok(v) => v.show(out),
            Err(k) => out.push_str(&format!("Err:{:x}", k.0)),
        }
    }
}

pub fn sh<T: Show>(v: T) -> String {
    let mut s = String::new();
    v.show(&mut s);
    s
}

pub const UNSUPPORTED: &str = "UNSUPPORTED";

/// Reads all cases from stdin, runs `f(op, w, n, args)` on each inside
/// catch_unwind, writes one result line per case.
pub fn main_loop(f: impl Fn(&str, u32, usize, &[&str]) -> String) {
    std::panic::set_hook(Box::new(|_| {}));
    let mut input = String::new();
    std::io::stdin().read_to_string(&mut input).unwrap();
    let stdout = std::io::stdout();
    let mut out = std::io::BufWriter::new(stdout.lock());
    for line in input.lines() {
        if line.is_empty() {
            continue;
        }
        let toks: Vec<&str> = line.split(' ').filter(|t| !t.is_empty()).collect();
        let op = toks[0];
        let w: u32 = toks[1].parse().unwrap();
        let n: usize = toks[2].parse().unwrap();
        let args = &toks[3..];
        let r = catch_unwind(AssertUnwindSafe(|| f(op, w, n, args)));
        match r {
            Ok(s) => writeln!(out, "{}", s).unwrap(),
            Err(_) => writeln!(out, "Panic").unwrap(),
        }
        // one result per line, flushed: the driver sees exactly which case is running (non-termination is located without bisection)
        out.flush().unwrap();
    }
    out.flush().unwrap();
}

#[cfg(feature = "sweep")]
include!("sweep8.rs");

/// is (w, n) one of the configurations of `for_configs!` (gen/common.py CONFIGS_ALL mirrors the table)?
pub fn is_standard_config(w: u32, n: usize) -> bool {
    matches!((w, n), (8, 1) | (8, 2) | (8, 3) | (8, 4) | (8, 5) | (8, 8) | (8, 17) | (8, 33) | (8, 300)
        | (16, 1) | (16, 2) | (16, 3) | (16, 6) | (32, 1) | (32, 2) | (32, 3) | (32, 10)
        | (64, 1) | (64, 2) | (64, 3) | (64, 5) | (64, 17) | (64, 128))
}

/// Dispatch on (digit width, digit count): calls `$m!(U, I, Digit, N, args...)`.
/// The standard configuration table (DESIGN 4.2).
#[macro_export]
macro_rules! for_configs {
    ($w:expr, $n:expr, $m:ident $(, $a:expr)*) => {
        match ($w, $n) {
            (8, 1) => $m!($crate::BUintD8<1>, $crate::BIntD8<1>, u8, 1 $(, $a)*),
            (8, 2) => $m!($crate::BUintD8<2>, $crate::BIntD8<2>, u8, 2 $(, $a)*),
            (8, 3) => $m!($crate::BUintD8<3>, $crate::BIntD8<3>, u8, 3 $(, $a)*),
            (8, 4) => $m!($crate::BUintD8<4>, $crate::BIntD8<4>, u8, 4 $(, $a)*),
            (8, 5) => $m!($crate::BUintD8<5>, $crate::BIntD8<5>, u8, 5 $(, $a)*),
            (8, 8) => $m!($crate::BUintD8<8>, $crate::BIntD8<8>, u8, 8 $(, $a)*),
            (8, 17) => $m!($crate::BUintD8<17>, $crate::BIntD8<17>, u8, 17 $(, $a)*),
            (8, 33) => $m!($crate::BUintD8<33>, $crate::BIntD8<33>, u8, 33 $(, $a)*),
            (8, 300) => $m!($crate::BUintD8<300>, $crate::BIntD8<300>, u8, 300 $(, $a)*),
            (16, 1) => $m!($crate::BUintD16<1>, $crate::BIntD16<1>, u16, 1 $(, $a)*),
            (16, 2) => $m!($crate::BUintD16<2>, $crate::BIntD16<2>, u16, 2 $(, $a)*),
            (16, 3) => $m!($crate::BUintD16<3>, $crate::BIntD16<3>, u16, 3 $(, $a)*),
            (16, 6) => $m!($crate::BUintD16<6>, $crate::BIntD16<6>, u16, 6 $(, $a)*),
            (32, 1) => $m!($crate::BUintD32<1>, $crate::BIntD32<1>, u32, 1 $(, $a)*),
            (32, 2) => $m!($crate::BUintD32<2>, $crate::BIntD32<2>, u32, 2 $(, $a)*),
            (32, 3) => $m!($crate::BUintD32<3>, $crate::BIntD32<3>, u32, 3 $(, $a)*),
            (32, 10) => $m!($crate::BUintD32<10>, $crate::BIntD32<10>, u32, 10 $(, $a)*),
            (64, 1) => $m!($crate::BUint<1>, $crate::BInt<1>, u64, 1 $(, $a)*),
            (64, 2) => $m!($crate::BUint<2>, $crate::BInt<2>, u64, 2 $(, $a)*),
            (64, 3) => $m!($crate::BUint<3>, $crate::BInt<3>, u64, 3 $(, $a)*),
            (64, 5) => $m!($crate::BUint<5>, $crate::BInt<5>, u64, 5 $(, $a)*),
            (64, 17) => $m!($crate::BUint<17>, $crate::BInt<17>, u64, 17 $(, $a)*),
            (64, 128) => $m!($crate::BUint<128>, $crate::BInt<128>, u64, 128 $(, $a)*),
            _ => $crate::UNSUPPORTED.to_string(),
        }
    };
}

/// A smaller configuration table for binaries with very many operations (C04, C17): compile time.
#[macro_export]
macro_rules! for_configs_small {
    ($w:expr, $n:expr, $m:ident $(, $a:expr)*) => {
        match ($w, $n) {
            (8, 1) => $m!($crate::BUintD8<1>, $crate::BIntD8<1>, u8, 1 $(, $a)*),
            (8, 3) => $m!($crate::BUintD8<3>, $crate::BIntD8<3>, u8, 3 $(, $a)*),
            (8, 5) => $m!($crate::BUintD8<5>, $crate::BIntD8<5>, u8, 5 $(, $a)*),
            (16, 2) => $m!($crate::BUintD16<2>, $crate::BIntD16<2>, u16, 2 $(, $a)*),
            (16, 3) => $m!($crate::BUintD16<3>, $crate::BIntD16<3>, u16, 3 $(, $a)*),
            (32, 1) => $m!($crate::BUintD32<1>, $crate::BIntD32<1>, u32, 1 $(, $a)*),
            (32, 3) => $m!($crate::BUintD32<3>, $crate::BIntD32<3>, u32, 3 $(, $a)*),
            (64, 1) => $m!($crate::BUint<1>, $crate::BInt<1>, u64, 1 $(, $a)*),
            (64, 2) => $m!($crate::BUint<2>, $crate::BInt<2>, u64, 2 $(, $a)*),
            (64, 3) => $m!($crate::BUint<3>, $crate::BInt<3>, u64, 3 $(, $a)*),
            _ => $crate::UNSUPPORTED.to_string(),
        }
    };
}

/// Configurations grouped by equal bit width (C16): 16, 32, 64, 96, 128 bits in every digit type that can build them.
#[macro_export]
macro_rules! for_configs_eqw {
    ($w:expr, $n:expr, $m:ident $(, $a:expr)*) => {
        match ($w, $n) {
            (8, 2) => $m!($crate::BUintD8<2>, $crate::BIntD8<2>, u8, 2 $(, $a)*),
            (16, 1) => $m!($crate::BUintD16<1>, $crate::BIntD16<1>, u16, 1 $(, $a)*),
            (8, 4) => $m!($crate::BUintD8<4>, $crate::BIntD8<4>, u8, 4 $(, $a)*),
            (16, 2) => $m!($crate::BUintD16<2>, $crate::BIntD16<2>, u16, 2 $(, $a)*),
            (32, 1) => $m!($crate::BUintD32<1>, $crate::BIntD32<1>, u32, 1 $(, $a)*),
            (8, 8) => $m!($crate::BUintD8<8>, $crate::BIntD8<8>, u8, 8 $(, $a)*),
            (16, 4) => $m!($crate::BUintD16<4>, $crate::BIntD16<4>, u16, 4 $(, $a)*),
            (32, 2) => $m!($crate::BUintD32<2>, $crate::BIntD32<2>, u32, 2 $(, $a)*),
            (64, 1) => $m!($crate::BUint<1>, $crate::BInt<1>, u64, 1 $(, $a)*),
            (8, 12) => $m!($crate::BUintD8<12>, $crate::BIntD8<12>, u8, 12 $(, $a)*),
            (16, 6) => $m!($crate::BUintD16<6>, $crate::BIntD16<6>, u16, 6 $(, $a)*),
            (32, 3) => $m!($crate::BUintD32<3>, $crate::BIntD32<3>, u32, 3 $(, $a)*),
            (8, 16) => $m!($crate::BUintD8<16>, $crate::BIntD8<16>, u8, 16 $(, $a)*),
            (16, 8) => $m!($crate::BUintD16<8>, $crate::BIntD16<8>, u16, 8 $(, $a)*),
            (32, 4) => $m!($crate::BUintD32<4>, $crate::BIntD32<4>, u32, 4 $(, $a)*),
            (64, 2) => $m!($crate::BUint<2>, $crate::BInt<2>, u64, 2 $(, $a)*),
            _ => $crate::UNSUPPORTED.to_string(),
        }
    };
}

/// associated constants by name (C16)
pub trait NamedConsts: Sized {
    fn by_name(name: &str) -> Option<Self>;
}
macro_rules! named_consts {
    ($U:ident, $I:ident) => {
        impl<const N: usize> NamedConsts for $U<N> {
            fn by_name(name: &str) -> Option<Self> {
                Some(match name {
                    "ZERO" => Self::ZERO, "MIN" => Self::MIN, "ONE" => Self::ONE, "TWO" => Self::TWO, "THREE" => Self::THREE,
                    "FOUR" => Self::FOUR, "FIVE" => Self::FIVE, "SIX" => Self::SIX, "SEVEN" => Self::SEVEN,
                    "EIGHT" => Self::EIGHT, "NINE" => Self::NINE, "TEN" => Self::TEN, _ => return None,
                })
            }
        }
        impl<const N: usize> NamedConsts for $I<N> {
            fn by_name(name: &str) -> Option<Self> {
                Some(match name {
                    "ZERO" => Self::ZERO, "ONE" => Self::ONE, "TWO" => Self::TWO, "THREE" => Self::THREE,
                    "FOUR" => Self::FOUR, "FIVE" => Self::FIVE, "SIX" => Self::SIX, "SEVEN" => Self::SEVEN,
                    "EIGHT" => Self::EIGHT, "NINE" => Self::NINE, "TEN" => Self::TEN,
                    "NEG_ONE" => Self::NEG_ONE, "NEG_TWO" => Self::NEG_TWO, "NEG_THREE" => Self::NEG_THREE,
                    "NEG_FOUR" => Self::NEG_FOUR, "NEG_FIVE" => Self::NEG_FIVE, "NEG_SIX" => Self::NEG_SIX,
                    "NEG_SEVEN" => Self::NEG_SEVEN, "NEG_EIGHT" => Self::NEG_EIGHT, "NEG_NINE" => Self::NEG_NINE,
                    "NEG_TEN" => Self::NEG_TEN, _ => return None,
                })
            }
        }
    };
}
named_consts!(BUint, BInt);
named_consts!(BUintD32, BIntD32);
named_consts!(BUintD16, BIntD16);
named_consts!(BUintD8, BIntD8);
pub fn u_const<T: NamedConsts>(name: &[u8]) -> Option<T> {
    T::by_name(std::str::from_utf8(name).unwrap())
}
pub fn i_const<T: NamedConsts>(name: &[u8]) -> Option<T> {
    T::by_name(std::str::from_utf8(name).unwrap())
}
/// BITS of the aliases U<bits> / I<bits> of bnum::types
pub fn alias_bits(bits: u128) -> Option<(u32, u32)> {
    use bnum::types::*;
    Some(match bits {
        128 => (U128::BITS, I128::BITS),
        256 => (U256::BITS, I256::BITS),
        512 => (U512::BITS, I512::BITS),
        1024 => (U1024::BITS, I1024::BITS),
        2048 => (U2048::BITS, I2048::BITS),
        4096 => (U4096::BITS, I4096::BITS),
        8192 => (U8192::BITS, I8192::BITS),
        _ => return None,
    })
}

/// `head` ++ 2^log2 copies of `fill` ++ `tail`: byte slices whose LENGTH exceeds what a u32 can hold (C15)
pub fn huge_bytes(log2: u32, fill: u8, head: &[u8], tail: &[u8]) -> Vec<u8> {
    let n = 1usize << log2;
    let mut v = Vec::with_capacity(head.len() + n + tail.len());
    v.extend_from_slice(head);
    v.resize(head.len() + n, fill);
    v.extend_from_slice(tail);
    v
}

/// (2^log2 + 3) copies of `fill` followed by `tail`: inputs whose LENGTH exceeds what a u32 can hold (C10)
pub fn huge_str(log2: u32, fill: u8, tail: &[u8]) -> String {
    let n = (1usize << log2) + 3;
    let mut v = Vec::with_capacity(n + tail.len());
    v.resize(n, fill);
    v.extend_from_slice(tail);
    String::from_utf8(v).unwrap()
}

#!/usr/bin/env python3
"""resolve a merge conflict in coq/_CoqProject by taking the union of the lines"""
p = '/verif/coq/_CoqProject'
lines = []
for l in open(p).read().split("\n"):
    if l[:7] in ("<<<<<<<", "=======", ">>>>>>>", "|||||||") or not l.strip():
        continue
    if l not in lines:
        lines.append(l)
open(p, 'w').write("\n".join(lines) + "\n")

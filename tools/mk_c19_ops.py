#!/usr/bin/env python3
"""Generates tools/ops/C19.ops: every num_traits conversion method of BUint / BInt, called THROUGH THE TRAIT
(FromPrimitive, ToPrimitive, AsPrimitive, NumCast), one operation per (signedness, method / primitive type).
Primitive values travel as Z: tokens, floats as their bit patterns.  Then run `python3 tools/mkops.py C19`."""
import os
ROOT = os.path.dirname(os.path.dirname(os.path.abspath(__file__)))

UINTS = ["u8", "u16", "u32", "u64", "u128", "usize"]
SINTS = ["i8", "i16", "i32", "i64", "i128", "isize"]
PTY = {t: "P" + t[0].upper() + t[1:] for t in UINTS + SINTS}          # u8 -> PU8, usize -> PUsize
FL = {"f32": "F32", "f64": "F64"}


def parg(t):
    """rust expression reading argument 0 as the primitive integer type t"""
    return ("zu(0) as %s" if t in UINTS else "zi(0) as %s") % t


def farg(f):
    return "f32::from_bits(z32(0))" if f == "f32" else "f64::from_bits(zu(0) as u64)"


out = [
    "@coq_import Core Cast Convert FloatCast NumConv NumConvRun",
    "@rust_use use num_traits::{AsPrimitive, FromPrimitive, NumCast, ToPrimitive};",
    "@rust_use /// the bnum types of a digit type at fixed digit counts (targets of AsPrimitive between bnum integers)",
    "@rust_use trait Fam { type U1; type I1; type U2; type I2; type U3; type I3; type U9; type I9; }",
]
for d, (bu, bi) in {"u8": ("BUintD8", "BIntD8"), "u16": ("BUintD16", "BIntD16"), "u32": ("BUintD32", "BIntD32"),
                    "u64": ("BUint", "BInt")}.items():
    out.append("@rust_use impl Fam for %s { %s }" % (d, " ".join(
        "type U%d = %s<%d>; type I%d = %s<%d>;" % (k, bu, k, k, bi, k) for k in (1, 2, 3, 9))))
out.append("@rust_use fn chr(c: u32) -> char { char::from_u32(c).expect(\"char\") }")

for S, sg, p in (("U", "false", "u"), ("I", "true", "s")):
    # ---- FromPrimitive
    out.append("# FromPrimitive for %s" % S)
    for t in UINTS + SINTS:
        out.append("%s.from_%s | Z | op_from_int dbg w n %s %s z | <%s as FromPrimitive>::from_%s(%s)"
                   % (S, t, sg, PTY[t], S, t, parg(t)))
    for f in FL:
        out.append("%s.from_%s | Z | op_from_float dbg %s w n %s z | <%s as FromPrimitive>::from_%s(%s)"
                   % (S, f, FL[f], sg, S, f, farg(f)))
    # ---- ToPrimitive
    out.append("# ToPrimitive for %s" % S)
    for t in UINTS + SINTS:
        out.append("%s.to_%s | L | op_to_int dbg w %s %s a | ToPrimitive::to_%s(&%s(0))" % (S, t, sg, PTY[t], t, p))
    for f in FL:
        out.append("%s.to_%s | L | op_to_float dbg %s w %s a | ToPrimitive::to_%s(&%s(0)).map(%s::to_bits)"
                   % (S, f, FL[f], sg, f, p, f))
    # ---- AsPrimitive: bnum -> primitive
    out.append("# AsPrimitive<prim> for %s" % S)
    for t in UINTS + SINTS:
        out.append("%s.as_%s | L | op_as_to_int dbg w %s %s a | AsPrimitive::<%s>::as_(%s(0))" % (S, t, sg, PTY[t], t, p))
    for f in FL:
        out.append("%s.as_%s | L | op_as_to_float dbg %s w %s a | AsPrimitive::<%s>::as_(%s(0)).to_bits()"
                   % (S, f, FL[f], sg, f, p))
    # ---- AsPrimitive: primitive -> bnum
    out.append("# AsPrimitive<%s> for primitives" % S)
    for t in UINTS + SINTS:
        out.append("%s.as_from_%s | Z | op_as_from_int w n %s %s z | AsPrimitive::<%s>::as_(%s)" % (S, t, sg, PTY[t], S, parg(t)))
    out.append("%s.as_from_char | Z | op_as_from_char w n %s z | AsPrimitive::<%s>::as_(chr(z32(0)))" % (S, sg, S))
    out.append("%s.as_from_bool | B | op_as_from_bool n %s f | AsPrimitive::<%s>::as_(b(0))" % (S, sg, S))
    for f in FL:
        out.append("%s.as_from_%s | Z | op_as_from_float dbg %s w n %s z | AsPrimitive::<%s>::as_(%s)"
                   % (S, f, FL[f], sg, S, farg(f)))
    # ---- AsPrimitive: bnum -> bnum of the same digit type
    out.append("# AsPrimitive<BUint<M>|BInt<M>> for %s" % S)
    for T, tsg in (("U", "false"), ("I", "true")):
        out.append("%s.as_%s | L | op_as_bnum dbg w n %s %s a | AsPrimitive::<%s>::as_(%s(0))" % (S, T, sg, tsg, T, p))
        for k in (1, 2, 3, 9):
            out.append("%s.as_%s%d | L | op_as_bnum dbg w %d %s %s a | AsPrimitive::<<D as Fam>::%s%d>::as_(%s(0))"
                       % (S, T, k, k, sg, tsg, T, k, p))
    # ---- NumCast (unconditional panic; outside the property's claim)
    out.append("%s.numcast_u64 | Z | op_numcast z | <%s as NumCast>::from(zu(0) as u64)" % (S, S))
    out.append("%s.numcast_f64 | Z | op_numcast z | <%s as NumCast>::from(f64::from_bits(zu(0) as u64))" % (S, S))

open(os.path.join(ROOT, "tools", "ops", "C19.ops"), "w").write("\n".join(out) + "\n")
print("C19.ops: %d lines" % len(out))

#!/bin/bash
# tools/archive_mutant.sh <worktree> <N> <seeded-id> <PROP> "<change>" "<needs>" : copy a confirmed seeded change into seeded/<id>/
WT=$1; N=$2; SID=$3; PROP=$4; CHANGE=$5; NEEDS=$6
D=/verif/seeded/$SID; mkdir -p $D
cp $WT/out/mut$N.diff $D/patch.diff
cp $WT/out/mut${N}_demo.rs $D/demo.rs 2>/dev/null || cp $WT/out/demo$N/src/main.rs $D/demo.rs
cp $WT/out/demo$N/Cargo.toml $D/demo_Cargo.toml 2>/dev/null
cp $WT/out/mut$N.md $D/notes.md 2>/dev/null
python3 - "$D" "$SID" "$PROP" "$CHANGE" "$NEEDS" <<'PY'
import json,sys
d,sid,prop,change,needs=sys.argv[1:6]
json.dump({"breaks_property":prop,"change":change,"needs_to_manifest":needs,
 "origin":"written by an independent sub-agent given only the property text and a scratch worktree of /repo (nothing from /verif); " + ("round 3: asked for changes designed to evade a differential tester that enumerates 8/16-bit types and samples random + boundary values" if __import__("os").environ.get("ROUND") == "3" else "round 2: asked for changes needing a rarer trigger"),
 "confirmed":"tools/confirm_mutant.sh: demo exits 0 on the clean tree; with the patch applied the crate builds (default and numtraits,rand), `cargo test --workspace --no-fail-fast --offline` reports 1945 + 224 passed / 0 failed, and the demo exits non-zero (debug and release)",
 "detected_by":[], "how_run":"tools/seedrun.sh /verif/seeded/%s/patch.diff %s"%(sid,prop),
 "demo":"demo.rs is the main.rs of a scratch crate with demo_Cargo.toml (bnum path dependency on the mutated tree)"},open(d+"/meta.json","w"),indent=1)
PY
echo archived $SID

#!/usr/bin/env python3
"""tools/rs2v_endian.py — TRANSLATOR: the byte-order / byte-slice code  ->  coq/Generated/EndianGen.v

Reads $BNUM_REPO (default /repo) src/buint/endian.rs and src/bint/endian.rs, takes the functions listed in WANTED out of
their `macro_rules! endian` bodies (from_be / from_le / to_be / to_le, from_be_slice / from_le_slice - in the signed file with
the local macro `set_digit!` - and the nightly to_{be,le,ne}_bytes / from_{be,le,ne}_bytes) and translates each into a Gallina
function over the control-flow vocabulary of coq/Model/Imp.v, the primitive vocabulary of coq/Prim.v, coq/Model/LoopPrims.v and
coq/Model/ImpEndian.v (digit::BYTES, digit::BYTE_SHIFT: two one-line definitions) and the primitive uW <-> [u8; BYTES]
conversions of coq/Model/Endian.v (u_from_le_bytes ..: modelled, trusted, as before).  coq/Proofs/EndianGenTie*.v prove every
generated function equal to the hand-written model of coq/Model/Endian.v, for all inputs.

The lexer pieces, the expression / statement parser (L.LP), the type machinery and the statement generator (L.Gen) are imported
from tools/rs2v_loops.py and extended by subclassing; see tools/ENDIAN_TRANSLATOR.md for the subset that is added.  Anything
outside the subset makes the translator fail loudly: the construct is named on stderr, the function (and every translated
function that calls it) gets the stub `Definition f : unit := tt.` and the exit status is 1 (0 with `--for Cxx` for a property
other than C15)."""
import re, sys, os
sys.path.insert(0, os.path.dirname(os.path.abspath(__file__)))
import rs2v_loops as L

REPO = os.environ.get("BNUM_REPO", "/repo")
ROOT = os.path.dirname(os.path.dirname(os.path.abspath(__file__)))
USRC, ISRC = "src/buint/endian.rs", "src/bint/endian.rs"

# (source file, Rust fn name, Gallina name) in dependency order (a callee before its callers)
WANTED = [
    (USRC, "from_be", "from_be"), (USRC, "from_le", "from_le"), (USRC, "to_be", "to_be"), (USRC, "to_le", "to_le"),
    (USRC, "from_be_slice", "from_be_slice"), (USRC, "from_le_slice", "from_le_slice"),
    (USRC, "to_be_bytes", "to_be_bytes"), (USRC, "to_le_bytes", "to_le_bytes"), (USRC, "to_ne_bytes", "to_ne_bytes"),
    (USRC, "from_be_bytes", "from_be_bytes"), (USRC, "from_le_bytes", "from_le_bytes"), (USRC, "from_ne_bytes", "from_ne_bytes"),
    (ISRC, "from_be", "I_from_be"), (ISRC, "from_le", "I_from_le"), (ISRC, "to_be", "I_to_be"), (ISRC, "to_le", "I_to_le"),
    (ISRC, "from_be_slice", "I_from_be_slice"), (ISRC, "from_le_slice", "I_from_le_slice"),
    (ISRC, "to_be_bytes", "I_to_be_bytes"), (ISRC, "to_le_bytes", "I_to_le_bytes"), (ISRC, "to_ne_bytes", "I_to_ne_bytes"),
    (ISRC, "from_be_bytes", "I_from_be_bytes"), (ISRC, "from_le_bytes", "I_from_le_bytes"), (ISRC, "from_ne_bytes", "I_from_ne_bytes"),
]
GROUPS = {"C15": [w[2] for w in WANTED]}
CONST_FILES = {ISRC: ["src/bint/consts.rs"]}        # Self::N_MINUS_1 of the signed file
LAST_MSG = [""]


def die(msg):
    LAST_MSG[0] = L.LAST_MSG[0] = msg
    if not L.QUIET[0]:                      # (assoc_consts of rs2v_loops probes quietly: an unparsable const is an error only where used)
        sys.stderr.write("rs2v_endian: " + msg + "\n")
    sys.exit(1)


# ---------------------------------------------------------------- the types that are new here
# "slice"  = &[u8]                         (a list Z of any length; `s[i]` panics out of bounds, `s.len()`)
# "bytesD" = [u8; digit::$Digit::BYTES as usize]
# "bytesN" = [u8; Self::BYTES_USIZE]       (= [u8; $BUint::<N>::BYTES_USIZE])
# "U8" / "I8" = u8 / i8 (values: Z; u8 in [0,256), i8 its two's complement reading `sd 8`)
BYTE_ARRAYS = ("slice", "bytesD", "bytesN")
_coq_ty0 = L.coq_ty


def coq_ty(t):
    t = L.rs(t)
    if t in BYTE_ARRAYS:
        return "list Z"
    return _coq_ty0(t)


_LP, _Gen = L.LP, L.Gen
# rs2v_loops looks these up as module globals at call time: messages get this translator's prefix and its LAST_MSG,
# the new array kinds take part in unification (kind mismatch = type error), u8 / i8 are integer types
L.die = die
L.coq_ty = coq_ty
L.ARRAYS = L.ARRAYS + BYTE_ARRAYS
L.INTS = L.INTS + ("U8", "I8")
# $BUint methods called BY THEIR HAND-MODEL NAME (tied to the source elsewhere):
#   swap_bytes   Proofs/LoopsTieC05.v: loops_swap_bytes  (Loops.swap_bytes = Bits.swap_bytes)
L.MODEL_CALLS = dict(L.MODEL_CALLS)
L.MODEL_CALLS[("buint", "swap_bytes")] = ("Bits.swap_bytes w", [], "buint", ())

GALLINA_KEYWORDS = {"as", "at", "cofix", "else", "end", "exists", "exists2", "fix", "for", "forall", "fun", "if", "IF", "in",
                    "let", "match", "mod", "return", "then", "using", "where", "with", "Prop", "Set", "Type", "Done", "Panicked",
                    "NoFuel", "Continue", "Break", "Return", "Exited", "Returned", "Some", "None", "true", "false", "fst", "snd",
                    "bind", "repeat", "nil", "cons", "tt", "O", "S", "Z", "nat", "bool", "list", "res", "length", "sd", "ud"}

# ---------------------------------------------------------------- lexing (L.tokenize + string literals in attributes)

TOK = re.compile(r"\s*(?:(\d[\d_]*)|(\$?[A-Za-z_][A-Za-z0-9_]*!?)|(\"(?:[^\"\\]|\\.)*\")|(<<=|>>=|<<|>>|\|\||&&|!=|==|<=|>=|->|::|\+=|-=|\*=|/=|%=|\|=|&=|\^=|[-+*/%|&^<>!=(){}\[\],;:.#]))")


def tokenize(s):
    out, i = [], 0
    while i < len(s):
        m = TOK.match(s, i)
        if not m:
            if s[i:].strip() == "":
                break
            die("cannot tokenize near: " + s[i:i + 40].strip())
        i = m.end()
        out.append(m.group(1) or m.group(2) or m.group(3) or m.group(4))
    return out


L.tokenize = tokenize        # parse_sig / assoc_consts of rs2v_loops tokenize through the module global

# how `#[cfg(..)]` on a statement is decided: the TARGET IS LITTLE-ENDIAN (trusted-base item of C15; Model/Endian.v transcribes
# the same branches).  Token sequence of the attribute -> is the statement compiled?
CFGS = {
    ("cfg", "(", "target_endian", "=", '"big"', ")"): False,
    ("cfg", "(", "not", "(", "target_endian", "=", '"big"', ")", ")"): True,
    ("cfg", "(", "target_endian", "=", '"little"', ")"): True,
    ("cfg", "(", "not", "(", "target_endian", "=", '"little"', ")", ")"): False,
}
INT_SUFFIXES = {"u8": "U8", "usize": "usize"}
ALL_SUFFIXES = {"u8", "u16", "u32", "u64", "u128", "usize", "i8", "i16", "i32", "i64", "i128", "isize"}


# ---------------------------------------------------------------- parsing

class EP(_LP):
    """L.LP + `#[cfg(target_endian = ..)]` on statements, invocations of a local `macro_rules!` (set_digit!), the types
    &[u8], [u8; digit::$Digit::BYTES as usize], [u8; Self::BYTES_USIZE], u8, i8, array literals `[e; <expr>]`, literals `0u8`."""

    macros = {}                  # name -> (params [(metavariable, fragment kind)], body tokens): set by the driver per file

    def type_(self):
        v = self.peek()
        if v == "&" and self.peek(1) == "[":
            self.eat("&"), self.eat("["), self.eat("u8"), self.eat("]")
            return "slice"
        if v == "[" and self.peek(1) == "u8":
            self.eat("["), self.eat("u8"), self.eat(";")
            toks = []
            while self.peek() != "]":
                toks.append(self.eat())
            self.eat("]")
            if toks == ["digit", "::", "$Digit", "::", "BYTES", "as", "usize"]:
                return "bytesD"
            if toks == ["Self", "::", "BYTES_USIZE"] and self.selfty == "buint":
                return "bytesN"
            if toks == ["$BUint", "::", "<", "N", ">", "::", "BYTES_USIZE"]:
                return "bytesN"
            die("unsupported byte-array length: [u8; %s]" % " ".join(toks))
        if v == "u8":
            self.eat()
            return "U8"
        if v == "i8":
            self.eat()
            return "I8"
        return _LP.type_(self)

    def block(self):
        self.eat("{")
        stmts = []
        while self.peek() != "}":
            if stmts and stmts[-1][0] == "expr":
                die("expression statement without ';' in the middle of a block")
            s = self.stmt()
            if s is not None:
                stmts.append(s)
        self.eat("}")
        return stmts

    def stmt(self):
        v = self.peek()
        if v == "#":
            self.eat("#")
            if self.peek() == "!":
                die("inner attribute #![..] in a function body")
            self.eat("[")
            toks, d = [], 1
            while True:
                x = self.eat()
                d += {"[": 1, "]": -1}.get(x, 0)
                if d == 0:
                    break
                toks.append(x)
            if toks and toks[0] in ("cfg", "cfg_attr"):
                if tuple(toks) not in CFGS:
                    die("unsupported attribute #[%s] on a statement (only cfg(target_endian = \"big\"|\"little\") and its negation)" % " ".join(toks))
                if not CFGS[tuple(toks)]:
                    if self.peek() in ("}", None):
                        die("#[cfg] attribute without a statement")
                    self.stmt()                        # not compiled on a little-endian target: parsed and dropped
                    return None
            if self.peek() in ("}", None):
                die("attribute without a statement")
            return self.stmt()
        if v is not None and v.endswith("!") and v[:-1] in self.macros:
            return self.macro_call()
        return _LP.stmt(self)

    def macro_call(self):
        name = self.eat()[:-1]
        params, body = self.macros[name]
        self.eat("(")
        args, cur, d = [], [], 0
        while True:
            x = self.eat()
            if x in ("(", "[", "{"):
                d += 1
            elif x in (")", "]", "}"):
                if d == 0:
                    if x != ")":
                        die("unbalanced delimiters in the arguments of %s!" % name)
                    break
                d -= 1
            if x == "," and d == 0:
                args.append(cur)
                cur = []
            else:
                cur.append(x)
        if cur or args:
            args.append(cur)
        if len(args) != len(params) or any(not a for a in args):
            die("%s! invoked with %d arguments, its definition has %d" % (name, len(args), len(params)))
        sub = {}
        for (mv, kind), a in zip(params, args):
            if kind == "ident":
                if len(a) != 1 or not L.IDENT.match(a[0]) or a[0] in L.KEYWORDS:
                    die("%s!: argument for %s must be an identifier" % (name, mv))
                sub[mv] = a
            else:                                      # expr: substituted as ONE operand (Rust: an `expr` fragment is atomic)
                sub[mv] = a if len(a) == 1 else ["("] + a + [")"]
        out = []
        for t in body:
            out += sub.get(t, [t])
        if self.peek() == ";":
            self.eat(";")
        p = EP(["{"] + out + ["}"], self.selfty, self.prim)
        stmts = p.block()
        if p.peek() is not None:
            die("%s!: trailing tokens in the expansion" % name)
        if stmts and stmts[-1][0] == "expr":
            die("%s!: the expansion ends in a value expression; only statement macros are supported" % name)
        return ["block", stmts]

    def primary(self):
        v = self.peek()
        if v == "[":                                   # [e; <len>]
            self.eat("[")
            e = self.expr()
            if self.peek() != ";":
                die("array literal: only the form [value; LEN] is supported")
            self.eat(";")
            n = self.expr()
            self.eat("]")
            if isinstance(n, list) and n[0] == "var":
                return ["arrep", e, n[1]]              # [e; N]: an array of digits (L.Gen)
            return ["arrepx", e, n]
        if v is not None and re.match(r"^\d[\d_]*$", v) and self.peek(1) in ALL_SUFFIXES:
            self.eat()
            sfx = self.eat()
            if sfx not in INT_SUFFIXES:
                die("integer literal with the suffix %s is not supported" % sfx)
            return ["as", ["lit", int(v.replace("_", ""))], INT_SUFFIXES[sfx]]
        if v is not None and v.startswith('"'):
            die("string literal in an expression")
        return _LP.primary(self)


L.LP = EP        # parse_sig / assoc_consts of rs2v_loops construct their parser through the module global


# ---------------------------------------------------------------- generation

class EG(_Gen):
    """L.Gen + byte slices / byte arrays (indexing, element assignment, `.len()`), u8 / i8, the primitive conversions
    $Digit::from_{be,le}_bytes / to_{be,le}_bytes (Model/Endian.v: u_from_be_bytes ..), digit::$Digit::BYTES / BYTE_SHIFT
    (Model/ImpEndian.v), `Self::from_bits`, `$BUint::from_digits` and `swap_bytes` by hand-model name, usize `*`."""

    def declare(self, env, name, ty, mut, ctx):
        if name in GALLINA_KEYWORDS:
            self.die("local variable name %s is reserved by the translator / Gallina" % name)
        _Gen.declare(self, env, name, ty, mut, ctx)

    def byte_array(self, e, env):
        """the variable a byte slice / byte array expression denotes, or None"""
        while e[0] == "un" and e[1] == "&":
            e = e[2]
        if e[0] == "var" and e[1] in env and L.rs(env[e[1]].ty) in BYTE_ARRAYS:
            return e[1]
        return None

    def size_of(self, n, env):
        """the length expression of `[e; <n>]`  ->  (array kind, Gallina value of the length)"""
        if n == ["as", ["path", ["digit", "$Digit", "BYTES"]], "usize"]:
            kind = "bytesD"
        elif n == ["path", ["Self", "BYTES_USIZE"]] and self.selfty == "buint":
            kind = "bytesN"
        else:
            self.die("array literal [e; LEN]: LEN must be N, `digit::$Digit::BYTES as usize` or `Self::BYTES_USIZE`")
        p, v, t = self.ex(n, env)
        L.unify(t, "usize", "array length")
        if p:
            self.die("array length with effects")
        return kind, v

    def ex(self, e, env):
        k = e[0]
        if k == "index":
            arr = self.byte_array(e[1], env)
            if arr is not None:
                p, v, t = self.ex(e[2], env)
                L.unify(t, "usize", "array index")
                x = self.tmp()
                return p + ["%s <- arr_get %s %s ;;" % (x, arr, v)], x, "U8"
        if k == "arrepx":
            p, v, t = self.ex(e[1], env)
            L.unify(t, "U8", "element of the byte-array literal")
            kind, n = self.size_of(e[2], env)
            return p, "(repeat %s (Z.to_nat %s))" % (v, n), kind
        if k == "as" and e[2] in ("U8", "I8"):
            p, v, t = self.ex(e[1], env)
            src = L.rs(t)
            if isinstance(src, L.TVar):
                L.unify(src, e[2], "cast")
                return p, v, e[2]
            if src == e[2]:
                return p, v, e[2]
            if (src, e[2]) == ("U8", "I8"):             # same convention as Digit -> SignedDigit (Prim.v: sd)
                return p, "(sd 8 %s)" % v, "I8"
            self.die("unsupported cast %s as %s" % (L.show(src), e[2]))
        return _Gen.ex(self, e, env)

    def path(self, segs, env, node=None):
        s = tuple(segs)
        if s == ("digit", "$Digit", "BYTES"):
            return [], "(digit_BYTES w)", "ExpType"
        if s == ("digit", "$Digit", "BYTE_SHIFT"):
            return [], "(digit_BYTE_SHIFT w)", "ExpType"
        if s == ("u8", "MAX"):
            return [], "255", "U8"
        return _Gen.path(self, segs, env, node)

    def bin(self, e, env):
        _, op, a, b = e
        if op == "*":
            pa, va, ta = self.ex(a, env)
            pb, vb, tb = self.ex(b, env)
            t = self.need(L.unify(ta, tb, "operands of *"), "operands of *")
            if t != "usize":
                self.die("operator * on %s (only usize index arithmetic is in the subset)" % L.show(t))
            return pa + pb, "(%s * %s)" % (va, vb), t     # like `+`: never assumed to overflow
        return _Gen.bin(self, e, env)

    def mcall(self, e, env):
        _, recv, name, args = e
        arr = self.byte_array(recv, env)
        if arr is not None:
            if name == "len" and not args and L.rs(env[arr].ty) == "slice":
                return [], "(Z.of_nat (length %s))" % arr, "usize"
            self.die("unsupported method call .%s on a byte array" % name)
        save = self.ntmp
        p, v, t = self.ex(recv, env)
        t0 = L.rs(t)
        if t0 in ("I8", "SDigit") and name == "is_negative" and not args:
            return p, "(%s <? 0)" % v, "bool"
        if t0 == "Digit" and name in ("to_be_bytes", "to_le_bytes") and not args:
            return p, "(Endian.u_%s (Z.to_nat (digit_BYTES w)) %s)" % (name, v), "bytesD"
        self.ntmp = save                               # the receiver is evaluated again by L.Gen.mcall
        return _Gen.mcall(self, e, env)

    def pcall(self, e, env):
        _, segs, args = e
        s = tuple(segs)
        if s in (("$Digit", "from_be_bytes"), ("$Digit", "from_le_bytes")) and len(args) == 1:
            p, v, t = self.ex(args[0], env)
            L.unify(t, "bytesD", "argument of $Digit::" + s[1])
            return p, "(Endian.u_%s %s)" % (s[1], v), "Digit"
        if s in (("Self", "from_bits"), ("$BInt", "from_bits")) and len(args) == 1 and (self.selfty == "bint" or s[0] == "$BInt"):
            p, v, t = self.ex(args[0], env)            # src/bint/mod.rs: from_bits(bits) -> Self { bits }  (pattern-checked)
            L.unify(t, "buint", "argument of from_bits")
            return p, v, "bint"
        if s == ("$BUint", "from_digits") and len(args) == 1:
            p, v, t = self.ex(args[0], env)            # tied in Proofs/LoopsTieC06b.v: loops_from_digits
            L.unify(t, "digits", "argument of from_digits")
            return p, "(Convert.from_digits %s)" % v, "buint"
        return _Gen.pcall(self, e, env)

    def stmts(self, ss, env, ctx, ind):
        if ss and ss[0][0] == "assign" and ss[0][1][0] == "index":
            _, lhs, op, rhs = ss[0]
            arr = self.byte_array(lhs[1], env)
            if arr is not None:
                pad = "  " * ind
                if L.rs(env[arr].ty) == "slice":
                    self.die("write through a shared slice " + arr)
                if not env[arr].mut:
                    self.die("write to an element of immutable variable " + arr)
                if op != "=":
                    self.die("compound assignment %s on a byte" % op)
                if rhs[0] == "match":
                    self.die("match as the right-hand side of a byte assignment")
                p, v, t = self.ex(rhs, env)            # right operand first, then the place (index, bounds check)
                L.unify(t, "U8", "byte assignment")
                pi, vi, ti = self.ex(lhs[2], env)
                L.unify(ti, "usize", "array index")
                return (self.lines(p + pi + ["%s <- arr_set %s %s %s ;;" % (arr, arr, vi, v)], pad) + "\n"
                        + self.stmts(ss[1:], env, ctx, ind))
        return _Gen.stmts(self, ss, env, ctx, ind)


# ---------------------------------------------------------------- driver

def macro_body(txt, path):
    mm = re.search(r"macro_rules!\s*\w+\s*\{\s*\(\s*\$BUint\s*:\s*ident\s*,\s*\$BInt\s*:\s*ident\s*,\s*\$Digit\s*:\s*ident\s*\)", txt)
    if not mm:
        die("%s: macro_rules! with ($BUint, $BInt, $Digit) not found" % path)
    b0 = txt.index("{", mm.start())
    d, e = 0, b0
    while True:
        if e >= len(txt):
            die("%s: unbalanced braces in the macro body" % path)
        d += {"{": 1, "}": -1}.get(txt[e], 0)
        e += 1
        if d == 0:
            break
    return txt[b0:e]


def local_macros(body, path):
    """the `macro_rules! name { (params) => { body }; }` items nested in the file's macro: name -> (params, body tokens)"""
    out = {}
    for m in re.finditer(r"macro_rules!\s*(\w+)\s*\{", body):
        name = m.group(1)
        d, e = 0, m.end() - 1
        while True:
            if e >= len(body):
                die("%s: unbalanced braces in macro %s" % (path, name))
            d += {"{": 1, "}": -1}.get(body[e], 0)
            e += 1
            if d == 0:
                break
        toks = tokenize(body[m.end():e - 1])
        # ( $a : kind , ... ) => { tokens } [;]
        i = 0
        def eat(x):
            nonlocal i
            if i >= len(toks) or toks[i] != x:
                die("%s: macro %s: expected %r (only one rule `(params) => { body }` is supported)" % (path, name, x))
            i += 1
        eat("(")
        params = []
        while toks[i] != ")":
            mv = toks[i]
            if not mv.startswith("$"):
                die("%s: macro %s: unsupported parameter pattern near %r" % (path, name, mv))
            i += 1
            eat(":")
            kind = toks[i]
            if kind not in ("ident", "expr"):
                die("%s: macro %s: fragment kind %s is not supported (ident, expr)" % (path, name, kind))
            i += 1
            params.append((mv, kind))
            if toks[i] == ",":
                i += 1
            elif toks[i] != ")":
                die("%s: macro %s: cannot parse the parameter list" % (path, name))
        eat(")")
        eat("=")
        eat(">")
        eat("{")
        d, j = 1, i
        while d:
            if j >= len(toks):
                die("%s: macro %s: unbalanced body" % (path, name))
            d += {"{": 1, "}": -1}.get(toks[j], 0)
            j += 1
        btoks = toks[i:j - 1]
        rest = toks[j:]
        if rest not in ([], [";"]):
            die("%s: macro %s has more than one rule" % (path, name))
        if len(set(mv for mv, _ in params)) != len(params):
            die("%s: macro %s: duplicate metavariable" % (path, name))
        for t in btoks:
            if t.startswith("$") and t not in ("$BUint", "$BInt", "$Digit") and t not in [mv for mv, _ in params]:
                die("%s: macro %s: unknown metavariable %s in the body" % (path, name, t))
        if name in out:
            die("%s: macro %s defined twice" % (path, name))
        out[name] = (params, btoks)
    return out


def check_patterns():
    """definitions that the generated code takes by name / by convention: fail (globally) when their shape changes"""
    def src(p):
        f = os.path.join(REPO, p)
        if not os.path.exists(f):
            die("source file %s not found" % f)
        return L.strip_comments(open(f).read())
    dsrc = src("src/digit.rs")
    L.check_digit_consts(dsrc)
    for pat, what in [(r"pub\s+const\s+BYTES\s*:\s*ExpType\s*=\s*BITS\s*/\s*8\s*;", "BYTES = BITS / 8"),
                      (r"pub\s+const\s+BYTE_SHIFT\s*:\s*ExpType\s*=\s*BYTES\s*\.\s*trailing_zeros\s*\(\s*\)\s*as\s+ExpType\s*;",
                       "BYTE_SHIFT = BYTES.trailing_zeros()")]:
        if not re.search(pat, dsrc):
            die("src/digit.rs: the definition `%s` (modelled in coq/Model/ImpEndian.v) has changed" % what)
    csrc = src("src/bint/consts.rs")
    if not re.search(r"pub\s+const\s+ZERO\s*:\s*Self\s*=\s*Self\s*::\s*from_bits\s*\(\s*\$BUint\s*::\s*ZERO\s*\)\s*;", csrc):
        die("src/bint/consts.rs: `ZERO = Self::from_bits($BUint::ZERO)` has changed")
    msrc = src("src/bint/mod.rs")
    if not re.search(r"pub\s+struct\s+\$BInt\s*<\s*const\s+N\s*:\s*usize\s*>\s*\{\s*(pub\s*(\([^)]*\))?\s*)?bits\s*:\s*\$BUint\s*<\s*N\s*>\s*,?\s*\}", msrc):
        die("src/bint/mod.rs: `struct $BInt<const N: usize> { bits: $BUint<N> }` has changed")
    if not re.search(r"fn\s+from_bits\s*\(\s*bits\s*:\s*\$BUint\s*<\s*N\s*>\s*\)\s*->\s*Self\s*\{\s*Self\s*\{\s*bits\s*\}\s*\}", msrc):
        die("src/bint/mod.rs: `from_bits(bits) -> Self { Self { bits } }` has changed")
    usrc = src("src/buint/mod.rs")
    if not re.search(r"pub\s+struct\s+\$BUint\s*<\s*const\s+N\s*:\s*usize\s*>\s*\{\s*(#\[[^\]]*\]\s*)*(pub\s*(\([^)]*\))?\s*)?digits\s*:\s*\[\s*\$Digit\s*;\s*N\s*\]\s*,?\s*\}", usrc):
        die("src/buint/mod.rs: `struct $BUint<const N: usize> { digits: [$Digit; N] }` has changed")
    return L.digit_sigs(dsrc)


def translate_one(path, name, coq, fns, sigs, dsigs, consts, macros):
    _, _, body = fns[coq]
    sig = sigs[coq]
    EP.macros = macros[path]
    p = EP(tokenize(body), sig["selfty"], None)
    ast = p.block()
    if p.peek() is not None:
        die("fn %s: trailing tokens after the body" % name)
    tvs, txt, g = {}, None, None
    for final in (False, True):
        g = EG(coq, sigs, dsigs, consts[path], tvs, final)
        env = {}
        ctx = {"loop": None, "protected": set()}
        if sig["self"]:
            env["self"] = L.Var(sig["selfty"], "self" in sig["mut"])
        for pn, pt in sig["params"]:
            g.declare(env, pn, pt, pn in sig["mut"], ctx)
        txt = g.stmts(ast, env, ctx, 1)
    if g.recursive or g.uses_dbg or sig["generics"] or sig["mutref"]:
        die("fn %s: recursion / debug-dependent callee / generics / &mut self: not supported here" % name)
    argl = " (self : list Z)" if sig["self"] else ""
    argl += "".join(" (%s : %s)" % (n, coq_ty(t)) for n, t in sig["params"])
    rt = coq_ty(sig["ret"])
    if isinstance(L.rs(sig["ret"]), tuple) and rt.startswith("(") and rt.endswith(")"):
        rt = rt[1:-1]                                  # `res (..)` supplies the parentheses
    return "(* %s: fn %s *)\nDefinition %s (w N : Z) (fuel : nat)%s : res (%s) :=\n%s.\n" % (path, name, coq, argl, rt, txt)


HEADER = ["(* GENERATED on every run by tools/rs2v_endian.py from /repo/src/buint/endian.rs and /repo/src/bint/endian.rs.  Do not edit.",
          "   Proofs/EndianGenTie*.v prove each function equal to the hand-written model Model/Endian.v.",
          "   Vocabulary: Model/Imp.v (control flow), Prim.v, Model/LoopPrims.v, Model/ImpEndian.v (digit::BYTES, BYTE_SHIFT);",
          "   the primitive conversions uW::from_{be,le}_bytes / to_{be,le}_bytes are Endian.u_from_be_bytes .. (Model/Endian.v, modelled);",
          "   `#[cfg(target_endian = ..)]` is decided for a LITTLE-endian target; swap_bytes, from_digits are called by their",
          "   hand-model names Bits.swap_bytes, Convert.from_digits (tied in Proofs/LoopsTieC05.v, LoopsTieC06b.v).",
          "   U_ functions: src/buint/endian.rs; I_ functions: src/bint/endian.rs (set_digit! expanded at its call sites). *)",
          "From Bnum Require Import Base Prim.",
          "From Bnum.Model Require Import DigitPrims LoopPrims Core Imp ImpEndian.",
          "From Bnum.Model Require Bits Convert Endian.", "", "Module EndianGen.", ""]


def main():
    group = sys.argv[sys.argv.index("--for") + 1] if "--for" in sys.argv else None
    failed, fns, sigs, consts, macros, files = {}, {}, {}, {}, {}, {}
    glob = None
    dsigs = {}
    try:
        dsigs = check_patterns()
        for path in (USRC, ISRC):
            f = os.path.join(REPO, path)
            if not os.path.exists(f):
                die("source file %s not found" % f)
            files[path] = macro_body(L.strip_comments(open(f).read()), path)
            macros[path] = local_macros(files[path][1:], path)
            consts[path] = L.assoc_consts(files[path], L.selfty_of(path))
            for other in CONST_FILES.get(path, []):
                of = os.path.join(REPO, other)
                if not os.path.exists(of):
                    die("source file %s not found" % of)
                for cn, cv in L.assoc_consts(macro_body(L.strip_comments(open(of).read()), other), L.selfty_of(other)).items():
                    consts[path].setdefault(cn, cv)
    except SystemExit:
        glob = LAST_MSG[0] or "translator error"
    for path, name, coq in WANTED:
        if glob is not None:
            failed[coq] = glob
            continue
        try:
            generics, params, ret, body = L.find_fn(files[path], None, name, path)
            sg = L.parse_sig(name, generics, params, ret, L.selfty_of(path), None)
            sg["coq"] = coq
            fns[coq] = (path, coq, body)
            sigs[coq] = sg
        except (SystemExit, Exception) as ex:
            failed[coq] = LAST_MSG[0] if isinstance(ex, SystemExit) else repr(ex)
    texts = {}
    while True:                  # a function that calls an untranslatable function is untranslatable too: to a fixpoint
        again = False
        for path, name, coq in WANTED:
            if coq in failed:
                continue
            try:
                texts[coq] = translate_one(path, name, coq, fns, sigs, dsigs, consts, macros)
            except (SystemExit, Exception) as ex:
                failed[coq] = LAST_MSG[0] if isinstance(ex, SystemExit) else repr(ex)
                sigs.pop(coq, None)
                again = True
        if not again:
            break
    out = list(HEADER)
    for path, name, coq in WANTED:
        if coq not in failed:
            out.append(texts[coq])
        else:
            out.append("(* %s: fn %s  -- NOT TRANSLATED: %s *)\nDefinition %s : unit := tt.\n"
                       % (path, name, failed[coq].replace("*)", "* )").replace("(*", "( *"), coq))
    out.append("End EndianGen.")
    txt = "\n".join(out) + "\n"
    p = os.path.join(ROOT, "coq", "Generated", "EndianGen.v")
    if not os.path.exists(p) or open(p).read() != txt:
        open(p, "w").write(txt)
    if failed:
        sys.stderr.write("rs2v_endian: not translated (stub emitted, its tie lemma will not check): %s\n" % ", ".join(sorted(failed)))
        if glob is not None:
            return 1
        hit = [f for f in failed if group is None or f in GROUPS.get(group, [])]
        return 1 if hit else 0
    return 0


if __name__ == "__main__":
    sys.exit(main())

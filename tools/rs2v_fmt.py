#!/usr/bin/env python3
"""tools/rs2v_fmt.py — TRANSLATOR: the formatting traits of bnum  ->  coq/Generated/FmtGen.v

Reads $BNUM_REPO (default /repo) src/buint/fmt.rs and src/bint/fmt.rs, expands the file-local macros (`fmt_method!`, `exp_fmt!`,
`fmt_trait!`) at their invocations, takes the `fn fmt(&self, f: &mut Formatter) -> core::fmt::Result` of each of the eight
`impl<const N: usize> Trait for $BUint<N> / $BInt<N>` blocks and translates it into Gallina over the control-flow vocabulary of
coq/Model/Imp.v, coq/Model/ImpPrint.v (`for` loops, String = its bytes) and coq/Model/ImpFmt.v (NEW: of_oo, str_eqb, str_slice,
str_slice_from).  What a generated function RETURNS is the triple `(is_nonnegative, prefix, body)` that the impl hands to std's
`Formatter::pad_integral` - the observable the C12 theorems are about (std's pad_integral and the primitive `{:x}` `{:b}` `{}`
numerals are Model/Fmt.v's trusted, run-validated functions, used by qualified name).  coq/Proofs/FmtGenTie.v proves every
generated function equal to the hand-written model coq/Model/Fmt.v.

Built as a library client of tools/rs2v_loops.py, tools/rs2v_parse.py and tools/rs2v_print.py (none of them is edited), extended
by subclassing; tools/FMT_TRANSLATOR.md describes the subset that is added.  Anything outside the subset makes the translator fail
loudly: the construct is named on stderr, the function (and every generated function that calls it) becomes a stub
`Definition f : unit := tt.` so that exactly its tie lemmas stop checking, and the exit status is 1 (0 with `--for Cxx` for a
property other than C12)."""
import re, sys, os
sys.path.insert(0, os.path.dirname(os.path.abspath(__file__)))
import rs2v_loops as L
import rs2v_parse as P
import rs2v_print as Q

REPO = os.environ.get("BNUM_REPO", "/repo")
ROOT = os.path.dirname(os.path.dirname(os.path.abspath(__file__)))
LAST_MSG = [""]


def die(msg):
    LAST_MSG[0] = msg
    if not L.QUIET[0]:
        sys.stderr.write("rs2v_fmt: " + msg + "\n")
    sys.exit(1)


# the library modules look these up as module globals at call time
L.die = die
P.die = die
Q.die = die
coq_ty, show = Q.coq_ty, Q.show
L.RESERVED = set(L.RESERVED) | {"pad"}

U, I = "src/buint/fmt.rs", "src/bint/fmt.rs"
TRAITS = ["Display", "Debug", "Binary", "Octal", "LowerHex", "UpperHex", "LowerExp", "UpperExp"]
# (source file, trait, Gallina name)   -- callees before callers
WANTED = [
    (U, "Binary", "U_fmt_Binary"),
    (U, "LowerHex", "U_fmt_LowerHex"),
    (U, "UpperHex", "U_fmt_UpperHex"),
    (U, "Octal", "U_fmt_Octal"),
    (U, "Display", "U_fmt_Display"),
    (U, "Debug", "U_fmt_Debug"),
    (U, "LowerExp", "U_fmt_LowerExp"),
    (U, "UpperExp", "U_fmt_UpperExp"),
    (I, "Binary", "I_fmt_Binary"),
    (I, "LowerHex", "I_fmt_LowerHex"),
    (I, "UpperHex", "I_fmt_UpperHex"),
    (I, "Octal", "I_fmt_Octal"),
    (I, "Display", "I_fmt_Display"),
    (I, "Debug", "I_fmt_Debug"),
    (I, "LowerExp", "I_fmt_LowerExp"),
    (I, "UpperExp", "I_fmt_UpperExp"),
]
GROUPS = {"C12": [c for _, _, c in WANTED]}
FMTARGS = ("bool", "string", "string")          # what pad_integral receives: Fmt.fmt_args

# `write!(s, LIT, ..)` on a String: the literal must be EXACTLY one of these (anything else is an error).
# literal -> (radix, upper, padded?)   {:b} {:x} {:X}: Fmt.fmt_prim;  {:01$b} ..: flag '0', width = argument 1: Fmt.fmt_prim_pad
WRITE_LITS = {
    "{:b}": (2, "false", False), "{:x}": (16, "false", False), "{:X}": (16, "true", False),
    "{:01$b}": (2, "false", True), "{:01$x}": (16, "false", True), "{:01$X}": (16, "true", True),
}
# `format!(.., x)` placeholders -> the trait that prints a bnum argument
FORMAT_SPECS = {"{}": "Display", "{:e}": "LowerExp", "{:E}": "UpperExp"}


# ---------------------------------------------------------------- lexing (Q.tokenize + char literals + `?`)

TOK = re.compile(r"""\s*(?:(b'(?:\\.|[^\\'])')|('(?:\\.|[^\\'])')|("(?:\\.|[^"\\])*")|(\d[\d_]*)|(\$?[A-Za-z_][A-Za-z0-9_]*(?:!(?!=))?)|"""
                 r"""(\.\.=|\.\.|<<=|>>=|<<|>>|\|\||&&|!=|==|<=|>=|->|=>|::|\+=|-=|\*=|/=|%=|\|=|&=|\^=|[-+*/%|&^<>!=(){}\[\],;:.#?]))""")


def char_code(c, what):
    if c.startswith("\\"):
        if c[1] not in P.ESC:
            die("unsupported escape in %s literal '%s'" % (what, c))
        return P.ESC[c[1]]
    if ord(c) > 127:
        die("non-ASCII %s literal" % what)
    return ord(c)


def tokenize(s):
    out, i = [], 0
    while i < len(s):
        m = TOK.match(s, i)
        if not m:
            if s[i:].strip() == "":
                break
            die("cannot tokenize near: " + s[i:i + 40].strip())
        i = m.end()
        if m.group(1):
            out.append("byte:%d" % char_code(m.group(1)[2:-1], "byte"))
        elif m.group(2):
            out.append("char:%d" % char_code(m.group(2)[1:-1], "char"))
        elif m.group(3):
            out.append("str:" + m.group(3)[1:-1])
        else:
            out.append(m.group(4) or m.group(5) or m.group(6))
    return out


# ---------------------------------------------------------------- parsing

class FP(Q.QP):
    """Q.QP + `write!(s, "lit", args..)?;`, char literals, string slices `s[lo..hi]` / `s[lo..]`."""

    def stmt(self):
        if self.peek() == "write!":
            self.eat(), self.eat("(")
            name = self.ident()
            self.eat(",")
            lit = self.eat()
            if not lit.startswith("str:"):
                die("write!: the second argument must be a string literal")
            args = []
            while self.peek() == ",":
                self.eat()
                if self.peek() == ")":
                    break
                args.append(self.expr())
            self.eat(")")
            if self.peek() != "?":
                die("write!(..) must be followed by `?;` (its Result is propagated)")
            self.eat("?"), self.eat(";")
            return ["writefmt", name, lit[4:], args]
        return Q.QP.stmt(self)

    def postfix(self):
        e = self.primary()
        while True:
            if self.peek() == ".":
                self.eat(".")
                name = self.eat()
                if re.match(r"^\d+$", name):
                    e = ["field", e, name]
                elif not L.IDENT.match(name):
                    die("bad field / method name %r" % name)
                elif self.peek() == "(":
                    e = ["mcall", e, name, self.args()]
                elif self.peek() == "::":
                    die("generic arguments on method calls (::<..>) are not supported")
                else:
                    e = ["field", e, name]
            elif self.peek() == "[":
                self.eat("[")
                ix = self.expr()
                if self.peek() == "..=":
                    self.eat()
                    hi = self.expr()
                    self.eat("]")
                    e = ["slice_incl", e, ix, hi]
                elif self.peek() == "..":
                    self.eat()
                    if self.peek() == "]":
                        self.eat("]")
                        e = ["slice_from", e, ix]
                    else:
                        hi = self.expr()
                        self.eat("]")
                        e = ["slice_ex", e, ix, hi]
                else:
                    self.eat("]")
                    e = ["index", e, ix]
            elif self.peek() == "?":
                die("the `?` operator is only supported on write!(..)")
            else:
                return e

    def primary(self):
        v = self.peek()
        if v is not None and v.startswith("char:"):
            self.eat()
            return ["chr", int(v[5:])]
        return Q.QP.primary(self)


class FR(Q.QRenamer):
    def stmt(self, s, outer, local, sub):
        if s[0] == "writefmt":
            return ["writefmt", sub.get(s[1], self.safe(s[1])), s[2], [self.expr(x, outer | local, sub) for x in s[3]]]
        return Q.QRenamer.stmt(self, s, outer, local, sub)

    def expr(self, e, vis, sub):
        if isinstance(e, (list, tuple)) and e:
            if e[0] == "chr":
                return e
            if e[0] == "slice_ex":
                return ["slice_ex", self.expr(e[1], vis, sub), self.expr(e[2], vis, sub), self.expr(e[3], vis, sub)]
            if e[0] == "slice_from":
                return ["slice_from", self.expr(e[1], vis, sub), self.expr(e[2], vis, sub)]
        return Q.QRenamer.expr(self, e, vis, sub)


# ---------------------------------------------------------------- generation

def bytes_lit(s, what):
    if "\\" in s:
        die("%s: escapes in string literals are not supported" % what)
    if any(ord(c) > 127 for c in s):
        die("%s: non-ASCII literal text" % what)
    return "[" + "; ".join(str(ord(c)) for c in s) + "]"


class FG(Q.QG):
    """Q.QG + string literals / comparison / slices, `String::new()`, `write!` on a String with the primitive-numeral format
    literals, `format!` with `{}` `{:e}` `{:E}` placeholders, `.iter().rev()` on the digit array, `f.pad_integral(a, b, c)` as the
    VALUE (a, b, c), `Trait::fmt(&x, f)` as a call of the generated impl, to_str_radix by hand-model name."""

    def __init__(self, *a):
        Q.QG.__init__(self, *a)
        self.uses_pad = False

    def fmt_sig(self, ty, trait):
        for sg in self.sigs.values():
            if sg["selfty"] == ty and sg["trait"] == trait:
                return sg
        return None

    def call_fmt(self, ty, trait, pre, v):
        """the triple that `impl trait for ty` hands to pad_integral, for the receiver value v"""
        sg = self.fmt_sig(ty, trait)
        if sg is None:
            self.die("use of `impl %s for %s`, which is not translated" % (trait, show(ty)))
        if sg["coq"] == self.fname:
            self.die("recursion is not supported")
        if sg["pad"]:
            self.uses_pad = True
        x = self.tmp()
        return pre + ["%s <- %s w N fuel %s%s ;;" % (x, sg["coq"], "pad " if sg["pad"] else "", v)], x, sg["ret"]

    def is_formatter(self, e, env):
        return e[0] == "var" and e[1] in env and L.rs(env[e[1]].ty) == "formatter"

    # ------------------------------------------------ expressions
    def ex(self, e, env):
        k = e[0]
        if k == "var" and e[1] in env:
            t = L.rs(env[e[1]].ty)
            if isinstance(t, tuple) and len(t) == 2 and t[0] == "refval":
                return [], e[1], t[1]                    # `x: &T` (a `for` over `.iter()`): references are transparent
            if t == "formatter":
                self.die("the Formatter %s is used other than as `%s.pad_integral(..)` / `Trait::fmt(.., %s)`" % (e[1], e[1], e[1]))
        if k == "str":
            return [], bytes_lit(e[1], "string literal"), "string"
        if k == "chr":
            self.die("a char literal is only supported as the argument of trim_end_matches")
        if k == "format":
            return self.format(e, env)
        if k in ("slice_ex", "slice_from"):
            p, v, t = self.ex(e[1], env)
            if L.rs(t) != "string":
                self.die("range slice of a value of type %s (only strings)" % show(t))
            p1, v1, t1 = self.ex(e[2], env)
            L.unify(t1, "usize", "slice bound")
            pre = p + p1
            x = self.tmp()
            if k == "slice_ex":
                p2, v2, t2 = self.ex(e[3], env)
                L.unify(t2, "usize", "slice bound")
                return pre + p2 + ["%s <- str_slice %s %s %s ;;" % (x, v, v1, v2)], x, "string"
            return pre + ["%s <- str_slice_from %s %s ;;" % (x, v, v1)], x, "string"
        if k == "path":
            s = tuple(e[1])
            if s[:2] == ("crate", "digit"):
                s = s[1:]
            if s == ("digit", "$Digit", "HEX_PADDING"):   # digit.rs: `HEX_PADDING: usize = BITS as usize / 4` (pattern-checked)
                return [], "(w / 4)", "usize"
        return Q.QG.ex(self, e, env)

    def format(self, e, env):
        """format!("lit{}lit..", a, ..): the concatenation; `{}` of a string is the string, of a non-negative integer literal its
        decimal numeral, of a usize Fmt.fmt_usize; `{}` / `{:e}` / `{:E}` of a bnum value is Fmt.to_string pad (its Display /
        LowerExp / UpperExp triple): the text written through a flagless Formatter"""
        _, lit, args = e
        parts = re.split(r"(\{[^{}]*\})", lit)
        text = "".join(x for x in parts[0::2])
        if "{" in text or "}" in text:
            self.die("format!: unsupported brace in the literal %r" % lit)
        specs = parts[1::2]
        if len(specs) != len(args):
            self.die("format!: %d placeholders, %d arguments" % (len(specs), len(args)))
        pre, vs, ai = [], [], 0
        for i, x in enumerate(parts):
            if i % 2 == 0:
                if x:
                    vs.append(bytes_lit(x, "format!"))
                continue
            if x not in FORMAT_SPECS:
                self.die("format!: unsupported placeholder %s" % x)
            a = args[ai]
            ai += 1
            if a[0] == "lit":
                if x != "{}":
                    self.die("format!: placeholder %s on an integer literal" % x)
                vs.append(bytes_lit(str(a[1]), "format!"))
                continue
            p, v, t = self.ex(a, env)
            pre += p
            t0 = L.rs(t)
            if t0 == "string":
                if x != "{}":
                    self.die("format!: placeholder %s on a string" % x)
                vs.append(v)
            elif t0 == "usize":
                if x != "{}":
                    self.die("format!: placeholder %s on a usize" % x)
                vs.append("Fmt.fmt_usize %s" % v)
            elif t0 in ("buint", "bint"):
                pre, xv, _ = self.call_fmt(t0, FORMAT_SPECS[x], pre, v)
                self.uses_pad = True
                vs.append("Fmt.to_string pad %s" % xv)
            elif isinstance(t0, L.TVar) and not self.final:
                vs.append("[]")
            else:
                self.die("format!: argument of type %s" % show(t0))
        return pre, "(" + " ++ ".join(vs) + ")" if vs else "[]", "string"

    def bin(self, e, env):
        _, op, a, b = e
        if op in ("==", "!="):
            save = self.ntmp
            pa, va, ta = self.ex(a, env)
            pb, vb, tb = self.ex(b, env)
            if "string" in (L.rs(ta), L.rs(tb)):
                L.unify(ta, tb, "operands of " + op)
                r = "(str_eqb %s %s)" % (va, vb)
                return pa + pb, r if op == "==" else "(negb %s)" % r, "bool"
            self.ntmp = save
        return Q.QG.bin(self, e, env)

    def iter_of(self, e, env):
        p, v, elt, byref = Q.QG.iter_of(self, e, env)
        if byref:                                        # `for x in it` over references: x is transparent (see ex / var)
            return p, v, ("refval", elt), False
        return p, v, elt, byref

    def mcall(self, e, env):
        _, recv, name, args = e
        if self.is_formatter(recv, env):
            if name != "pad_integral":
                self.die("the Formatter is used outside pad_integral (.%s): flags read by the impl itself are not modelled" % name)
            if len(args) != 3:
                self.die("pad_integral with %d arguments" % len(args))
            pre, vs = [], []
            for a, t0, what in zip(args, FMTARGS, ("is_nonnegative", "prefix", "buf")):
                p, v, t = self.ex(a, env)
                L.unify(t, t0, "argument %s of pad_integral" % what)
                pre += p
                vs.append(v)
            return pre, "(" + ", ".join(vs) + ")", FMTARGS
        save = self.ntmp
        p, v, t = self.ex(recv, env)
        t0 = L.rs(t)
        if t0 == "string":
            if name == "len" and not args:
                return p, "(Z.of_nat (length %s))" % v, "usize"
            if name == "is_empty" and not args:
                return p, "(Z.of_nat (length %s) =? 0)" % v, "bool"
            if name == "trim_end_matches" and len(args) == 1:
                if args[0][0] != "chr":
                    self.die("trim_end_matches: the argument must be a char literal")
                return p, "(Fmt.trim_end_matches %d %s)" % (args[0][1], v), "string"
            self.die("unsupported method call .%s on a string" % name)
        if self.kind_of(t0) == "digits" and not isinstance(t0, L.Arr) and name == "iter" and not args:
            return p, v, ("iter", "Digit", "ref")         # the digits in index order, by reference
        if Q.is_iter(t0) and name == "rev" and not args:
            return p, "(rev %s)" % v, t0
        if t0 == "buint" and name == "to_str_radix" and len(args) == 1:
            # src/buint/radix.rs, by hand-model name: its tie to the source is C11's obligation (Proofs/PrintGenTieD.v: gen_to_str_radix)
            p2, v2, t2 = self.ex(args[0], env)
            L.unify(t2, "ExpType", "argument of to_str_radix")
            x = self.tmp()
            return p + p2 + ["%s <- of_oo (RadixOut.U_to_str_radix w %s %s) ;;" % (x, v, v2)], x, "string"
        self.ntmp = save
        return Q.QG.mcall(self, e, env)

    def pcall(self, e, env, gargs=None):
        _, segs, args = e[:3]
        s = tuple(segs)
        if gargs is None:
            if s == ("String", "new") and not args:
                return [], "[]", "string"
            if len(s) == 2 and s[1] == "fmt" and s[0] in TRAITS and len(args) == 2:
                # `Trait::fmt(&x, f)`: the impl of the trait for the type of x (for `&x` with x a reference: std's forwarding
                # impl `Trait for &T`), with the same Formatter
                if not self.is_formatter(args[1], env):
                    self.die("%s::fmt: the second argument must be the Formatter parameter" % s[0])
                p, v, t = self.ex(args[0], env)
                t0 = L.rs(t)
                if t0 not in ("buint", "bint"):
                    self.die("%s::fmt on a value of type %s" % (s[0], show(t0)))
                return self.call_fmt(t0, s[0], p, v)
        return Q.QG.pcall(self, e, env, gargs)

    # ------------------------------------------------ statements
    def simple_value(self, blk):
        if len(blk) == 1 and blk[0][0] == "expr":
            e = blk[0][1]
            if e[0] == "ifx":
                return e[3] is not None and self.simple_value(e[2]) and self.simple_value(e[3])
            if e[0] == "blockx":
                return self.simple_value(e[1])
            return True
        if len(blk) == 1 and blk[0][0] == "block":
            return self.simple_value(blk[0][1])
        if len(blk) == 1 and blk[0][0] == "if":
            return blk[0][3] is not None and self.simple_value(blk[0][2]) and self.simple_value(blk[0][3])
        return False

    def push_let(self, blk, pat, ty):
        """the block with its value `e` replaced by the statement `let pat = e;` (through nested if / blocks)"""
        if not blk:
            self.die("a branch of `let .. = if ..` has no value")
        last = blk[-1]
        if last[0] == "if" and last[3] is not None:
            return list(blk[:-1]) + [["if", last[1], self.push_let(last[2], pat, ty), self.push_let(last[3], pat, ty)]]
        if last[0] == "block":
            return list(blk[:-1]) + self.push_let(last[1], pat, ty)
        if last[0] != "expr":
            self.die("a branch of `let .. = if ..` has no value")
        e = last[1]
        if e[0] == "ifx":
            if e[3] is None:
                self.die("if expression without else")
            return list(blk[:-1]) + [["if", e[1], self.push_let(e[2], pat, ty), self.push_let(e[3], pat, ty)]]
        if e[0] == "blockx":
            return list(blk[:-1]) + self.push_let(e[1], pat, ty)
        return list(blk[:-1]) + [["let", pat, ty, e]]

    def stmts(self, ss, env, ctx, ind):
        pad = "  " * ind
        if not ss:
            return Q.QG.stmts(self, ss, env, ctx, ind)
        s, rest = ss[0], ss[1:]
        k = s[0]
        if k == "writefmt":
            _, name, lit, args = s
            if name not in env:
                self.die("unbound variable " + name)
            if L.rs(env[name].ty) != "string":
                self.die("write! into %s, a value of type %s (only a String)" % (name, show(env[name].ty)))
            if not env[name].mut:
                self.die("write! into immutable variable " + name)
            if lit not in WRITE_LITS:
                self.die("write!: unsupported format literal \"%s\" (supported: %s)" % (lit, " ".join(sorted(WRITE_LITS))))
            radix, upper, padded = WRITE_LITS[lit]
            if len(args) != (2 if padded else 1):
                self.die("write!(\"%s\") with %d arguments" % (lit, len(args)))
            p, v, t = self.ex(args[0], env)
            L.unify(t, "Digit", "the value printed by write!")
            if padded:
                p2, v2, t2 = self.ex(args[1], env)
                L.unify(t2, "usize", "the width argument of write!")
                p = p + p2
                piece = "Fmt.fmt_prim_pad %d %s %s %s" % (radix, upper, v2, v)
            else:
                piece = "Fmt.fmt_prim %d %s %s" % (radix, upper, v)
            line = "let %s := (%s ++ %s) in" % (name, name, piece)
            return self.lines(p + [line], pad) + "\n" + self.stmts(rest, env, ctx, ind)
        if k == "let" and s[3] is not None and s[3][0] == "ifx" and not self.simple_value([["expr", s[3]]]):
            # `let p = if c { stmts; e1 } else { stmts; e2 }; rest`  ==  `if c { stmts; let p = e1; rest } else { .. }`
            # (the names declared in the branches are fresh: alpha-renaming)
            _, pat, ty, init = s
            if init[3] is None:
                self.die("if expression without else")
            return self.stmts([["if", init[1], self.push_let(init[2], pat, ty), self.push_let(init[3], pat, ty)]] + list(rest),
                              env, ctx, ind)
        return Q.QG.stmts(self, ss, env, ctx, ind)

    def assigned(self, blk):
        out = set()
        for s in blk or []:
            if s[0] == "writefmt":
                out.add(s[1])
            else:
                out |= Q.QG.assigned(self, [s])
        return out


# ---------------------------------------------------------------- extraction: macro expansion, impl blocks, fn fmt

def match_close(txt, i, what):
    """txt[i] is an opening bracket: the index just after its matching closing bracket (string / char literals skipped)"""
    pairs = {"(": ")", "[": "]", "{": "}"}
    stack, n = [], len(txt)
    while i < n:
        c = txt[i]
        if c == '"':
            j = i + 1
            while j < n and txt[j] != '"':
                j += 2 if txt[j] == "\\" else 1
            i = j + 1
            continue
        m = re.match(r"b?'(\\.|[^\\'])'", txt[i:i + 5]) if c in "b'" else None
        if m:
            i += m.end()
            continue
        if c in pairs:
            stack.append(pairs[c])
        elif c in ")]}":
            if not stack or stack.pop() != c:
                die("unbalanced brackets in " + what)
            if not stack:
                return i + 1
        i += 1
    die("unbalanced brackets in " + what)


def split_args(s):
    """top-level comma separated pieces of s (string-literal and bracket aware)"""
    out, d, cur, i, n = [], 0, [], 0, len(s)
    while i < n:
        c = s[i]
        if c == '"':
            j = i + 1
            while j < n and s[j] != '"':
                j += 2 if s[j] == "\\" else 1
            cur.append(s[i:j + 1])
            i = j + 1
            continue
        if c in "([{":
            d += 1
        elif c in ")]}":
            d -= 1
        if c == "," and d == 0:
            out.append("".join(cur).strip())
            cur = []
        else:
            cur.append(c)
        i += 1
    last = "".join(cur).strip()
    if last:
        out.append(last)
    return out


MACRO_KINDS = ("expr", "ident", "tt", "literal", "ty")


def collect_macros(txt, path):
    """every `macro_rules! name { (params) => { body } }` of the file -> name -> dict(params, body, span, why) (why: the reason
    it cannot be expanded, reported when it is invoked)"""
    out = {}
    for m in re.finditer(r"macro_rules!\s*(\w+)\s*\{", txt):
        name, b0 = m.group(1), m.end() - 1
        end = match_close(txt, b0, "%s: macro %s" % (path, name))
        inner = txt[b0 + 1:end - 1]
        ent = {"span": (m.start(), end), "params": None, "body": None, "why": None}
        pm = re.match(r"\s*\(", inner)
        if not pm:
            ent["why"] = "its rule does not start with a parenthesised pattern"
        else:
            pe = match_close(inner, pm.end() - 1, "%s: macro %s" % (path, name))
            ptxt = inner[pm.end():pe - 1]
            bm = re.match(r"\s*=>\s*\{", inner[pe:])
            if not bm:
                ent["why"] = "cannot parse its rule"
            else:
                bs = pe + bm.end() - 1
                be = match_close(inner, bs, "%s: macro %s" % (path, name))
                if inner[be:].strip() not in ("", ";"):
                    ent["why"] = "it has more than one rule"
                params = []
                for piece in split_args(ptxt):
                    mm = re.fullmatch(r"\$(\w+)\s*:\s*(\w+)", piece)
                    if not mm or mm.group(2) not in MACRO_KINDS:
                        ent["why"] = ent["why"] or "unsupported macro parameter `%s`" % piece
                        break
                    params.append((mm.group(1), mm.group(2)))
                ent["params"], ent["body"] = params, inner[bs + 1:be - 1]
        if name in out:
            out[name]["why"] = ent["why"] = "it is defined more than once"
        out.setdefault(name, ent)
    return out


def expand(body, macros, path):
    """the main macro's body with the definitions of nested macros removed and every invocation `name!(args);` of a file-local
    macro replaced by that macro's body (arguments substituted for the `$param`s; an `expr` argument that is not a single
    token is parenthesised, as macro_rules! keeps an expr fragment one expression)"""
    for _ in range(64):
        m = None
        for cand in re.finditer(r"(?<![\w$!:])(\w+)!\s*\(", body):
            if cand.group(1) in macros:
                m = cand
                break
        if m is None:
            return body
        name = m.group(1)
        ent = macros[name]
        if ent["why"]:
            die("%s: macro %s! cannot be expanded: %s" % (path, name, ent["why"]))
        end = match_close(body, m.end() - 1, "%s: invocation of %s!" % (path, name))
        args = split_args(body[m.end():end - 1])
        if len(args) != len(ent["params"]):
            die("%s: %s! invoked with %d arguments, its rule has %d parameters" % (path, name, len(args), len(ent["params"])))
        sub = {}
        for (pn, kind), a in zip(ent["params"], args):
            if kind == "expr" and not re.fullmatch(r'[\w$]+|"(?:\\.|[^"\\])*"', a):
                a = "(" + a + ")"
            sub[pn] = a
        # substitute `$param` outside string literals (a literal like "{:01$x}" is text, not a metavariable)
        text = re.sub(r'"(?:\\.|[^"\\])*"|\$(\w+)', lambda mm: mm.group(0) if mm.group(1) is None else sub.get(mm.group(1), mm.group(0)), ent["body"])
        tail = re.match(r"\s*;", body[end:])
        body = body[:m.start()] + text + body[end + (tail.end() if tail else 0):]
    die("%s: macro expansion does not terminate" % path)


def impls_of(path):
    """trait -> (params text, return type text, body text) of `fn fmt` in `impl<const N: usize> Trait for $BUint<N> / $BInt<N>`"""
    txt = P.read(path)
    mm = re.search(r"macro_rules!\s*\w+\s*\{\s*\(\s*\$BUint\s*:\s*ident\s*,\s*\$BInt\s*:\s*ident\s*,\s*\$Digit\s*:\s*ident\s*\)\s*=>\s*\{", txt)
    if not mm:
        die("%s: macro_rules! with ($BUint, $BInt, $Digit) not found" % path)
    b0 = mm.end() - 1
    b1 = match_close(txt, b0, path)
    macros = collect_macros(txt, path)
    main = [n for n, e in macros.items() if e["span"][0] == mm.start()]
    body = txt[b0 + 1:b1 - 1]
    for n, e in macros.items():                          # nested definitions: blank them out of the body
        s0, s1 = e["span"]
        if b0 < s0 and s1 <= b1:
            body = body[:s0 - b0 - 1] + " " * (s1 - s0) + body[s1 - b0 - 1:]
    for n in main:
        macros.pop(n)
    body = expand(body, macros, path)
    ty = {"buint": r"\$BUint", "bint": r"\$BInt"}[L.selfty_of(path)]
    out = {}
    for m in re.finditer(r"impl\s*<\s*const\s+N\s*:\s*usize\s*>\s*(\w+)\s+for\s+%s\s*<\s*N\s*>\s*\{" % ty, body):
        tr = m.group(1)
        end = match_close(body, m.end() - 1, "%s: impl %s" % (path, tr))
        ib = body[m.end():end - 1]
        if tr in out:
            out[tr] = ("dup",)
            continue
        fm = list(re.finditer(r"\bfn\s+fmt\s*\(", ib))
        if len(fm) != 1:
            out[tr] = ("nofn", len(fm))
            continue
        pe = match_close(ib, fm[0].end() - 1, "%s: impl %s" % (path, tr))
        rm = re.match(r"\s*->\s*([^{;]+)\{", ib[pe:])
        if not rm:
            out[tr] = ("noret",)
            continue
        bs = pe + rm.end() - 1
        be = match_close(ib, bs, "%s: impl %s" % (path, tr))
        out[tr] = ("ok", ib[fm[0].end():pe - 1], rm.group(1).strip(), ib[bs:be])
    return out


def make_sig(path, trait, coq, ent):
    if ent is None:
        die("%s: `impl<const N: usize> %s for ..<N>` not found" % (path, trait))
    if ent[0] == "dup":
        die("%s: more than one impl of %s" % (path, trait))
    if ent[0] == "nofn":
        die("%s: impl %s: %d definitions of fn fmt" % (path, trait, ent[1]))
    if ent[0] == "noret":
        die("%s: impl %s: fn fmt has no return type" % (path, trait))
    _, params, ret, body = ent
    pm = re.fullmatch(r"\s*&\s*self\s*,\s*(\w+)\s*:\s*&\s*mut\s+(?:core\s*::\s*fmt\s*::\s*|fmt\s*::\s*)?Formatter\s*(?:<\s*'_\s*>)?\s*,?\s*", params)
    if not pm:
        die("%s: impl %s: the parameters of fn fmt are not `&self, f: &mut Formatter`: %s" % (path, trait, params.strip()))
    if not re.fullmatch(r"(?:core\s*::\s*)?(?:fmt\s*::\s*)?Result", ret):
        die("%s: impl %s: the return type of fn fmt is not core::fmt::Result: %s" % (path, trait, ret))
    fvar = pm.group(1)
    if fvar in L.RESERVED or fvar in P.GALLINA_KEYWORDS or fvar == "self":
        die("%s: impl %s: formatter parameter name %s is reserved" % (path, trait, fvar))
    sig = {"self": True, "params": [], "generics": [], "mut": set(), "selfty": L.selfty_of(path), "rust": "fmt", "callable": False,
           "mutref": False, "dbg": False, "prim": None, "ret": FMTARGS, "coq": coq, "trait": trait, "pad": False, "fvar": fvar}
    return sig, body


def translate_one(coq, fns, sigs):
    path, trait, body = fns[coq]
    sig = sigs[coq]
    what = "%s for %s" % (trait, {"buint": "$BUint", "bint": "$BInt"}[sig["selfty"]])
    toks = tokenize(body)
    pp = FP(toks, sig["selfty"])
    ast = pp.block()
    if pp.peek() is not None:
        die("impl %s: trailing tokens after the body of fn fmt" % what)
    rn = FR(what, P.idents_of(toks))
    outer = {"self", sig["fvar"]}
    ast = rn.block(ast, set(), {}, outer)
    tvs, txt, g = {}, None, None
    for final in (False, True):
        g = FG(coq, sigs, {}, {}, tvs, final)
        env = {"self": L.Var(sig["selfty"], False)}
        ctx = {"loop": None, "protected": set()}
        g.declare(env, sig["fvar"], "formatter", False, ctx)
        txt = g.stmts(ast, env, ctx, 1)
        if g.uses_dbg:
            g.die("dependence on the build mode (dbg)")
        sig["pad"] = g.uses_pad
    return "(* %s: impl<const N: usize> %s<N>, fn fmt *)\nDefinition %s (w N : Z) (fuel : nat) %s(self : list Z) : res %s :=\n%s.\n" % (
        path, what, coq, "(pad : Fmt.padder) " if sig["pad"] else "", coq_ty(FMTARGS), txt)


_gen_die = FG.die


def _die_impl(self, msg):
    sg = self.sigs.get(self.fname)
    die("in impl %s for %s: %s" % (sg["trait"], sg["selfty"], msg) if sg else "in %s: %s" % (self.fname, msg))


FG.die = _die_impl


def global_checks():
    """the definitions the translation scheme relies on (a change is a global failure)"""
    dsrc = P.read("src/digit.rs")
    L.check_digit_consts(dsrc)
    if not re.search(r"pub\s+const\s+HEX_PADDING\s*:\s*usize\s*=\s*BITS\s+as\s+usize\s*/\s*4\s*;", dsrc):
        die("src/digit.rs: `HEX_PADDING: usize = BITS as usize / 4` has changed")
    msrc = P.read("src/bint/mod.rs")
    if not re.search(r"pub\s+struct\s+\$BInt\s*<\s*const\s+N\s*:\s*usize\s*>\s*\{\s*(pub\s*(\([^)]*\))?\s*)?bits\s*:\s*\$BUint\s*<\s*N\s*>\s*,?\s*\}", msrc):
        die("src/bint/mod.rs: `struct $BInt<const N: usize> { bits: $BUint<N> }` has changed")
    usrc = P.read("src/buint/mod.rs")
    if not re.search(r"pub\s+struct\s+\$BUint\s*<\s*const\s+N\s*:\s*usize\s*>\s*\{\s*(#\[[^\]]*\]\s*)*(pub\s*(\([^)]*\))?\s*)?digits\s*:\s*\[\s*\$Digit\s*;\s*N\s*\]\s*,?\s*\}", usrc):
        die("src/buint/mod.rs: `struct $BUint<const N: usize> { digits: [$Digit; N] }` has changed")


HEADER = ["(* GENERATED on every run by tools/rs2v_fmt.py from /repo/src/buint/fmt.rs and /repo/src/bint/fmt.rs (the formatting traits; the",
          "   file-local macros fmt_method! / exp_fmt! / fmt_trait! are expanded at their invocations).  Do not edit.",
          "   Every function returns the triple (is_nonnegative, prefix, body) that the impl hands to std's Formatter::pad_integral.",
          "   Proofs/FmtGenTie.v proves the functions equal to the hand-written model Model/Fmt.v.",
          "   Vocabulary: Model/Imp.v + Model/ImpPrint.v (for loops) + Model/ImpFmt.v (of_oo, str_eqb, str_slice, str_slice_from); std's",
          "   primitive numerals / trim_end_matches / to_string by their Model/Fmt.v names (fmt_prim, fmt_prim_pad, fmt_usize,",
          "   trim_end_matches, to_string; `pad` = std's pad_integral, a parameter); called by their hand-model names (tied elsewhere):",
          "   RadixOut.U_to_str_radix, Core.is_negative, AddSub.I_unsigned_abs. *)",
          "From Bnum Require Import Base Prim.",
          "From Bnum.Model Require Import DigitPrims LoopPrims Core Imp ImpParse ImpDiv ImpPrint ImpFmt.",
          "From Bnum.Model Require AddSub RadixOut Fmt.", "", "Module FmtGen.", ""]
OUTFILE = os.path.join(ROOT, "coq", "Generated", "FmtGen.v")


def write(txt):
    if not os.path.exists(OUTFILE) or open(OUTFILE).read() != txt:
        open(OUTFILE, "w").write(txt)


def stub(path, trait, coq, why):
    return "(* %s: impl %s, fn fmt  -- NOT TRANSLATED: %s *)\nDefinition %s : unit := tt.\n" % (
        path, trait, why.replace("*)", "* )").replace("(*", "( *"), coq)


def main():
    group = sys.argv[sys.argv.index("--for") + 1] if "--for" in sys.argv else None
    failed, fns, sigs, texts = {}, {}, {}, {}
    P.REPO = REPO
    global_checks()
    impls = {}
    for path, trait, coq in WANTED:
        try:
            if path not in impls:
                impls[path] = None
                impls[path] = impls_of(path)
            if impls[path] is None:
                die("%s: the file could not be read (see the first message)" % path)
            sg, body = make_sig(path, trait, coq, impls[path].get(trait))
            fns[coq] = (path, trait, body)
            sigs[coq] = sg
        except (SystemExit, Exception) as ex:
            failed[coq] = LAST_MSG[0] if isinstance(ex, SystemExit) else repr(ex)
    # a function that calls an untranslatable function is untranslatable too: iterate to a fixpoint
    while True:
        again = False
        for path, trait, coq in WANTED:
            if coq in failed:
                continue
            try:
                texts[coq] = translate_one(coq, fns, sigs)
            except (SystemExit, Exception) as ex:
                failed[coq] = LAST_MSG[0] if isinstance(ex, SystemExit) else repr(ex)
                sigs.pop(coq, None)
                again = True
        if not again:
            break
    out = list(HEADER)
    for path, trait, coq in WANTED:
        out.append(texts[coq] if coq not in failed else stub(path, trait, coq, failed[coq]))
    out.append("End FmtGen.")
    write("\n".join(out) + "\n")
    if failed:
        hit = [f for f in failed if group is None or f in GROUPS.get(group, [])]
        sys.stderr.write("rs2v_fmt: not translated (stub emitted, its tie lemma will not check): %s\n" % ", ".join(sorted(failed)))
        return 1 if hit else 0
    return 0


if __name__ == "__main__":
    try:
        rc = main()
    except SystemExit as ex:                              # a global failure: every function is a stub
        if LAST_MSG[0] == "":
            raise
        write("\n".join(HEADER + [stub(p, t, c, "(global failure) " + LAST_MSG[0]) for p, t, c in WANTED] + ["End FmtGen."]) + "\n")
        group = sys.argv[sys.argv.index("--for") + 1] if "--for" in sys.argv else None
        rc = 1 if group is None or group in GROUPS else 0
    sys.exit(rc)

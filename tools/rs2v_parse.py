#!/usr/bin/env python3
"""tools/rs2v_parse.py — TRANSLATOR: the string / digit-slice PARSING code of bnum  ->  coq/Generated/ParseGen.v

Reads $BNUM_REPO (default /repo) src/buint/radix.rs (ilog2, radix_base, radix_base_half, byte_to_digit, from_buf_radix_internal,
from_str_radix, parse_bytes, parse_str_radix, from_radix_be, from_radix_le, FromStr), src/bint/radix.rs (the signed wrappers) and
src/bint/convert.rs (FromStr) and translates each function into Gallina over the control-flow vocabulary of coq/Model/Imp.v
(+ coq/Model/ImpParse.v: Result / IntErrorKind, u8 arithmetic, checked division, digit `*` / `+` with the build mode's overflow
behaviour, Digit::checked_mul) and the primitive vocabulary of coq/Prim.v, coq/Model/DigitPrims.v, coq/Generated/DigitGen.v.
coq/Proofs/ParseGenTie*.v prove the generated functions equal to the hand-written model coq/Model/Parse.v (the functions the C10
theorems are about) for all inputs the call sites can pass.

The lexer pieces, the expression / statement parser (L.LP), the type machinery and the statement generator (L.Gen) are imported
from tools/rs2v_loops.py and extended by subclassing; tools/PARSE_TRANSLATOR.md describes the subset that is added.  Anything
outside the subset makes the translator fail loudly: the construct is named on stderr, the function (and every generated function
that calls it) becomes a stub `Definition f : unit := tt.` so that exactly its tie lemmas stop checking, and the exit status is 1
(0 with `--for Cxx` when no function of that property's group is affected)."""
import re, sys, os
sys.path.insert(0, os.path.dirname(os.path.abspath(__file__)))
import rs2v_loops as L

REPO = os.environ.get("BNUM_REPO", "/repo")
ROOT = os.path.dirname(os.path.dirname(os.path.abspath(__file__)))
LAST_MSG = [""]


def die(msg):
    LAST_MSG[0] = msg
    if not L.QUIET[0]:
        sys.stderr.write("rs2v_parse: " + msg + "\n")
    sys.exit(1)


U, I, IC = "src/buint/radix.rs", "src/bint/radix.rs", "src/bint/convert.rs"
# (source file, where: "file" = anywhere in the file (a free fn) / "macro" = inside the ($BUint, $BInt, $Digit) macro,
#  anchor regex the search starts after (or None), Rust fn name, Gallina name)   -- callees before callers
WANTED = [
    (U, "file", None, "ilog2", "ilog2"),
    (U, "macro", None, "radix_base", "radix_base"),
    (U, "macro", None, "radix_base_half", "radix_base_half"),
    (U, "macro", None, "byte_to_digit", "byte_to_digit"),
    (U, "macro", None, "from_buf_radix_internal", "from_buf_radix_internal"),
    (U, "macro", None, "from_str_radix", "from_str_radix"),
    (U, "macro", None, "parse_bytes", "parse_bytes"),
    (U, "macro", None, "parse_str_radix", "parse_str_radix"),
    (U, "macro", None, "from_radix_be", "from_radix_be"),
    (U, "macro", None, "from_radix_le", "from_radix_le"),
    (U, "macro", r"impl\s*<\s*const\s+N\s*:\s*usize\s*>\s*FromStr\s+for\s+\$BUint\s*<\s*N\s*>", "from_str", "from_str"),
    (I, "macro", None, "from_str_radix", "I_from_str_radix"),
    (I, "macro", None, "parse_bytes", "I_parse_bytes"),
    (I, "macro", None, "parse_str_radix", "I_parse_str_radix"),
    (I, "macro", None, "from_radix_be", "I_from_radix_be"),
    (I, "macro", None, "from_radix_le", "I_from_radix_le"),
    (IC, "macro", r"impl\s*<\s*const\s+N\s*:\s*usize\s*>\s*FromStr\s+for\s+\$BInt\s*<\s*N\s*>", "from_str", "I_from_str"),
]
# which property's tie file is about which generated function (see rs2v_loops.py GROUPS); radix_base_half belongs to the
# radix OUTPUT code (to_radix_digits_le; hand model Model/RadixOut.v): tied in Proofs/ParseGenTieHalf.v
GROUPS = {
    "C10": [c for _, _, _, _, c in WANTED if c != "radix_base_half"],
    "C11": ["radix_base_half"],
}

# Functions that are NOT re-translated here: the call becomes a call of the hand-written model function by qualified name, as
# tools/rs2v_glue.py / rs2v_div.py do for functions tied elsewhere (or modelled: from_utf8, from_be/le_slice).
# (receiver / owner type, Rust name) -> (Gallina format, argument types (receiver first for methods), result type, flags)
EXT_METHODS = {
    ("buint", "bit"): ("Bits.bit w {0} {1}", ["ExpType"], "bool", ("outcome",)),            # Proofs/LoopsTieC06b.v: loops_bit
    ("buint", "trailing_zeros"): ("(Bits.trailing_zeros w {0})", [], "ExpType", ()),          # Proofs/LoopsTieC06.v
    ("bint", "wrapping_neg"): ("(AddSub.I_wrapping_neg w {0})", [], "bint", ()),              # glue over I_overflowing_neg (LoopsTieC01s.v)
    ("bint", "is_negative"): ("(Core.is_negative w {0})", [], "bool", ()),                    # Proofs/GlueTieC06.v
}
EXT_STATICS = {
    # Self::from_digit(d): Model/Core.v from_digit; equal to the code for 0 < N (Proofs/LoopsTieC06b.v: loops_from_digit; for
    # N = 0 the code panics) - the only call site is reached after `out.digits[0] = first` succeeded, i.e. with 0 < N
    ("buint", "from_digit"): ("(Core.from_digit (Z.to_nat N) {0})", ["Digit"], "buint", ()),
    # src/buint/endian.rs (property C15): the local model of Model/Parse.v, exercised by the C10 / C15 differential checks
    ("buint", "from_be_slice"): ("(Parse.from_be_slice w (Z.to_nat N) {0})", ["bytes"], ("option", "buint"), ()),
    ("buint", "from_le_slice"): ("(Parse.from_le_slice w (Z.to_nat N) {0})", ["bytes"], ("option", "buint"), ()),
    # src/bint/mod.rs: from_bits(bits) = Self { bits } (pattern-checked below): the same digit list
    ("bint", "from_bits"): ("{0}", ["buint"], "bint", ()),
}
KINDS = {"Empty": "KEmpty", "InvalidDigit": "KInvalidDigit", "PosOverflow": "KPosOverflow", "NegOverflow": "KNegOverflow"}
GALLINA_KEYWORDS = {"as", "at", "cofix", "else", "end", "exists", "exists2", "fix", "for", "forall", "fun", "if", "IF", "in",
                    "let", "match", "mod", "return", "then", "using", "where", "with", "Prop", "Set", "Type", "Done", "Panicked",
                    "NoFuel", "Continue", "Break", "Return", "Exited", "Returned", "Some", "None", "true", "false", "fst", "snd",
                    "bind", "repeat", "nil", "cons", "tt", "O", "S", "Z", "nat", "bool", "list", "res", "length", "ROk", "RErr",
                    "result", "andb", "orb", "negb", "xorb"}


# ---------------------------------------------------------------- types
# new: "u8", "bytes" (&[u8]), "str" (&str), ("result", T) (Result<T, ParseIntError>), "perr" (ParseIntError), "kind" (IntErrorKind)

def is_result(t):
    return isinstance(t, tuple) and len(t) == 2 and t[0] == "result"


def coq_ty(t):
    t = L.rs(t)
    if L.is_opt(t) or is_result(t):
        inner = coq_ty(t[1])
        return "(%s %s)" % (t[0], inner if inner.startswith("(") or " " not in inner else "(" + inner + ")")
    if isinstance(t, tuple):
        return "(" + " * ".join(coq_ty(x) for x in t) + ")"
    if isinstance(t, L.TVar) or t in L.INTS:
        return "Z"
    if isinstance(t, L.Arr):
        return "list Z"
    return {"bool": "bool", "buint": "list Z", "bint": "list Z", "digits": "list Z", "ordering": "comparison", "bytes": "list Z",
            "str": "list Z", "perr": "int_error_kind", "kind": "int_error_kind"}[t]


_show0 = L.show


def show(t):
    t0 = L.rs(t)
    if is_result(t0):
        return "Result<%s, ParseIntError>" % show(t0[1])
    return _show0(t)


# rs2v_loops looks these up as module globals at call time
L.die = die
L.coq_ty = coq_ty
L.show = show
L.INTS = L.INTS + ("u8",)


# ---------------------------------------------------------------- lexing

TOK = re.compile(r"""\s*(?:(b'(?:\\.|[^\\'])')|("(?:\\.|[^"\\])*")|(\d[\d_]*)|(\$?[A-Za-z_][A-Za-z0-9_]*(?:!(?!=))?)|"""
                 r"""(\.\.=|<<=|>>=|<<|>>|\|\||&&|!=|==|<=|>=|->|=>|::|\+=|-=|\*=|/=|%=|\|=|&=|\^=|[-+*/%|&^<>!=(){}\[\],;:.#]))""")
ESC = {"n": 10, "r": 13, "t": 9, "\\": 92, "0": 0, "'": 39, '"': 34}


def tokenize(s):
    out, i = [], 0
    while i < len(s):
        m = TOK.match(s, i)
        if not m:
            if s[i:].strip() == "":
                break
            die("cannot tokenize near: " + s[i:i + 40].strip())
        i = m.end()
        if m.group(1):
            c = m.group(1)[2:-1]
            if c.startswith("\\"):
                if c[1] not in ESC:
                    die("unsupported escape in byte literal b'%s'" % c)
                out.append("byte:%d" % ESC[c[1]])
            else:
                if ord(c) > 127:
                    die("non-ASCII byte literal")
                out.append("byte:%d" % ord(c))
        elif m.group(2):
            out.append("str:" + m.group(2)[1:-1])
        else:
            out.append(m.group(3) or m.group(4) or m.group(5))
    return out


# ---------------------------------------------------------------- parsing

def is_ident(v):
    return v is not None and L.IDENT.match(v) and v not in L.KEYWORDS


class PP(L.LP):
    """L.LP + `&[u8]` / `&str` / `u8` / `Result<T, ParseIntError>`, byte literals, `loop`, `return e` as the last expression of a
    block, `assert_range!`, `ok!` / `option_try!` / `panic!`, `ParseIntError { kind: K }`, calls with generic arguments
    `f::<A, B>(..)`, `if let PATH = e`, `match` on integers (literal / or / inclusive-range patterns), on Option with guards
    and on Result."""

    def type_(self):
        v = self.peek()
        if v == "&":
            self.eat()
            if self.peek() == "mut":
                die("&mut types are not supported")
            if self.peek() == "[":
                self.eat("["), self.eat("u8"), self.eat("]")
                return "bytes"
            if self.peek() == "str":
                self.eat()
                return "str"
            return self.type_()
        if v == "u8":
            self.eat()
            return "u8"
        if v == "Result":
            self.eat()
            self.eat("<")
            t = self.type_()
            self.eat(",")
            if self.peek() == "ParseIntError":
                self.eat()
            else:                                       # `Self::Err` of `impl FromStr { type Err = ParseIntError; .. }` (pattern-checked)
                self.eat("Self"), self.eat("::"), self.eat("Err")
            self.eat(">")
            return ("result", t)
        return L.LP.type_(self)

    # ---- statements
    def stmt(self):
        v = self.peek()
        if v == "loop":
            self.eat()
            return ["loop", self.block()]
        if v == "return":
            self.eat()
            e = None if self.peek() in (";", "}") else self.expr()
            if self.peek() == ";":
                self.eat()
            elif self.peek() != "}":
                die("expected ';' or '}' after return, got %r" % self.peek())
            return ["return", e]
        if v == "assert_range!":
            self.eat()
            self.eat("(")
            e = self.expr()
            self.eat(",")
            m = self.expr()
            self.eat(")")
            self.eat(";")
            return ["assert_range", e, m]
        if v == "match":
            e = self.match_()
            if self.peek() == ";":
                die("match statement whose value is discarded: not supported")
            return ["expr", e]
        if v == "while" and self.peek(1) == "let":
            die("unsupported statement: while let")
        s = L.LP.stmt(self)
        if s[0] == "let" and s[3] is not None and s[3][0] == "macro" and s[3][1] == "option_try":
            # src/nightly.rs (pattern-checked): option_try!(e) = match e { Some(v) => v, None => return None }
            s[3] = ["match", s[3][2][0], [(["psome", "v'o"], None, ["var", "v'o"]), (["pnone"], None, ["ret", ["var", "None"]])]]
        return s

    def if_(self):
        self.eat("if")
        if self.peek() == "let":
            self.eat("let")
            segs = [self.ident()]
            while self.peek() == "::":
                self.eat()
                segs.append(self.ident())
            if len(segs) < 2 or self.peek() == "(":
                die("if let: only a path pattern (IntErrorKind::X) is supported")
            self.eat("=")
            e = self.expr()
            a = self.block()
            b = None
            if self.peek() == "else":
                self.eat("else")
                b = [self.if_()] if self.peek() == "if" else self.block()
            return ["iflet_path", segs, e, a, b]
        c = self.expr()
        a = self.block()
        b = None
        if self.peek() == "else":
            self.eat("else")
            b = [self.if_()] if self.peek() == "if" else self.block()
        return ["if", c, a, b]

    def lit_pat(self):
        v = self.eat()
        if v.startswith("byte:"):
            return ["blit", int(v[5:])]
        if re.match(r"^\d[\d_]*$", v):
            return ["lit", int(v.replace("_", ""))]
        die("unsupported match pattern starting with %r" % v)

    def mpattern(self):
        v = self.peek()
        if v == "_":
            self.eat()
            return ["pwild"]
        if v in ("Some", "Ok", "Err"):
            self.eat()
            self.eat("(")
            x = None
            if self.peek() == "_":
                self.eat()
            else:
                x = self.ident()
            self.eat(")")
            if v == "Some" and x is None:
                die("pattern Some(_) is not supported")
            return [{"Some": "psome", "Ok": "pok", "Err": "perr"}[v], x]
        if v == "None":
            self.eat()
            return ["pnone"]
        if v is not None and (v.startswith("byte:") or re.match(r"^\d", v)):
            lo = self.lit_pat()
            if self.peek() == "..=":
                self.eat()
                return ["prange", lo, self.lit_pat()]
            alts = [lo]
            while self.peek() == "|":
                self.eat()
                alts.append(self.lit_pat())
            return ["plit", alts]
        if is_ident(v):
            segs = [self.eat()]
            while self.peek() == "::":
                self.eat("::")
                segs.append(self.ident())
            if len(segs) < 2:
                die("match pattern that binds a variable (%s): not supported" % segs[0])
            return ["ppath", segs]
        die("unsupported match pattern starting with %r" % v)

    def match_(self):
        self.eat("match")
        scrut = self.expr()
        self.eat("{")
        arms = []
        while self.peek() != "}":
            pat = self.mpattern()
            guard = None
            if self.peek() == "if":
                self.eat()
                guard = self.expr()
            self.eat("=>")
            if self.peek() == "return":
                self.eat("return")
                body = ["ret", self.expr()]
            else:
                body = self.expr()
                if body[0] == "blockx" and len(body[1]) == 1 and body[1][0][0] == "return" and body[1][0][1] is not None:
                    body = ["ret", body[1][0][1]]       # `=> { return e }`
            arms.append((pat, guard, body))
            if self.peek() == ",":
                self.eat(",")
            elif self.peek() != "}" and not (isinstance(body, list) and body[0] == "blockx"):
                die("expected ',' or '}' after a match arm, got %r" % self.peek())
        self.eat("}")
        return ["match", scrut, arms]

    # ---- expressions
    def primary(self):
        v = self.peek()
        if v is not None and v.startswith("byte:"):
            self.eat()
            return ["blit", int(v[5:])]
        if v is not None and v.startswith("str:"):
            self.eat()
            return ["str", v[4:]]
        if v == "if":
            s = self.if_()
            if s[0] != "if":
                die("`if let` used as a value is not supported")
            return ["ifx", s[1], s[2], s[3]]
        if v == "match":
            return self.match_()
        if v is not None and re.match(r"^\$?[A-Za-z_]\w*!?$", v) and v not in L.KEYWORDS:
            segs, generics = [self.eat()], None
            while self.peek() == "::" and not segs[-1].endswith("!"):
                self.eat("::")
                if self.peek() == "<":
                    self.eat("<")
                    generics = []
                    while self.peek() != ">":
                        g = self.eat()
                        if g in ("true", "false"):
                            generics.append(["bool", g == "true"])
                        elif is_ident(g):
                            generics.append(["var", g])
                        else:
                            die("unsupported generic argument %r" % g)
                        if self.peek() == ",":
                            self.eat(",")
                        elif self.peek() != ">":
                            die("cannot parse the generic argument list")
                    self.eat(">")
                    if self.peek() != "(":
                        die("generic arguments (::<..>) are only supported on calls")
                    break
                x = self.eat()
                if x is None or not re.match(r"^\$?[A-Za-z_]\w*!?$", x) or x in L.KEYWORDS:
                    die("bad path segment %r" % x)
                segs.append(x)
            if segs[-1].endswith("!"):
                name = segs[-1][:-1]
                if name not in ("ok", "option_try", "panic"):
                    die("macro invocation %s is not supported" % segs[-1])
                if name != "panic" and segs[:-1] != ["crate", "nightly"]:
                    die("macro %s! is only known as crate::nightly::%s!" % (name, name))
                close = {"(": ")", "{": "}"}.get(self.peek())
                if close is None:
                    die("cannot parse the invocation of %s!" % name)
                self.eat()
                args = []
                while self.peek() != close:
                    args.append(self.expr())
                    if self.peek() == ",":
                        self.eat(",")
                    elif self.peek() != close:
                        die("cannot parse the arguments of %s!" % name)
                self.eat(close)
                if name != "panic" and len(args) != 1:
                    die("%s! takes one argument" % name)
                return ["macro", name, args]
            if segs == ["ParseIntError"] and self.peek() == "{":
                self.eat("{"), self.eat("kind"), self.eat(":")
                e = self.expr()
                if self.peek() == ",":
                    self.eat(",")
                self.eat("}")
                return ["perrlit", e]
            if self.peek() == "(":
                if generics is not None:
                    return ["pcallg", segs, generics, self.args()]
                return ["pcall", segs, self.args()]
            if segs == ["Self"] and self.peek() == "{" and self.peek(1) in ("digits", "bits") and self.peek(2) == "}":
                self.eat("{")
                f = self.eat()
                self.eat("}")
                return ["struct", f, ["var", f]]
            if len(segs) == 1:
                return ["var", segs[0]]
            return ["path", segs]
        return L.LP.primary(self)


# ---------------------------------------------------------------- alpha-renaming
# Rust scoping: a `let` (or a pattern variable) in a nested block may shadow a variable of an enclosing block.  The statement
# generator duplicates the code that follows an `if` / `match` into the branches, so such a shadowing variable gets a fresh name
# x'1, x'2, .. (a `'` cannot occur in a Rust identifier).  Identifiers that are Gallina keywords (`end`) get a trailing `_`.

class Renamer:
    def __init__(self, fname, all_idents):
        self.fname, self.count, self.all = fname, {}, all_idents

    def safe(self, n):
        if n in GALLINA_KEYWORDS and n not in ("None", "Some"):
            if n + "_" in self.all:
                die("fn %s: both %s and %s_ are identifiers" % (self.fname, n, n))
            return n + "_"
        return n

    def fresh(self, n):
        self.count[n] = self.count.get(n, 0) + 1
        return "%s'%d" % (self.safe(n), self.count[n])

    def bind(self, n, outer, local, sub):
        """a binder for Rust name n: returns its Gallina name and records it"""
        if n in outer and n not in local:
            new = self.fresh(n)
        else:
            new = sub.get(n, self.safe(n)) if n in local else self.safe(n)
        sub[n] = new
        local.add(n)
        return new

    def block(self, blk, outer, sub, local0=()):
        """blk: statement list; outer: Rust names visible from enclosing blocks; sub: Rust name -> Gallina name;
        local0: names that belong to this block's own scope from the start (the parameters, for a function body)"""
        if blk is None:
            return None
        sub, local, out = dict(sub), set(local0), []
        for s in blk:
            out.append(self.stmt(s, outer, local, sub))
        return out

    def inner(self, blk, outer, local, sub):
        return self.block(blk, outer | local, sub)

    def stmt(self, s, outer, local, sub):
        k = s[0]
        vis = outer | local
        if k == "let":
            _, pat, ty, init = s
            init2 = self.expr(init, vis, sub) if init is not None else None
            if pat[0] == "pid":
                pat2 = ["pid", (self.bind(pat[1][0], outer, local, sub), pat[1][1])]
            else:
                pat2 = ["ptuple", [(self.bind(n, outer, local, sub), m) for n, m in pat[1]]]
            return ["let", pat2, ty, init2]
        if k == "assign":
            return ["assign", self.expr(s[1], vis, sub), s[2], self.expr(s[3], vis, sub)]
        if k in ("while",):
            return ["while", self.expr(s[1], vis, sub), self.block(s[2], vis, sub)]
        if k == "loop":
            return ["loop", self.block(s[1], vis, sub)]
        if k == "if":
            return ["if", self.expr(s[1], vis, sub), self.block(s[2], vis, sub), self.block(s[3], vis, sub)]
        if k == "iflet_path":
            return ["iflet_path", s[1], self.expr(s[2], vis, sub), self.block(s[3], vis, sub), self.block(s[4], vis, sub)]
        if k == "block":
            return ["block", self.block(s[1], vis, sub)]
        if k == "expr":
            return ["expr", self.expr(s[1], vis, sub)]
        if k == "return":
            return ["return", self.expr(s[1], vis, sub) if s[1] is not None else None]
        if k == "break":
            return ["break"]
        if k == "assert_range":
            return ["assert_range", self.expr(s[1], vis, sub), self.expr(s[2], vis, sub)]
        die("fn %s: unsupported statement %s" % (self.fname, k))

    def expr(self, e, vis, sub):
        if e is None or not isinstance(e, (list, tuple)):
            return e
        k = e[0]
        if k == "var":
            return ["var", sub.get(e[1], self.safe(e[1]))]
        if k in ("lit", "blit", "bool", "path", "str"):
            return e
        if k == "ifx":
            return ["ifx", self.expr(e[1], vis, sub), self.block(e[2], vis, sub), self.block(e[3], vis, sub)]
        if k == "blockx":
            return ["blockx", self.block(e[1], vis, sub)]
        if k == "match":
            arms = []
            for pat, guard, body in e[2]:
                sub2 = dict(sub)
                if pat[0] in ("psome", "pok", "perr") and pat[1] is not None:
                    local = set()
                    pat = [pat[0], self.bind(pat[1], vis, local, sub2)]
                    vis2 = vis | local
                else:
                    vis2 = vis
                arms.append((pat, self.expr(guard, vis2, sub2), self.expr(body, vis2, sub2)))
            return ["match", self.expr(e[1], vis, sub), arms]
        if k == "ret":
            return ["ret", self.expr(e[1], vis, sub)]
        if k == "as":
            return ["as", self.expr(e[1], vis, sub), e[2]]
        if k == "bin":
            return ["bin", e[1], self.expr(e[2], vis, sub), self.expr(e[3], vis, sub)]
        if k == "un":
            return ["un", e[1], self.expr(e[2], vis, sub)]
        if k == "refmut":
            return ["refmut", self.expr(e[1], vis, sub)]
        if k == "tuple":
            return ["tuple", [self.expr(x, vis, sub) for x in e[1]]]
        if k == "field":
            return ["field", self.expr(e[1], vis, sub), e[2]]
        if k == "index":
            return ["index", self.expr(e[1], vis, sub), self.expr(e[2], vis, sub)]
        if k == "mcall":
            return ["mcall", self.expr(e[1], vis, sub), e[2], [self.expr(x, vis, sub) for x in e[3]]]
        if k == "pcall":
            return ["pcall", e[1], [self.expr(x, vis, sub) for x in e[2]]]
        if k == "pcallg":
            return ["pcallg", e[1], [self.expr(x, vis, sub) for x in e[2]], [self.expr(x, vis, sub) for x in e[3]]]
        if k == "macro":
            return ["macro", e[1], [self.expr(x, vis, sub) for x in e[2]]]
        if k == "perrlit":
            return ["perrlit", self.expr(e[1], vis, sub)]
        if k == "struct":
            return ["struct", e[1], self.expr(e[2], vis, sub)]
        if k == "arrep":
            return ["arrep", self.expr(e[1], vis, sub), e[2]]
        die("fn %s: cannot rename inside expression %s" % (self.fname, k))


# ---------------------------------------------------------------- generation

def has_break(blk):
    """does the block contain a `break` that belongs to the loop whose body it is?"""
    for s in blk or []:
        k = s[0]
        if k == "break":
            return True
        if k == "if" and (has_break(s[2]) or has_break(s[3])):
            return True
        if k == "iflet_path" and (has_break(s[3]) or has_break(s[4])):
            return True
        if k == "block" and has_break(s[1]):
            return True
        if k == "expr":
            e = s[1]
            if e[0] == "ifx" and (has_break(e[2]) or has_break(e[3])):
                return True
            if e[0] == "blockx" and has_break(e[1]):
                return True
            if e[0] == "match" and any(b[0] == "blockx" and has_break(b[1]) for _, _, b in e[2]):
                return True
    return False


class PG(L.Gen):
    """L.Gen + byte slices, u8 arithmetic, Result / ParseIntError / IntErrorKind, `loop`, `assert_range!`, `ok!`, `panic!`,
    calls with generic arguments, matches on integers / Option with guards / Result, digit `*` `+`, checked `/` `%`,
    the externally tied functions of EXT_METHODS / EXT_STATICS."""

    def declare(self, env, name, ty, mut, ctx):
        if name in GALLINA_KEYWORDS:
            self.die("local variable name %s is a Gallina keyword" % name)
        L.Gen.declare(self, env, name, ty, mut, ctx)

    def lines(self, ls, pad):
        return "\n".join(pad + x for l in ls for x in l.split("\n"))

    # ------------------------------------------------ expressions
    def ex(self, e, env):
        k = e[0]
        if k == "blit":
            return [], str(e[1]), "u8"
        if k == "str":
            self.die("string literal outside panic!")
        if k == "index":
            b = e[1]
            while b[0] == "un" and b[1] == "&":
                b = b[2]
            if b[0] == "var" and b[1] in env and L.rs(env[b[1]].ty) == "bytes":
                p, v, t = self.ex(e[2], env)
                L.unify(t, "usize", "slice index")
                x = self.tmp()
                return p + ["%s <- arr_get %s %s ;;" % (x, b[1], v)], x, "u8"
            return L.Gen.ex(self, e, env)
        if k == "as":
            save = self.ntmp
            p, v, t = self.ex(e[1], env)
            src, dst = L.rs(t), e[2]
            if not isinstance(src, L.TVar):
                if (src, dst) == ("ExpType", "u8"):            # u32 as u8: truncation
                    return p, "(to_u8 %s)" % v, dst
                if src == "u8" and dst in ("usize", "ExpType"):  # zero extension
                    return p, v, dst
                if src in ("u8", "ExpType", "usize") and dst == "Digit":   # to a w-bit digit: the value mod 2^w
                    return p, "(ud w %s)" % v, dst
            self.ntmp = save
            return L.Gen.ex(self, e, env)
        if k == "perrlit":
            p, v, t = self.ex(e[1], env)
            L.unify(t, "kind", "field kind of ParseIntError")
            return p, v, "perr"
        if k == "macro":
            if e[1] == "ok":
                a = e[2][0]
                if a[0] == "pcall" and tuple(a[1]) == ("core", "str", "from_utf8") and len(a[2]) == 1:
                    # ok!(core::str::from_utf8(buf)): MODELLED - Model/Parse.v: utf8_valid (the well-formed byte sequences of the
                    # Unicode standard); a &str is its bytes
                    p, v, t = self.ex(a[2][0], env)
                    L.unify(t, "bytes", "argument of from_utf8")
                    return p, "(if Parse.utf8_valid %s then Some %s else None)" % (v, v), ("option", "str")
                p, v, t = self.ex(a, env)
                inner = L.TVar(any=True)
                L.unify(t, ("result", inner), "argument of ok!")
                # src/nightly.rs (pattern-checked): ok!(e) = match e { Ok(v) => Some(v), Err(_) => None }
                return p, "(match %s with ROk v' => Some v' | RErr _ => None end)" % v, ("option", inner)
            self.die("%s! is not supported in this position" % e[1])
        if k == "pcallg":
            return self.pcall(["pcall", e[1], e[3]], env, e[2])
        if k == "path":
            s = tuple(e[1])
            if s == ("u8", "MAX"):
                return [], "255", "u8"
            if len(s) == 2 and s[0] == "IntErrorKind":
                if s[1] not in KINDS:
                    self.die("IntErrorKind::%s is not modelled" % s[1])
                return [], KINDS[s[1]], "kind"
            if s == ("digit", "$Digit", "BITS_U8"):          # digit.rs: `pub const BITS_U8: u8 = BITS as u8;` (pattern-checked)
                return [], "w", "u8"
            if s == ("Self", "BITS") and self.selfty == "bint":   # bint/consts.rs: `BITS = $BUint::<N>::BITS` (pattern-checked)
                return [], "(w * N)", "ExpType"
        return L.Gen.ex(self, e, env)

    def bin(self, e, env):
        _, op, a, b = e
        if op in ("+", "-", "*", "/", "%"):
            save = self.ntmp
            pa, va, ta = self.ex(a, env)
            pb, vb, tb = self.ex(b, env)
            t = L.rs(L.unify(ta, tb, "operands of " + op))
            pre = pa + pb
            if isinstance(t, L.TVar) and not self.final:
                return pre, "0", t                          # type not yet known (first pass): decided by the context
            t = self.need(t, "operands of " + op)
            x = None
            if t == "u8" and op in ("+", "-", "/", "%"):
                f = {"+": "badd", "-": "usub", "/": "udiv", "%": "urem"}[op]
            elif t in ("usize", "ExpType") and op in ("/", "%"):
                f = {"/": "udiv", "%": "urem"}[op]
            elif t in ("usize", "ExpType") and op == "*":    # index arithmetic: unbounded, like `+` (Model/Imp.v)
                return pre, "(%s * %s)" % (va, vb), t
            elif t == "Digit" and op in ("*", "+"):
                self.uses_dbg = True
                f = {"*": "dmul dbg w", "+": "dadd dbg w"}[op]
            else:
                self.ntmp = save
                return L.Gen.bin(self, e, env)
            x = self.tmp()
            return pre + ["%s <- %s %s %s ;;" % (x, f, va, vb)], x, t
        return L.Gen.bin(self, e, env)

    def ext_call(self, entry, what, vals, pre, args, env):
        fmt, ptys, rty, flags = entry
        if len(args) != len(ptys):
            self.die("call of %s with %d arguments, expected %d" % (what, len(args), len(ptys)))
        vs = list(vals)
        for a, pt in zip(args, ptys):
            p2, v2, t2 = self.ex(a, env)
            L.unify(t2, pt, "argument of " + what)
            pre = pre + p2
            vs.append(v2)
        call = fmt.format(*vs)
        if "outcome" in flags:
            x = self.tmp()
            return pre + ["%s <- of_outcome (%s) ;;" % (x, call)], x, rty
        return pre, call, rty

    def mcall(self, e, env):
        _, recv, name, args = e
        save = self.ntmp
        p, v, t = self.ex(recv, env)
        t0 = L.rs(t)
        if t0 in ("bytes", "str") and not args:
            if name == "len":
                return p, "(Z.of_nat (length %s))" % v, "usize"
            if name == "is_empty":
                return p, "(Z.of_nat (length %s) =? 0)" % v, "bool"
            if name == "as_bytes" and t0 == "str":
                return p, v, "bytes"
        if t0 == "ExpType" and name == "leading_zeros" and not args:      # u32::leading_zeros
            return p, "(u_leading_zeros 32 %s)" % v, "ExpType"
        if t0 == "Digit" and name == "checked_mul" and len(args) == 1:
            p2, v2, t2 = self.ex(args[0], env)
            L.unify(t2, "Digit", "argument of checked_mul")
            return p + p2, "(dg_checked_mul w %s %s)" % (v, v2), ("option", "Digit")
        if t0 == "perr" and name == "kind" and not args:
            return p, v, "kind"
        if (t0, name) in EXT_METHODS and self.lookup(t0, name, True) is None:
            return self.ext_call(EXT_METHODS[(t0, name)], name, [v], p, args, env)
        self.ntmp = save
        return L.Gen.mcall(self, e, env)

    def call_fn(self, sig, gargs, recv, args, env):
        """call of another generated function, with its const generic arguments"""
        name = sig["rust"]
        if len(gargs) != len(sig["generics"]):
            self.die("call of %s with %d generic arguments, expected %d" % (name, len(gargs), len(sig["generics"])))
        if sig["self"]:
            self.die("call of the method %s with generic arguments: not supported" % name)
        pre, gs, vs = [], [], []
        for g, (gn, gt) in zip(gargs, sig["generics"]):
            p, v, t = self.ex(g, env)
            L.unify(t, gt, "generic argument %s of %s" % (gn, name))
            if p:
                self.die("generic argument with effects")
            gs.append(v)
        if len(args) != len(sig["params"]):
            self.die("call of %s with %d arguments, expected %d" % (name, len(args), len(sig["params"])))
        for a, (pn, pt) in zip(args, sig["params"]):
            p, v, t = self.ex(a, env)
            L.unify(t, pt, "argument %s of %s" % (pn, name))
            pre += p
            vs.append(v)
        if sig["coq"] == self.fname:
            self.die("recursion is not supported")
        if sig["dbg"]:
            self.uses_dbg = True
        x = self.tmp()
        return pre + ["%s <- %s %sw N fuel %s ;;" % (x, sig["coq"], "dbg " if sig["dbg"] else "", " ".join(gs + vs))], x, sig["ret"]

    def pcall(self, e, env, gargs=None):
        _, segs, args = e[:3]
        s = tuple(segs)
        if gargs is None and s in (("Ok",), ("Err",)) and len(args) == 1:
            p, v, t = self.ex(args[0], env)
            if s == ("Ok",):
                return p, "(ROk %s)" % v, ("result", t)
            L.unify(t, "perr", "argument of Err")
            return p, "(RErr %s)" % v, ("result", self.tv_any(e))
        if len(s) == 1 and s[0] not in ("Some",):
            sig = self.lookup("free", s[0], False)
            if sig is None:
                self.die("call of %s, which is not a translated function" % s[0])
            return self.call_fn(sig, gargs or [], None, args, env)
        if len(s) == 2 and s[0] in ("Self", "$BUint", "$BInt"):
            ty = {"Self": self.selfty, "$BUint": "buint", "$BInt": "bint"}[s[0]]
            sig = self.lookup(ty, s[1], False)
            if sig is not None and not sig["self"]:
                return self.call_fn(sig, gargs or [], None, args, env)
            if sig is None and (ty, s[1]) in EXT_STATICS and gargs is None:
                return self.ext_call(EXT_STATICS[(ty, s[1])], "::".join(segs), [], [], args, env)
        if gargs is not None:
            self.die("unsupported call with generic arguments " + "::".join(segs))
        return L.Gen.pcall(self, ["pcall", segs, args], env)

    def call_translated(self, sig, recv, args, env, size=None):
        if size is not None:
            self.die("call of %s at an inferred size" % sig["rust"])
        if sig["self"]:
            self.die("call of the method %s: not supported here" % sig["rust"])
        return self.call_fn(sig, [], None, args, env)

    # ------------------------------------------------ statements
    def stmts(self, ss, env, ctx, ind):
        pad = "  " * ind
        if not ss:
            return L.Gen.stmts(self, ss, env, ctx, ind)
        s, rest = ss[0], ss[1:]
        k = s[0]
        if k == "unreachable":
            return pad + "Panicked (* unreachable: a `loop` without `break` is only left by `return` *)"
        if k == "loop":
            # `loop { b }` is `while true { b }`; without a `break` the code after it is unreachable
            brk = has_break(s[1])
            if not brk and rest:
                self.die("statements after a `loop` without `break`")
            return L.Gen.stmts(self, [["while", ["bool", True], s[1]]] + (list(rest) if brk else [["unreachable"]]), env, ctx, ind)
        if k == "assert_range":
            # src/int/radix.rs (pattern-checked): assert_range!(radix, max) = assert!(radix >= 2 && radix <= max, ..)
            p, v, t = self.ex(s[1], env)
            L.unify(t, "ExpType", "first argument of assert_range!")
            pm, vm, tm = self.ex(s[2], env)
            L.unify(tm, "ExpType", "second argument of assert_range!")
            if pm:
                self.die("assert_range! bound with effects")
            body = self.stmts(rest, env, ctx, ind + 1)
            return (self.lines(p + ["if (andb (%s >=? 2) (%s <=? %s)) then (" % (v, v, vm)], pad) + "\n" + body + "\n" + pad
                    + ") else (\n" + pad + "  Panicked (* assert_range! *)\n" + pad + ")")
        if k == "iflet_path":
            _, segs, e, a, b = s
            p, v, t = self.ex(e, env)
            L.unify(t, "kind", "scrutinee of if let")
            pp, pv, pt = self.ex(["path", segs], env)
            L.unify(pt, "kind", "pattern of if let")
            inner = dict(ctx, protected=set(env.keys()) | ctx["protected"])
            ta = self.stmts(self.splice(a, rest), self.copy(env), inner, ind + 2)
            tb = self.stmts(self.splice(b or [], rest), self.copy(env), inner, ind + 2)
            return (self.lines(p + ["match %s with" % v, "| %s => (" % pv], pad) + "\n" + ta + "\n" + pad + "  )\n"
                    + pad + "| _ => (\n" + tb + "\n" + pad + "  )\n" + pad + "end")
        if k == "expr":
            e = s[1]
            if e[0] == "macro" and e[1] == "panic":
                if rest:
                    self.die("statements after panic!")
                return pad + "Panicked (* panic! *)"
            if e[0] in ("match", "ifx", "blockx"):
                if rest:
                    self.die("value expression in the middle of a block")
                if e[0] == "ifx":
                    return self.stmts([["if", e[1], e[2], e[3]]], env, ctx, ind)
                if e[0] == "blockx":
                    return self.stmts([["block", e[1]]], env, ctx, ind)
                return self.match_stmt(e, None, [], env, ctx, ind)
        return L.Gen.stmts(self, ss, env, ctx, ind)

    def arm_text(self, body, mk, rest, env2, ctx, inner, ind):
        if isinstance(body, list) and body[0] == "ret":
            return self.stmts([["return", body[1]]], env2, ctx, ind)
        if isinstance(body, list) and body[0] == "macro" and body[1] == "panic":
            return "  " * ind + "Panicked (* panic! *)"
        if mk is None:
            ss = body[1] if body[0] == "blockx" else [["expr", body]]
            return self.stmts(ss, env2, inner, ind)
        if body[0] == "blockx" and not (len(body[1]) == 1 and body[1][0][0] == "expr"):
            self.die("a match arm with statements whose value is used by let / assignment: not supported")
        return self.stmts([mk(body)] + list(rest), env2, ctx, ind)

    def match_stmt(self, m, mk, rest, env, ctx, ind):
        """`match scrut { arms }`, arms tried in order.  Scrutinee: an integer (patterns: literals joined by `|`, an inclusive
        range, `_`; the last arm must be `_`), an Option / Result / Ordering (constructor patterns, `_`, guards)."""
        _, scrut, arms = m
        pad = "  " * ind
        p, v, t = self.ex(scrut, env)
        t = L.rs(t)
        inner = dict(ctx, protected=set(env.keys()) | ctx["protected"])
        if L.is_int(t):
            if not re.match(r"^[\w']+$", v):
                x = self.tmp()
                p, v = p + ["let %s := %s in" % (x, v)], x
            if not arms or arms[-1][0][0] != "pwild" or arms[-1][1] is not None:
                self.die("match on an integer: the last arm must be `_`")
            out, depth = "", 0
            for ai, (pat, guard, body) in enumerate(arms):
                if pat[0] == "plit":
                    cs = []
                    for l in pat[1]:
                        pl, vl, tl = self.ex(l, env)
                        L.unify(tl, t, "literal pattern")
                        cs.append("(%s =? %s)" % (v, vl))
                    c = cs[-1]
                    for x in reversed(cs[:-1]):
                        c = "(orb %s %s)" % (x, c)
                elif pat[0] == "prange":
                    pl, vl, tl = self.ex(pat[1], env)
                    ph, vh, th = self.ex(pat[2], env)
                    L.unify(tl, t, "range pattern")
                    L.unify(th, t, "range pattern")
                    c = "(andb (%s <=? %s) (%s <=? %s))" % (vl, v, v, vh)
                elif pat[0] == "pwild":
                    c = None
                else:
                    self.die("pattern %s does not match an integer" % pat[0])
                if guard is not None:
                    pg, vg, tg = self.ex(guard, env)
                    L.unify(tg, "bool", "match guard")
                    if pg:
                        self.die("match guard with effects")
                    c = vg if c is None else "(andb %s %s)" % (c, vg)
                txt = self.arm_text(body, mk, rest, self.copy(env), ctx, inner, ind + depth + 1)
                ipad = pad + "  " * depth
                if c is None:
                    if ai != len(arms) - 1:
                        self.die("unreachable arms after `_`")
                    out += txt
                    break
                out += ipad + "if %s then (\n%s\n%s) else (\n" % (c, txt, ipad)
                depth += 1
            for d in reversed(range(depth)):
                out += "\n" + pad + "  " * d + ")"
            return (self.lines(p, pad) + "\n" if p else "") + out
        if L.is_opt(t):
            universe = [("Some", "psome", t[1]), ("None", "pnone", None)]
        elif is_result(t):
            universe = [("ROk", "pok", t[1]), ("RErr", "perr", "perr")]
        elif t == "ordering":
            universe = [("Lt", "Less", None), ("Eq", "Equal", None), ("Gt", "Greater", None)]
        else:
            self.die("match on a value of type %s: not supported" % show(t))
        for pat, guard, body in arms:
            ok = pat[0] == "pwild" or pat[0] in [u[1] for u in universe] or (
                pat[0] == "ppath" and t == "ordering" and len(pat[1]) == 2 and pat[1][0] == "Ordering" and pat[1][1] in [u[1] for u in universe])
            if not ok:
                self.die("pattern %s does not match the type %s" % (pat[0], show(t)))
        out = []
        used = set()
        for con, pk, payload in universe:
            cands = [(i, a) for i, a in enumerate(arms)
                     if a[0][0] == "pwild" or a[0][0] == pk or (a[0][0] == "ppath" and a[0][1][1] == pk)]
            names = set(a[0][1] for _, a in cands if a[0][0] == pk and payload is not None and a[0][1] is not None)
            if len(names) > 1:
                self.die("arms for %s bind different names: not supported" % con)
            x = names.pop() if names else None
            env2 = self.copy(env)
            head = con
            if payload is not None:
                if x is None:
                    head = con + " _"
                else:
                    if x in L.RESERVED or re.match(r"^t\d+$", x) or x == "N":
                        self.die("pattern variable name %s is reserved by the translator" % x)
                    if x in env2:
                        self.die("pattern variable %s shadows a variable (internal: renaming failed)" % x)
                    env2[x] = L.Var(payload, False, True)
                    head = "%s %s" % (con, x)
            # the arms that can match this constructor, in order: a guarded one falls through to the next
            def build(k, ind2):
                if k == len(cands):
                    self.die("non-exhaustive match on %s (constructor %s)" % (show(t), con))
                i, (pat, guard, body) = cands[k]
                used.add(i)
                e3 = self.copy(env2)
                if pat[0] == "pwild" and x is not None:
                    e3.pop(x, None)
                if guard is None:
                    return self.arm_text(body, mk, rest, e3, ctx, inner, ind2)
                pg, vg, tg = self.ex(guard, e3)
                L.unify(tg, "bool", "match guard")
                if pg:
                    self.die("match guard with effects")
                ipad = "  " * ind2
                return ipad + "if %s then (\n%s\n%s) else (\n%s\n%s)" % (
                    vg, self.arm_text(body, mk, rest, e3, ctx, inner, ind2 + 1), ipad, build(k + 1, ind2 + 1), ipad)
            txt = build(0, ind + 2)
            out.append(pad + "| %s => (\n%s\n%s  )" % (head, txt, pad))
        if len(used) != len(arms):
            self.die("unreachable match arm")
        return self.lines(p + ["match %s with" % v], pad) + "\n" + "\n".join(out) + "\n" + pad + "end"

    def assigned(self, blk):
        out = set()
        for s in blk or []:
            k = s[0]
            if k == "assign":
                lhs = s[1]
                if lhs[0] == "var":
                    out.add(lhs[1])
                elif lhs[0] == "index":
                    e = lhs[1]
                    while e[0] in ("un", "field"):
                        e = e[2] if e[0] == "un" else e[1]
                    if e[0] != "var":
                        self.die("unsupported assignment target " + str(lhs))
                    out.add(e[1])
                else:
                    self.die("unsupported assignment target " + str(lhs))
                out |= self.assigned_in_expr(s[3])
            elif k in ("while",):
                out |= self.assigned(s[2])
            elif k == "loop":
                out |= self.assigned(s[1])
            elif k == "if":
                out |= self.assigned(s[2]) | self.assigned(s[3])
            elif k == "iflet_path":
                out |= self.assigned(s[3]) | self.assigned(s[4])
            elif k == "block":
                out |= self.assigned(s[1])
            elif k == "expr":
                out |= self.assigned_in_expr(s[1])
            elif k == "let" and s[3] is not None:
                out |= self.assigned_in_expr(s[3])
        return out

    def assigned_in_expr(self, e):
        """assignments inside the blocks of an expression in statement position (match arms, if / block values)"""
        if not isinstance(e, (list, tuple)) or not e:
            return set()
        if e[0] == "match":
            out = set()
            for _, _, body in e[2]:
                if isinstance(body, list) and body[0] == "blockx":
                    out |= self.assigned(body[1])
            return out
        if e[0] == "ifx":
            return self.assigned(e[2]) | self.assigned(e[3])
        if e[0] == "blockx":
            return self.assigned(e[1])
        return set()


# ---------------------------------------------------------------- driver

def parse_sig(name, generics, params, ret, selfty):
    sig = {"self": False, "params": [], "generics": [], "mut": set(), "selfty": selfty, "rust": name, "callable": True,
           "mutref": False, "dbg": False, "prim": None}
    if generics:
        for g in generics.strip()[1:-1].split(","):
            m = re.match(r"^\s*const\s+(\w+)\s*:\s*(bool)\s*$", g)
            if not m:
                die("fn %s: unsupported generic parameter %s" % (name, g.strip()))
            if m.group(1) in L.RESERVED or m.group(1) in GALLINA_KEYWORDS:
                die("fn %s: generic parameter name %s is reserved" % (name, m.group(1)))
            sig["generics"].append((m.group(1), m.group(2)))
    t = PP(tokenize(params), selfty)
    while t.peek() is not None:
        if t.peek() in ("self", "&", "mut") and (t.peek() == "self" or t.peek(1) == "self" or t.peek(2) == "self"):
            die("fn %s: methods (self parameters) are not in the subset of this translator" % name)
        pn = t.ident()
        t.eat(":")
        sig["params"].append((pn, t.type_()))
        if t.peek() == ",":
            t.eat(",")
        elif t.peek() is not None:
            die("fn %s: cannot parse the parameter list" % name)
    if ret is None:
        die("fn %s: no return type" % name)
    r = PP(tokenize(ret), selfty)
    sig["ret"] = r.type_()
    if r.peek() is not None:
        die("fn %s: cannot parse the return type %s" % (name, ret))
    return sig


def macro_body(txt, path):
    mm = re.search(r"macro_rules!\s*\w+\s*\{\s*\(\s*\$BUint\s*:\s*ident\s*,\s*\$BInt\s*:\s*ident\s*,\s*\$Digit\s*:\s*ident\s*\)", txt)
    if not mm:
        die("%s: macro_rules! with ($BUint, $BInt, $Digit) not found" % path)
    b0 = txt.index("{", mm.start())
    d, e = 0, b0
    while True:
        if e >= len(txt):
            die("%s: unbalanced braces in the macro body" % path)
        d += {"{": 1, "}": -1}.get(txt[e], 0)
        e += 1
        if d == 0:
            break
    return txt[b0:e]


def read(path):
    p = os.path.join(REPO, path)
    if not os.path.exists(p):
        die("source file %s not found" % p)
    return L.strip_comments(open(p).read())


def global_checks():
    """the definitions the translation scheme relies on (a change is a global failure)"""
    dsrc = read("src/digit.rs")
    L.check_digit_consts(dsrc)
    if not re.search(r"pub\s+const\s+BITS_U8\s*:\s*u8\s*=\s*BITS\s+as\s+u8\s*;", dsrc):
        die("src/digit.rs: `BITS_U8: u8 = BITS as u8` has changed")
    nsrc = read("src/nightly.rs")
    if not re.search(r"macro_rules!\s*option_try\s*\{\s*\(\s*\$e\s*:\s*expr\s*\)\s*=>\s*\{\s*match\s+\$e\s*\{\s*Some\s*\(\s*v\s*\)\s*=>\s*v\s*,\s*"
                     r"None\s*=>\s*return\s+None\s*,?\s*\}\s*\}\s*;?\s*\}", nsrc):
        die("src/nightly.rs: macro option_try (`match $e { Some(v) => v, None => return None }`) has changed")
    if not re.search(r"macro_rules!\s*ok\s*\{\s*\{\s*\$e\s*:\s*expr\s*\}\s*=>\s*\{\s*match\s+\$e\s*\{\s*Ok\s*\(\s*v\s*\)\s*=>\s*Some\s*\(\s*v\s*\)\s*,\s*"
                     r"Err\s*\(\s*_\s*\)\s*=>\s*None\s*,?\s*\}\s*\}\s*;?\s*\}", nsrc):
        die("src/nightly.rs: macro ok (`match $e { Ok(v) => Some(v), Err(_) => None }`) has changed")
    rsrc = read("src/int/radix.rs")
    if not re.search(r"macro_rules!\s*assert_range\s*\{\s*\(\s*\$radix\s*:\s*expr\s*,\s*\$max\s*:\s*expr\s*\)\s*=>\s*\{\s*assert!\s*\(\s*"
                     r"\$radix\s*>=\s*2\s*&&\s*\$radix\s*<=\s*\$max\s*,", rsrc):
        die("src/int/radix.rs: macro assert_range (`assert!($radix >= 2 && $radix <= $max, ..)`) has changed")
    esrc = read("src/errors/parseint.rs")
    if not re.search(r"pub\s+struct\s+ParseIntError\s*\{\s*(pub\s*(\([^)]*\))?\s*)?kind\s*:\s*IntErrorKind\s*,?\s*\}", esrc):
        die("src/errors/parseint.rs: `struct ParseIntError { kind: IntErrorKind }` has changed")
    if not re.search(r"fn\s+kind\s*\(\s*&\s*self\s*\)\s*->\s*&\s*IntErrorKind\s*\{\s*&\s*self\s*\.\s*kind\s*\}", esrc):
        die("src/errors/parseint.rs: `fn kind(&self) -> &IntErrorKind { &self.kind }` has changed")
    msrc = read("src/bint/mod.rs")
    if not re.search(r"pub\s+struct\s+\$BInt\s*<\s*const\s+N\s*:\s*usize\s*>\s*\{\s*(pub\s*(\([^)]*\))?\s*)?bits\s*:\s*\$BUint\s*<\s*N\s*>\s*,?\s*\}", msrc):
        die("src/bint/mod.rs: `struct $BInt<const N: usize> { bits: $BUint<N> }` has changed")
    if not re.search(r"fn\s+from_bits\s*\(\s*bits\s*:\s*\$BUint\s*<\s*N\s*>\s*\)\s*->\s*Self\s*\{\s*Self\s*\{\s*bits\s*\}\s*\}", msrc):
        die("src/bint/mod.rs: `from_bits(bits) -> Self { Self { bits } }` has changed")
    isrc = read("src/bint/consts.rs")
    if not re.search(r"pub\s+const\s+BITS\s*:\s*ExpType\s*=\s*\$BUint\s*::\s*<\s*N\s*>\s*::\s*BITS\s*;", isrc):
        die("src/bint/consts.rs: `BITS = $BUint::<N>::BITS` has changed")
    csrc = read("src/buint/consts.rs")
    if not re.search(r"pub\s+const\s+BITS\s*:\s*ExpType\s*=\s*digit\s*::\s*\$Digit\s*::\s*BITS\s*\*\s*N\s+as\s+ExpType\s*;", csrc):
        die("src/buint/consts.rs: `BITS = digit::$Digit::BITS * N as ExpType` has changed")
    for path, ty in ((U, r"\$BUint"), (IC, r"\$BInt")):
        if not re.search(r"impl\s*<\s*const\s+N\s*:\s*usize\s*>\s*FromStr\s+for\s+%s\s*<\s*N\s*>\s*\{\s*type\s+Err\s*=\s*ParseIntError\s*;" % ty, read(path)):
            die("%s: `impl FromStr { type Err = ParseIntError; .. }` has changed" % path)
    return L.digit_sigs(dsrc)


def idents_of(toks):
    return set(t for t in toks if L.IDENT.match(t))


def translate_one(coq, fns, sigs, dsigs):
    path, rust, body = fns[coq]
    sig = sigs[coq]
    toks = tokenize(body)
    pp = PP(toks, sig["selfty"])
    ast = pp.block()
    if pp.peek() is not None:
        die("fn %s: trailing tokens after the body" % rust)
    rn = Renamer(rust, idents_of(toks))
    outer = set(n for n, _ in sig["generics"]) | set(n for n, _ in sig["params"])
    for n in outer:
        if n in GALLINA_KEYWORDS:
            die("fn %s: parameter name %s is a Gallina keyword" % (rust, n))
    # the function body is the scope of the parameters: a `let` there that re-declares one is an ordinary shadowing `let`
    ast = rn.block(ast, set(), {}, outer)
    tvs, txt, g = {}, None, None
    for final in (False, True):
        g = PG(coq, sigs, dsigs, {}, tvs, final)
        env = {}
        ctx = {"loop": None, "protected": set()}
        for gn, gt in sig["generics"]:
            env[gn] = L.Var(gt, False)
        for pn, pt in sig["params"]:
            g.declare(env, pn, pt, pn in sig["mut"], ctx)
        txt = g.stmts(ast, env, ctx, 1)
        sig["dbg"] = g.uses_dbg
    argl = "".join(" (%s : %s)" % (n, coq_ty(t)) for n, t in sig["generics"])
    argl += "".join(" (%s : %s)" % (n, coq_ty(t)) for n, t in sig["params"])
    rt = coq_ty(sig["ret"])
    if isinstance(L.rs(sig["ret"]), tuple) and not L.is_opt(L.rs(sig["ret"])) and not is_result(L.rs(sig["ret"])):
        rt = rt[1:-1]
    return "(* %s: fn %s *)\nDefinition %s %s(w N : Z) (fuel : nat)%s : res (%s) :=\n%s.\n" % (
        path, rust, coq, "(dbg : bool) " if sig["dbg"] else "", argl, rt, txt)


HEADER = ["(* GENERATED on every run by tools/rs2v_parse.py from /repo/src/buint/radix.rs, /repo/src/bint/radix.rs, /repo/src/bint/convert.rs",
          "   (the string / digit-slice parsing code).  Do not edit.  Proofs/ParseGenTie*.v prove the functions equal to the hand-written",
          "   model Model/Parse.v (radix_base_half: Model/RadixOut.v).",
          "   Vocabulary: Model/Imp.v + Model/ImpParse.v (control flow, Result, checked u8 / digit operations), Prim.v,",
          "   Model/DigitPrims.v, Generated/DigitGen.v; called by their hand-model names (tied or modelled elsewhere): Core.from_digit,",
          "   AddSub.U_checked_add, Bits.bit, Bits.trailing_zeros, AddSub.I_wrapping_neg, Core.is_negative, Parse.utf8_valid,",
          "   Parse.from_be_slice, Parse.from_le_slice. *)",
          "From Bnum Require Import Base Prim.",
          "From Bnum.Model Require Import DigitPrims LoopPrims Core Imp ImpParse.",
          "From Bnum.Model Require AddSub Bits Parse.",
          "From Bnum.Generated Require Import DigitGen.", "", "Module ParseGen.", ""]


def main():
    group = sys.argv[sys.argv.index("--for") + 1] if "--for" in sys.argv else None
    failed, fns, sigs, texts = {}, {}, {}, {}
    dsigs = global_checks()
    srcs = {}
    for path, where, anchor, rust, coq in WANTED:
        try:
            if (path, where) not in srcs:
                txt = read(path)
                srcs[(path, where)] = txt if where == "file" else macro_body(txt, path)
            generics, params, ret, body = L.find_fn(srcs[(path, where)], anchor, rust, path)
            selfty = "free" if where == "file" else L.selfty_of(path)
            sg = parse_sig(rust, generics, params, ret, selfty)
            sg["coq"] = coq
            sg["callable"] = anchor is None
            fns[coq] = (path, rust, body)
            sigs[coq] = sg
        except (SystemExit, Exception) as ex:
            failed[coq] = LAST_MSG[0] if isinstance(ex, SystemExit) else repr(ex)
    # a function that calls an untranslatable function is untranslatable too: iterate to a fixpoint
    while True:
        again = False
        for path, where, anchor, rust, coq in WANTED:
            if coq in failed:
                continue
            try:
                texts[coq] = translate_one(coq, fns, sigs, dsigs)
            except (SystemExit, Exception) as ex:
                failed[coq] = LAST_MSG[0] if isinstance(ex, SystemExit) else repr(ex)
                sigs.pop(coq, None)
                again = True
        if not again:
            break
    out = list(HEADER)
    for path, where, anchor, rust, coq in WANTED:
        if coq not in failed:
            out.append(texts[coq])
        else:
            out.append("(* %s: fn %s  -- NOT TRANSLATED: %s *)\nDefinition %s : unit := tt.\n"
                       % (path, rust, failed[coq].replace("*)", "* )").replace("(*", "( *"), coq))
    out.append("End ParseGen.")
    txt = "\n".join(out) + "\n"
    p = os.path.join(ROOT, "coq", "Generated", "ParseGen.v")
    if not os.path.exists(p) or open(p).read() != txt:
        open(p, "w").write(txt)
    if failed:
        hit = [f for f in failed if group is None or f in GROUPS.get(group, [])]
        sys.stderr.write("rs2v_parse: not translated (stub emitted, its tie lemma will not check): %s\n" % ", ".join(sorted(failed)))
        return 1 if hit else 0
    return 0


if __name__ == "__main__":
    try:
        rc = main()
    except SystemExit as ex:                              # a global failure: every function is a stub
        if LAST_MSG[0] == "":
            raise
        p = os.path.join(ROOT, "coq", "Generated", "ParseGen.v")
        txt = "\n".join(HEADER + ["(* NOT TRANSLATED (global failure): %s *)\nDefinition %s : unit := tt.\n"
                                  % (LAST_MSG[0].replace("*)", "* )").replace("(*", "( *"), c) for _, _, _, _, c in WANTED] + ["End ParseGen."]) + "\n"
        if not os.path.exists(p) or open(p).read() != txt:
            open(p, "w").write(txt)
        rc = 1
    sys.exit(rc)

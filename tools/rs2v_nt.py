#!/usr/bin/env python3
"""tools/rs2v_nt.py — TRANSLATOR: the num-traits / num-integer implementations WITH CODE IN THEM  ->  coq/Generated/NtGen.v

Reads $BNUM_REPO (default /repo) src/buint/numtraits.rs and src/bint/numtraits.rs and translates `impl Integer` (div_floor,
mod_floor, the binary gcd loop, lcm, divides, is_multiple_of, is_even, is_odd, div_rem), the four `PrimInt` shifts, the inherent
`fixpoint` (a higher-order function: its parameter `f: F where F: Fn(Self) -> Self` becomes a Gallina function argument), `impl
Roots` (sqrt, cbrt, nth_root: the `check_zero_or_one!` macro is expanded at its three call sites, each Newton closure `|s| ..`
becomes a Gallina `fun s => ..`) and, for BInt, the signed versions and `impl Signed` into Gallina over the control-flow
vocabulary of coq/Model/Imp.v (+ `udiv` of coq/Model/ImpParse.v).  coq/Proofs/NtGenTie*.v prove the generated functions equal to
the hand-written model coq/Model/NumTraits.v (the functions the C18 theorems are about).

Functions tied elsewhere are called by their HAND-MODEL name (tables INHERENT / OPERATORS / PRIM_METHODS below: which, and where
their own tie is).  Built as a library client of tools/rs2v_loops.py and tools/rs2v_parse.py (parser P.PP, generator P.PG,
alpha-renaming P.Renamer) by subclassing; tools/NT_TRANSLATOR.md describes the subset that is added.  Anything outside the subset
makes the translator fail loudly: the construct is named on stderr, the function (and every generated function that calls it)
becomes a stub `Definition f : unit := tt.` so that exactly its tie lemmas stop checking, and the exit status is 1 (0 with
`--for Cxx` for a property other than C18)."""
import re, sys, os
sys.path.insert(0, os.path.dirname(os.path.abspath(__file__)))
import rs2v_loops as L
import rs2v_parse as P

REPO = os.environ.get("BNUM_REPO", "/repo")
ROOT = os.path.dirname(os.path.dirname(os.path.abspath(__file__)))
LAST_MSG = [""]


def die(msg):
    LAST_MSG[0] = msg
    if not L.QUIET[0]:
        sys.stderr.write("rs2v_nt: " + msg + "\n")
    sys.exit(1)


U, I = "src/buint/numtraits.rs", "src/bint/numtraits.rs"


def hdr(trait, ty):
    """regex of `impl<const N: usize> Trait for $Ty<N>` (trait None: the inherent impl)"""
    t = r"\$" + ty[1:] + r"\s*<\s*N\s*>"
    return r"impl\s*<\s*const\s+N\s*:\s*usize\s*>\s*" + ((trait + r"\s+for\s+") if trait else "") + t + r"\s*\{"


# (source file, regex of the impl header the fn is looked up in, trait name (None = inherent), Rust fn name, Gallina name)
# callees before callers
WANTED = [
    (U, hdr("Integer", "$BUint"), "Integer", "div_floor", "U_div_floor"),
    (U, hdr("Integer", "$BUint"), "Integer", "mod_floor", "U_mod_floor"),
    (U, hdr("Integer", "$BUint"), "Integer", "gcd", "U_gcd"),
    (U, hdr("Integer", "$BUint"), "Integer", "lcm", "U_lcm"),
    (U, hdr("Integer", "$BUint"), "Integer", "is_multiple_of", "U_is_multiple_of"),
    (U, hdr("Integer", "$BUint"), "Integer", "divides", "U_divides"),
    (U, hdr("Integer", "$BUint"), "Integer", "is_even", "U_is_even"),
    (U, hdr("Integer", "$BUint"), "Integer", "is_odd", "U_is_odd"),
    (U, hdr("Integer", "$BUint"), "Integer", "div_rem", "U_div_rem"),
    (U, hdr("PrimInt", "$BUint"), "PrimInt", "signed_shl", "U_signed_shl"),
    (U, hdr("PrimInt", "$BUint"), "PrimInt", "signed_shr", "U_signed_shr"),
    (U, hdr("PrimInt", "$BUint"), "PrimInt", "unsigned_shl", "U_unsigned_shl"),
    (U, hdr("PrimInt", "$BUint"), "PrimInt", "unsigned_shr", "U_unsigned_shr"),
    (U, hdr(None, "$BUint"), None, "fixpoint", "fixpoint"),
    (U, hdr("Roots", "$BUint"), "Roots", "sqrt", "U_sqrt"),
    (U, hdr("Roots", "$BUint"), "Roots", "cbrt", "U_cbrt"),
    (U, hdr("Roots", "$BUint"), "Roots", "nth_root", "U_nth_root"),
    (I, hdr("Signed", "$BInt"), "Signed", "abs", "I_abs"),
    (I, hdr("Signed", "$BInt"), "Signed", "abs_sub", "I_abs_sub"),
    (I, hdr("Signed", "$BInt"), "Signed", "signum", "I_signum"),
    (I, hdr("Signed", "$BInt"), "Signed", "is_positive", "I_is_positive"),
    (I, hdr("Signed", "$BInt"), "Signed", "is_negative", "I_is_negative"),
    (I, hdr("Integer", "$BInt"), "Integer", "div_floor", "I_div_floor"),
    (I, hdr("Integer", "$BInt"), "Integer", "mod_floor", "I_mod_floor"),
    (I, hdr("Integer", "$BInt"), "Integer", "gcd", "I_gcd"),
    (I, hdr("Integer", "$BInt"), "Integer", "lcm", "I_lcm"),
    (I, hdr("Integer", "$BInt"), "Integer", "is_multiple_of", "I_is_multiple_of"),
    (I, hdr("Integer", "$BInt"), "Integer", "divides", "I_divides"),
    (I, hdr("Integer", "$BInt"), "Integer", "is_even", "I_is_even"),
    (I, hdr("Integer", "$BInt"), "Integer", "is_odd", "I_is_odd"),
    (I, hdr("Integer", "$BInt"), "Integer", "div_rem", "I_div_rem"),
    (I, hdr("PrimInt", "$BInt"), "PrimInt", "signed_shl", "I_signed_shl"),
    (I, hdr("PrimInt", "$BInt"), "PrimInt", "signed_shr", "I_signed_shr"),
    (I, hdr("PrimInt", "$BInt"), "PrimInt", "unsigned_shl", "I_unsigned_shl"),
    (I, hdr("PrimInt", "$BInt"), "PrimInt", "unsigned_shr", "I_unsigned_shr"),
    (I, hdr("Roots", "$BInt"), "Roots", "sqrt", "I_sqrt"),
    (I, hdr("Roots", "$BInt"), "Roots", "cbrt", "I_cbrt"),
    (I, hdr("Roots", "$BInt"), "Roots", "nth_root", "I_nth_root"),
]
GROUPS = {"C18": [w[4] for w in WANTED]}

# every other `fn` of the two files, with the reason it is not translated here (a fn that is neither wanted nor listed: loud)
SKIP = {
    U: {"$name": "to_int! (ToPrimitive): tied by tools/rs2v_conv.py (C19, Proofs/ConvGenTieC19.v)",
        "from_u64": "FromPrimitive: tied by tools/rs2v_conv.py (C19)", "from_i64": "FromPrimitive: tied by tools/rs2v_conv.py (C19)",
        "from_u128": "FromPrimitive: tied by tools/rs2v_conv.py (C19)", "from_i128": "FromPrimitive: tied by tools/rs2v_conv.py (C19)",
        "u32_bits": "helper of from_float! (float conversion: hand model Model/NumConv.v, differential check C19)",
        "u64_bits": "helper of from_float! (float conversion: hand model Model/NumConv.v, differential check C19)",
        "$method": "from_float! (float conversion: hand model Model/NumConv.v, differential check C19)",
        "to_f32": "Some(self.as_()): the float cast, C14 (tools/rs2v_float.py) / C19",
        "to_f64": "Some(self.as_()): the float cast, C14 (tools/rs2v_float.py) / C19"},
    I: {"$name": "from_int! / from_uint! / to_uint! / to_int! (FromPrimitive / ToPrimitive): tied by tools/rs2v_conv.py (C19)",
        "$method": "from_float! (float conversion: hand model Model/NumConv.v, differential check C19)",
        "to_f32": "Some(self.as_()): the float cast, C14 (tools/rs2v_float.py) / C19",
        "to_f64": "Some(self.as_()): the float cast, C14 (tools/rs2v_float.py) / C19"},
}

# ---------------------------------------------------------------- functions called by their HAND-MODEL name
# Inherent methods of $BUint / $BInt (and the one foreign trait method, to_u128) that are NOT re-translated here.
# (type, Rust name) -> (how it takes self: "val" `self` / "ref" `&self` / "static" no self / "trait-ref" a trait method taking
#   `&self`, Gallina format ({0} = receiver, then the arguments) or None = exists but is not modelled here, argument types,
#   result type, flags ("outcome": returns `outcome T`, "dbg": takes the debug-assertions flag), where its own tie to the source is)
# The self kind is CHECKED against the source on every run (it decides Rust's method resolution, see NG.resolve).
INHERENT = {
    ("buint", "is_zero"): ("ref", "(Core.is_zero {0})", [], "bool", (), "Proofs/LoopsTieC06.v loops_is_zero"),
    ("buint", "trailing_zeros"): ("val", "(Bits.trailing_zeros w {0})", [], "ExpType", (), "Proofs/LoopsTieC06.v loops_trailing_zeros"),
    ("buint", "bits"): ("ref", "(Bits.bits_of w {0})", [], "ExpType", (), "Proofs/LoopsTieC06b.v loops_bits"),
    ("buint", "last_digit_index"): ("ref", "(Z.of_nat (Div.last_digit_index {0}))", [], "usize", (), "Proofs/LoopsTieDiv.v loops_last_digit_index"),
    ("buint", "power_of_two"): ("static", "Bits.power_of_two w (Z.to_nat N) {0}", ["ExpType"], "buint", ("outcome",), "Proofs/LoopsTieC06b.v loops_power_of_two"),
    ("buint", "unchecked_shr_internal"): ("static", "(Shift.shr_pad_internal w false {0} {1})", ["buint", "ExpType"], "buint", (),
                                          "Proofs/GlueTieC05.v glue_U_unchecked_shr_internal + LoopsTieC05.v"),
    ("buint", "unchecked_shl_internal"): ("val", "(Shift.shl_internal w {0} {1})", ["ExpType"], "buint", (), "Proofs/LoopsTieC05.v"),
    ("buint", "div_rem"): ("val", "Div.U_div_rem w {0} {1}", ["buint"], ("buint", "buint"), ("outcome",), "Proofs/GlueTieC03.v glue_U_div_rem"),
    ("buint", "div_floor"): ("val", None, ["buint"], "buint", (), "Proofs/GlueTieC03.v (inherent div_floor; not called by this code)"),
    ("buint", "checked_pow"): ("val", "(Pow.U_checked_pow w {0} {1})", ["ExpType"], ("option", "buint"), (), "Proofs/LoopsTieC08.v loops_checked_pow"),
    ("buint", "div_rem_digit"): ("val", "(Div.div_rem_digit w {0} {1})", ["Digit"], ("buint", "Digit"), (), "Proofs/LoopsTieDiv.v loops_div_rem_digit"),
    ("buint", "div_rem_unchecked"): ("val", "(Div.U_div_rem_unchecked w {0} {1})", ["buint"], ("buint", "buint"), (),
                                     "hand model Model/Div.v (dispatcher: usize index arithmetic; its parts: LoopsTieDiv.v, DivGenTie.v)"),
    # <$BUint as ToPrimitive>::to_u128 (to_int! of this file): the local model of Model/NumTraits.v (value-level theorem
    # C18 U_to_u128_spec); the SOURCE of to_int! is tied by tools/rs2v_conv.py (Proofs/ConvGenTieC19.v) to Model/NumConv.v
    ("buint", "to_u128"): ("trait-ref", "NumTraits.U_to_u128 w {0}", [], ("option", "u128"), ("outcome",), "Proofs/ConvGenTieC19.v (to_int!)"),
    ("bint", "is_zero"): ("ref", "(Core.is_zero {0})", [], "bool", (), "Proofs/GlueTieC07.v"),
    ("bint", "is_negative"): ("val", "(Core.is_negative w {0})", [], "bool", (), "Proofs/GlueTieC07.v glue_I_is_negative"),
    ("bint", "is_positive"): ("val", "(Core.is_positive w {0})", [], "bool", (), "Proofs/GlueTieC07.v glue_I_is_positive"),
    ("bint", "abs"): ("val", "AddSub.I_abs dbg w {0}", [], "bint", ("outcome", "dbg"), "Proofs/GlueTieC01.v glue_I_abs"),
    ("bint", "signum"): ("val", "(Bits.signum w {0})", [], "bint", (), "Proofs/GlueTieC07.v glue_I_signum"),
    ("bint", "unsigned_abs"): ("val", "(AddSub.I_unsigned_abs w {0})", [], "buint", (), "Proofs/GlueTieC01.v glue_I_unsigned_abs"),
    ("bint", "wrapping_neg"): ("val", "(AddSub.I_wrapping_neg w {0})", [], "bint", (), "Proofs/GlueTieC01.v + LoopsTieC01s.v"),
    ("bint", "signed_digit"): ("ref", "(Core.signed_digit w {0})", [], "SDigit", (), "hand model Model/Core.v (digits[N - 1] as SignedDigit)"),
    ("bint", "to_bits"): ("val", "{0}", [], "buint", (), "pattern-checked: `self.bits`"),
    ("bint", "from_bits"): ("static", "{0}", ["buint"], "bint", (), "pattern-checked: `Self { bits }`"),
    ("bint", "div_floor"): ("val", None, ["bint"], "bint", (), "Proofs/GlueTieC03.v (inherent div_floor; not called by this code)"),
}
# Operators on Self: the std::ops trait impls of src/int/ops.rs, src/buint/ops.rs, src/bint/ops.rs, which are the inherent
# add / sub / mul / div / rem / neg with the build mode's overflow behaviour (ties: Proofs/GlueTieC04.v glue_U_Add_add .. and the
# glue ties of the inherent functions); comparison operators: PartialOrd / Ord = cmp (Proofs/LoopsTieC06.v loops_cmp, GlueTieC07.v)
# (type, operator) -> (Gallina head, takes dbg)
OPERATORS = {
    ("buint", "+"): ("AddSub.U_add dbg w", True), ("buint", "-"): ("AddSub.U_sub dbg w", True), ("buint", "*"): ("Mul.U_mul dbg w", True),
    ("buint", "/"): ("Div.U_div w", False), ("buint", "%"): ("Div.U_rem w", False),
    ("bint", "+"): ("AddSub.I_add dbg w", True), ("bint", "-"): ("AddSub.I_sub dbg w", True), ("bint", "*"): ("Mul.I_mul dbg w", True),
    ("bint", "/"): ("Div.I_div dbg w", True), ("bint", "%"): ("Div.I_rem dbg w", True),
}
COMPARE = {"<": "cmp_lt", "<=": "cmp_le", ">": "cmp_gt", ">=": "cmp_ge"}
# `x << e` / `x >> e` on Self: `impl Shl<T> for $Struct` for the twelve primitive amount types (Model/Ops.v *_prim, ties
# Proofs/GlueTieC04.v glue_U_Shl_*_shl ..).  The amount type selects the impl: a `u32` (ExpType) expression -> AU32; an integer
# literal that nothing else constrains -> i32 (Rust's integer fallback) -> AI32.
SHIFT_AMOUNT = {"ExpType": "AU32", "i32": "AI32"}
# methods of primitive types.  u128::{sqrt, cbrt, nth_root} are num-integer's `Roots for u128`: MODELLED by their specification
# (Model/NumTraits.v zroot, the floor of the real root), not verified.  `.into()`: `From<u32> / From<u128> for $BUint<N>`
# (from_uint! of src/buint/convert.rs: the invocation list is checked; local models Model/NumTraits.v U_from_u32 / U_from_u128;
# the source of from_uint! is tied in Proofs/LoopsTieC13.v to Model/Convert.v U_from_uint).  u32::is_even: num-integer's
# `Integer for u32`.  SignedDigit::is_negative: the primitive.
PRIM_METHODS = {
    ("u128", "sqrt"): ("(NumTraits.zroot 2 {0})", [], "u128", ()),
    ("u128", "cbrt"): ("(NumTraits.zroot 3 {0})", [], "u128", ()),
    ("u128", "nth_root"): ("(NumTraits.zroot {1} {0})", ["ExpType"], "u128", ()),
    ("u128", "into"): ("NumTraits.U_from_u128 w (Z.to_nat N) {0}", [], "buint", ("outcome",)),
    ("ExpType", "into"): ("NumTraits.U_from_u32 w (Z.to_nat N) {0}", [], "buint", ("outcome",)),
    ("ExpType", "is_even"): ("(Z.even {0})", [], "bool", ()),
    ("SDigit", "is_negative"): ("({0} <? 0)", [], "bool", ()),
}


# ---------------------------------------------------------------- types
# new: "u128" (a primitive u128: its value), "i32" (the type of an unconstrained integer literal used as a shift amount),
#      ("fn", (argument types), result type) (a closure / `F: Fn(..) -> ..` parameter: a Gallina function into `res`)

def is_fn(t):
    return isinstance(t, tuple) and len(t) == 3 and t[0] == "fn"


_coq_ty0 = P.coq_ty


def coq_ty(t):
    t0 = L.rs(t)
    if is_fn(t0):
        return "(" + " -> ".join(coq_ty(x) for x in t0[1]) + " -> res " + res_arg(t0[2]) + ")"
    if t0 in ("u128", "i32"):
        return "Z"
    if L.is_opt(t0):
        inner = coq_ty(t0[1])
        return "(option %s)" % (inner if inner.startswith("(") or " " not in inner else "(" + inner + ")")
    if isinstance(t0, tuple) and not P.is_result(t0):
        return "(" + " * ".join(coq_ty(x) for x in t0) + ")"
    return _coq_ty0(t0)


def res_arg(t):
    s = coq_ty(t)
    return s if s.startswith("(") or " " not in s else "(" + s + ")"


_show0 = P.show


def show(t):
    t0 = L.rs(t)
    if is_fn(t0):
        return "Fn(%s) -> %s" % (", ".join(show(x) for x in t0[1]), show(t0[2]))
    return _show0(t)


# rs2v_loops / rs2v_parse look these up as module globals at call time
L.die = die
P.die = die
L.coq_ty = coq_ty
P.coq_ty = coq_ty
L.show = show
P.show = show
L.INTS = L.INTS + ("u128", "i32")


# ---------------------------------------------------------------- parsing

def skip_balanced(p):
    """the parser p is at an opening bracket: skips to after the matching closing one"""
    opn = p.eat()
    close = {"(": ")", "[": "]", "{": "}"}.get(opn)
    if close is None:
        die("expected an opening bracket, got %r" % opn)
    d = 1
    while d:
        x = p.eat()
        if x in ("(", "[", "{"):
            d += 1
        elif x in (")", "]", "}"):
            d -= 1


class NP(P.PP):
    """P.PP + `u128`, statement attributes (`#[cfg(not(test))]` kept, `#[cfg(test)]` dropped, others loud), invocations of the
    local one-parameter statement macros of the file (`check_zero_or_one!(self);`: expanded), `core::mem::swap(&mut a, &mut b);`,
    `panic!(..)` with any arguments (the message is not modelled), `if let Some(x) = e { .. }`, closures `|x| e`."""

    def __init__(self, toks, selfty, macros=None):
        P.PP.__init__(self, toks, selfty)
        self.macros = macros or {}

    def type_(self):
        if self.peek() == "u128":
            self.eat()
            return "u128"
        return P.PP.type_(self)

    def stmt(self):
        v = self.peek()
        if v == "#":
            self.eat("#")
            self.eat("[")
            toks, d = [], 1
            while d:
                x = self.eat()
                d += {"[": 1, "]": -1}.get(x, 0)
                toks.append(x)
            attr = "".join(toks[:-1])
            if attr == "inline" or attr == "cfg(not(test))":      # the verified build is not a test build
                return self.stmt()
            if attr == "cfg(test)":
                self.stmt()
                return ["block", []]
            die("unsupported attribute #[%s] on a statement" % attr)
        if v is not None and v.endswith("!") and v[:-1] in self.macros:
            self.eat()
            self.eat("(")
            arg = self.ident()
            self.eat(")")
            if self.peek() == ";":
                self.eat()
            param, body = self.macros[v[:-1]]
            sub = NP([arg if t == param else t for t in body], self.selfty, self.macros)
            blk = sub.block()
            if sub.peek() is not None:
                die("macro %s: trailing tokens after the expansion" % v)
            return ["block", blk]
        if v == "core" and [self.peek(k) for k in range(1, 6)] == ["::", "mem", "::", "swap", "("]:
            for _ in range(6):
                self.eat()
            self.eat("&"), self.eat("mut")
            a = self.ident()
            self.eat(","), self.eat("&"), self.eat("mut")
            b = self.ident()
            self.eat(")"), self.eat(";")
            return ["swap", a, b]
        if v == "panic!":
            self.eat()
            skip_balanced(self)
            if self.peek() == ";":
                self.eat()
            return ["expr", ["macro", "panic", []]]
        if v == "!":                                    # a tail expression that starts with `!` (L.LP.stmt takes it for a macro)
            e = self.expr()
            if self.peek() != "}":
                die("expression statement starting with `!` in the middle of a block")
            return ["expr", e]
        return P.PP.stmt(self)

    def if_(self):
        if self.peek(1) == "let" and self.peek(2) == "Some":
            self.eat("if"), self.eat("let"), self.eat("Some"), self.eat("(")
            x = self.ident()
            self.eat(")"), self.eat("=")
            e = self.expr()
            a = self.block()
            b = None
            if self.peek() == "else":
                self.eat("else")
                b = [self.if_()] if self.peek() == "if" else self.block()
            return ["iflet_some", x, e, a, b]
        return P.PP.if_(self)

    def primary(self):
        v = self.peek()
        if v == "|":                                    # closure with one parameter: |x| e
            self.eat()
            x = self.ident()
            self.eat("|")
            return ["closure", x, self.expr()]
        if v == "panic!":
            self.eat()
            skip_balanced(self)
            return ["macro", "panic", []]
        return P.PP.primary(self)


class NR(P.Renamer):
    def stmt(self, s, outer, local, sub):
        k = s[0]
        vis = outer | local
        if k == "swap":
            return ["swap", sub.get(s[1], self.safe(s[1])), sub.get(s[2], self.safe(s[2]))]
        if k == "iflet_some":
            e2 = self.expr(s[2], vis, sub)
            sub2, loc2 = dict(sub), set()
            x2 = self.bind(s[1], vis, loc2, sub2)
            return ["iflet_some", x2, e2, self.block(s[3], vis | loc2, sub2), self.block(s[4], vis, sub)]
        return P.Renamer.stmt(self, s, outer, local, sub)

    def expr(self, e, vis, sub):
        if isinstance(e, (list, tuple)) and e and e[0] == "closure":
            sub2, loc2 = dict(sub), set()
            x2 = self.bind(e[1], vis, loc2, sub2)
            return ["closure", x2, self.expr(e[2], vis | loc2, sub2)]
        return P.Renamer.expr(self, e, vis, sub)


# ---------------------------------------------------------------- generation

class NG(P.PG):
    """P.PG + operators / comparisons on Self (OPERATORS), method resolution between the translated trait methods and the
    inherent methods called by hand-model name (INHERENT), closures, higher-order calls, `*x` on a `&Self`, `-x`, swap,
    `if let Some`, assignment-only `if` as a joined `let`, methods of primitive types (PRIM_METHODS)."""

    refvars = ()

    # ------------------------------------------------ resolution
    def is_ref_expr(self, e):
        while e[0] == "un" and e[1] == "&":
            return True
        return e[0] == "var" and e[1] in self.refvars

    def resolve(self, ty, name, recv_is_ref):
        """Rust's method lookup for `recv.name(..)`, recv of type `ty` (or `&ty`): for each candidate receiver type in the
        autoderef chain, methods taking that type BY VALUE (inherent first, then trait), then by autoref.  For a receiver
        expression of type &T the first step is the methods whose self type is &T (i.e. `&self` methods), then after a
        dereference the `self` methods; for a receiver of type T the `self` methods, then (autoref) the `&self` methods."""
        cands = {}
        inh = INHERENT.get((ty, name))
        if inh is not None:
            cands[("trait-" if inh[0].startswith("trait") else "inh-") + inh[0].replace("trait-", "")] = ("ext", inh)
        sg = self.lookup(ty, name, True)
        if sg is not None:
            cands[("trait-" if sg["trait"] else "inh-") + sg["selfkind"]] = ("gen", sg)
        order = ["inh-ref", "trait-ref", "inh-val", "trait-val"] if recv_is_ref else ["inh-val", "trait-val", "inh-ref", "trait-ref"]
        for k in order:
            if k in cands:
                return cands[k]
        return None

    def ext(self, entry, what, vals, pre, args, env):
        kind, fmt, ptys, rty, flags = entry[:5]
        if fmt is None:
            self.die("call of the inherent %s, which is not modelled by this translator" % what)
        if len(args) != len(ptys):
            self.die("call of %s with %d arguments, expected %d" % (what, len(args), len(ptys)))
        vs = list(vals)
        for a, pt in zip(args, ptys):
            p2, v2, t2 = self.ex(a, env)
            L.unify(t2, pt, "argument of " + what)
            pre = pre + p2
            vs.append(v2)
        if "dbg" in flags:
            self.uses_dbg = True
        call = fmt.format(*vs)
        if "outcome" in flags:
            x = self.tmp()
            return pre + ["%s <- of_outcome (%s) ;;" % (x, call)], x, rty
        return pre, call, rty

    # ------------------------------------------------ expressions
    def ex(self, e, env):
        k = e[0]
        if k == "un" and e[1] == "*":
            save = self.ntmp
            p, v, t = self.ex(e[2], env)
            if self.kind_of(t) in ("buint", "bint"):      # `*self`, `*other` on a `&Self`: the value (Self is Copy)
                return p, v, t
            self.ntmp = save
        if k == "un" and e[1] == "-":
            p, v, t = self.ex(e[2], env)
            if L.rs(t) == "bint":                          # impl Neg for $BInt: the inherent neg (Proofs/GlueTieC04.v glue_I_Neg_neg)
                self.uses_dbg = True
                x = self.tmp()
                return p + ["%s <- of_outcome (AddSub.I_neg dbg w %s) ;;" % (x, v)], x, "bint"
            self.die("unary minus on " + show(t))
        if k == "closure":
            self.die("a closure is only supported as the argument of a translated function whose parameter is `F: Fn(..) -> ..`")
        if k == "path":
            s = tuple(e[1])
            if s[0] == "Self":
                s = ({"buint": "$BUint", "bint": "$BInt"}[self.selfty],) + s[1:]
            # Self::ONE = from_digit(1) (buint/consts.rs pos_const!, pattern-checked; bint: from_bits($BUint::ONE)): the hand
            # model's Core.ONE (equal to the code's constant for 0 < N, Proofs/LoopsTieC06b.v loops_from_digit)
            if s == ("$BUint", "ONE"):
                return [], "(Core.ONE (Z.to_nat N))", "buint"
            if s == ("$BInt", "ONE"):
                return [], "(Core.ONE (Z.to_nat N))", "bint"
        return P.PG.ex(self, e, env)

    def bin(self, e, env):
        _, op, a, b = e
        save = self.ntmp
        pa, va, ta = self.ex(a, env)
        ka = L.rs(ta)
        if ka in ("buint", "bint"):
            pb, vb, tb = self.ex(b, env)
            if op in ("<<", ">>"):
                tb0 = L.rs(tb)
                if isinstance(tb0, L.TVar) and not tb0.any:
                    L.unify(tb, "i32", "shift amount")     # an otherwise unconstrained integer literal: Rust's fallback i32
                    tb0 = "i32"
                if tb0 not in SHIFT_AMOUNT:
                    self.die("shift of Self by an amount of type %s: not supported" % show(tb0))
                self.uses_dbg = True
                f = "Ops.%s_%s_prim dbg w Ops.%s" % ("U" if ka == "buint" else "I", "Shl" if op == "<<" else "Shr", SHIFT_AMOUNT[tb0])
                x = self.tmp()
                return pa + pb + ["%s <- of_outcome (%s %s %s) ;;" % (x, f, va, vb)], x, ka
            L.unify(ta, tb, "operands of " + op)
            if op in COMPARE:
                c = "(ucmp %s %s)" % (va, vb) if ka == "buint" else "(icmp w %s %s)" % (va, vb)
                return pa + pb, "(%s %s)" % (COMPARE[op], c), "bool"
            if (ka, op) in OPERATORS:
                head, dbg = OPERATORS[(ka, op)]
                if dbg:
                    self.uses_dbg = True
                x = self.tmp()
                return pa + pb + ["%s <- of_outcome (%s %s %s) ;;" % (x, head, va, vb)], x, ka
            self.die("operator %s on Self: not supported" % op)
        self.ntmp = save
        return P.PG.bin(self, e, env)

    def closure(self, node, fty, env, ind):
        """`|x| body` for a parameter of type fty = ("fn", (T,), R): the Gallina function `fun x => <body in the res monad>`"""
        if node[0] != "closure":
            self.die("the argument for a parameter of type %s must be a closure |x| .." % show(fty))
        x, body = node[1], node[2]
        if len(fty[1]) != 1:
            self.die("closures with %d parameters are not supported" % len(fty[1]))
        if x in L.RESERVED or x in P.GALLINA_KEYWORDS or re.match(r"^t\d+$", x) or x == "N":
            self.die("closure parameter name %s is reserved" % x)
        env2 = self.copy(env)
        for n in env2:
            env2[n].mut = False                          # Fn closure: captured variables are read-only
        env2[x] = L.Var(fty[1][0], False)
        ss = body[1] if body[0] == "blockx" else [["expr", body]]
        saved = self.ret
        self.ret = fty[2]
        try:
            txt = self.stmts(ss, env2, {"loop": None, "protected": set(env2.keys())}, ind + 2)
        finally:
            self.ret = saved
        return "(fun %s =>\n%s)" % (x, txt)

    def call_translated(self, sig, recv, args, env, size=None):
        if size is not None:
            self.die("call of %s at an inferred size" % sig["rust"])
        name = sig["rust"]
        formal = ([("self", sig["selfty"])] if sig["self"] else []) + sig["params"]
        actual = ([recv] if sig["self"] else []) + list(args)
        if len(actual) != len(formal):
            self.die("call of %s with %d arguments, expected %d" % (name, len(actual), len(formal)))
        if sig["coq"] == self.fname:
            self.die("recursion is not supported")
        pre, vs = [], []
        for a, (pn, pt) in zip(actual, formal):
            if is_fn(pt):
                vs.append(self.closure(a, pt, env, 1))
                continue
            p, v, t = self.ex(a, env)
            L.unify(t, pt, "argument %s of %s" % (pn, name))
            pre += p
            vs.append(v)
        if sig["dbg"]:
            self.uses_dbg = True
        x = self.tmp()
        return pre + ["%s <- %s %sw N fuel %s ;;" % (x, sig["coq"], "dbg " if sig["dbg"] else "", " ".join(vs))], x, sig["ret"]

    def mcall(self, e, env):
        _, recv, name, args = e
        save = self.ntmp
        p, v, t = self.ex(recv, env)
        t0 = L.rs(t)
        if t0 in ("buint", "bint"):
            r = self.resolve(t0, name, self.is_ref_expr(recv))
            if r is None:
                self.die("call of method %s on %s: neither a translated function nor in the table of functions called by model name" % (name, show(t0)))
            if r[0] == "gen":
                self.ntmp = save
                return self.call_translated(r[1], recv, args, env)
            return self.ext(r[1], name, [v], p, args, env)
        if (t0, name) in PRIM_METHODS:
            fmt, ptys, rty, flags = PRIM_METHODS[(t0, name)]
            return self.ext(("val", fmt, ptys, rty, flags), "%s::%s" % (show(t0), name), [v], p, args, env)
        self.ntmp = save
        return P.PG.mcall(self, e, env)

    def pcall(self, e, env, gargs=None):
        _, segs, args = e[:3]
        s = tuple(segs)
        if gargs is None and len(s) == 1 and s[0] in env and is_fn(L.rs(env[s[0]].ty)):
            fty = L.rs(env[s[0]].ty)                       # call of the closure parameter: f(x)
            if len(args) != len(fty[1]):
                self.die("call of %s with %d arguments" % (s[0], len(args)))
            pre, vs = [], []
            for a, pt in zip(args, fty[1]):
                p, v, t = self.ex(a, env)
                L.unify(t, pt, "argument of " + s[0])
                pre += p
                vs.append(v)
            x = self.tmp()
            return pre + ["%s <- %s %s ;;" % (x, s[0], " ".join(vs))], x, fty[2]
        if gargs is None and len(s) == 2 and s[0] in ("Self", "$BUint", "$BInt"):
            ty = {"Self": self.selfty, "$BUint": "buint", "$BInt": "bint"}[s[0]]
            inh = INHERENT.get((ty, s[1]))
            if inh is not None and not inh[0].startswith("trait"):       # a path call: the inherent associated fn wins
                if inh[0] == "static":
                    return self.ext(inh, "::".join(segs), [], [], args, env)
                if not args:
                    self.die("call of %s without receiver" % "::".join(segs))
                p, v, t = self.ex(args[0], env)
                L.unify(t, ty, "receiver of " + "::".join(segs))
                return self.ext(inh, "::".join(segs), [v], p, args[1:], env)
            sig = self.lookup(ty, s[1], False)
            if sig is not None:
                if sig["self"]:
                    if not args:
                        self.die("call of %s without receiver" % "::".join(segs))
                    return self.call_translated(sig, args[0], args[1:], env)
                return self.call_translated(sig, None, args, env)
            self.die("unsupported call " + "::".join(segs))
        return P.PG.pcall(self, e, env, gargs)

    # ------------------------------------------------ statements
    def splice(self, blk, rest):
        if blk and blk[-1][0] == "expr" and blk[-1][1][0] == "macro" and blk[-1][1][1] == "panic":
            return list(blk)                             # panic!(..) diverges: the rest is unreachable on this path
        return P.PG.splice(self, blk, rest)

    def pure_branch(self, blk, env):
        """the statements of an `if` branch that only assigns variables (`x = e;` with an effect-free e, swap): the Gallina
        `let`s, and the set of assigned names; None if the branch is anything else"""
        env2 = self.copy(env)
        lines, names = [], []
        for st in blk:
            if st[0] == "swap":
                a, b = st[1], st[2]
                lines.append(self.swap_line(a, b, env2))
                names += [a, b]
            elif st[0] == "assign" and st[1][0] == "var" and st[2] == "=" and st[3][0] not in ("match",):
                n = st[1][1]
                if n not in env2 or not env2[n].mut:
                    return None
                p, v, t = self.ex(st[3], env2)
                if p:
                    return None
                L.unify(t, env2[n].ty, "assignment to " + n)
                lines.append("let %s := %s in" % (n, v))
                names.append(n)
            else:
                return None
        return lines, names

    def swap_line(self, a, b, env):
        for n in (a, b):
            if n not in env:
                self.die("swap of unbound variable " + n)
            if not env[n].mut:
                self.die("core::mem::swap(&mut %s, ..) of an immutable variable" % n)
        L.unify(env[a].ty, env[b].ty, "operands of core::mem::swap")
        return "let '(%s, %s) := (%s, %s) in" % (a, b, b, a)

    def stmts(self, ss, env, ctx, ind):
        pad = "  " * ind
        if not ss:
            return P.PG.stmts(self, ss, env, ctx, ind)
        s, rest = ss[0], ss[1:]
        k = s[0]
        if k == "swap":
            return pad + self.swap_line(s[1], s[2], env) + "\n" + self.stmts(rest, env, ctx, ind)
        if k == "iflet_some":
            _, x, e, a, b = s
            p, v, t = self.ex(e, env)
            elt = L.TVar(any=True)
            L.unify(t, ("option", elt), "scrutinee of if let Some(..)")
            if x in L.RESERVED or x in P.GALLINA_KEYWORDS or re.match(r"^t\d+$", x) or x == "N":
                self.die("pattern variable name %s is reserved" % x)
            inner = dict(ctx, protected=set(env.keys()) | ctx["protected"])
            env2 = self.copy(env)
            env2[x] = L.Var(elt, False, True)
            ta = self.stmts(self.splice(a, rest), env2, inner, ind + 2)
            tb = self.stmts(self.splice(b or [], rest), self.copy(env), inner, ind + 2)
            return (self.lines(p + ["match %s with" % v, "| Some %s => (" % x], pad) + "\n" + ta + "\n" + pad + "  )\n"
                    + pad + "| None => (\n" + tb + "\n" + pad + "  )\n" + pad + "end")
        if k == "if" and rest:
            # `if c { x = e; .. }` whose branches only assign variables: one joined `let` (no duplication of the rest)
            save = self.ntmp
            ra = self.pure_branch(s[2], env)
            rb = self.pure_branch(s[3] or [], env) if ra is not None else None
            if ra is not None and rb is not None and (ra[1] or rb[1]):
                p, v, t = self.ex(s[1], env)
                L.unify(t, "bool", "if condition")
                names = [n for n in env if n in set(ra[1]) | set(rb[1])]
                tup = self.tup(names)
                line = "let %s := (if %s then (%s) else (%s)) in" % (
                    self.pat(names), v, " ".join(ra[0] + [tup]), " ".join(rb[0] + [tup]))
                return self.lines(p + [line], pad) + "\n" + self.stmts(rest, env, ctx, ind)
            self.ntmp = save
        return P.PG.stmts(self, ss, env, ctx, ind)

    def assigned(self, blk):
        out = set()
        for s in blk or []:
            if s[0] == "swap":
                out |= {s[1], s[2]}
            elif s[0] == "iflet_some":
                out |= self.assigned(s[3]) | self.assigned(s[4])
            else:
                out |= P.PG.assigned(self, [s])
        return out


# ---------------------------------------------------------------- source access and checks

def read(path):
    p = os.path.join(REPO, path)
    if not os.path.exists(p):
        die("source file %s not found" % p)
    return L.strip_comments(open(p).read())


def block_at(txt, i, what):
    """txt[i] is '{': the text of the balanced block starting there"""
    d, e = 0, i
    while True:
        if e >= len(txt):
            die("%s: unbalanced braces" % what)
        d += {"{": 1, "}": -1}.get(txt[e], 0)
        e += 1
        if d == 0:
            return txt[i:e]


def impl_body(body, header, path):
    ms = list(re.finditer(header, body))
    if len(ms) != 1:
        die("%s: expected exactly one `%s`, found %d" % (path, re.sub(r"\\s\*|\\s\+", " ", header).replace("\\", ""), len(ms)))
    return block_at(body, ms[0].end() - 1, path)


def local_macros(body, path):
    """`macro_rules! name { ($p: ident) => { .. }; }` defined inside the numtraits! macro body (check_zero_or_one): name ->
    (the parameter token, the tokens of the transcriber including its braces)"""
    out = {}
    for m in re.finditer(r"macro_rules!\s*(\w+)\s*\{\s*\(\s*(\$\w+)\s*:\s*ident\s*\)\s*=>\s*\{", body):
        blk = block_at(body, m.end() - 1, path)
        rest = body[m.end() - 1 + len(blk):]
        if not re.match(r"\s*;?\s*\}", rest):
            die("%s: macro %s has more than one rule" % (path, m.group(1)))
        out[m.group(1)] = (m.group(2), P.tokenize(blk))
    return out


def inherent_kinds(ty, name):
    """how the inherent fns called `name` of $BUint / $BInt take self, over all source files of the type's inherent impls"""
    found = []
    for d in ({"buint": "src/buint", "bint": "src/bint"}[ty], "src/int"):
        full = os.path.join(REPO, d)
        if not os.path.isdir(full):
            die("source directory %s not found" % full)
        for f in sorted(os.listdir(full)):
            if not f.endswith(".rs") or f == "numtraits.rs":
                continue
            for m in re.finditer(r"\bpub(?:\s*\([^)]*\))?\s+(?:const\s+)?(?:unsafe\s+)?fn\s+%s\s*(?:<[^>()]*>)?\s*\(\s*((?:&\s*)?(?:mut\s+)?self\b)?" % re.escape(name),
                                 read(d + "/" + f)):
                g = m.group(1)
                found.append("static" if g is None else ("ref" if g.startswith("&") else "val"))
    return found


def global_checks():
    """the definitions the translation scheme relies on (a change is a global failure)"""
    dsrc = read("src/digit.rs")
    L.check_digit_consts(dsrc)
    if not re.search(r"\btype\s+ExpType\s*=\s*u32\s*;", read("src/lib.rs")):
        die("src/lib.rs: `type ExpType = u32` has changed")
    msrc = read("src/bint/mod.rs")
    if not re.search(r"pub\s+struct\s+\$BInt\s*<\s*const\s+N\s*:\s*usize\s*>\s*\{\s*(pub\s*(\([^)]*\))?\s*)?bits\s*:\s*\$BUint\s*<\s*N\s*>\s*,?\s*\}", msrc):
        die("src/bint/mod.rs: `struct $BInt<const N: usize> { bits: $BUint<N> }` has changed")
    if not re.search(r"fn\s+from_bits\s*\(\s*bits\s*:\s*\$BUint\s*<\s*N\s*>\s*\)\s*->\s*Self\s*\{\s*Self\s*\{\s*bits\s*\}\s*\}", msrc):
        die("src/bint/mod.rs: `from_bits(bits) -> Self { Self { bits } }` has changed")
    if not re.search(r"fn\s+to_bits\s*\(\s*self\s*\)\s*->\s*\$BUint\s*<\s*N\s*>\s*\{\s*self\s*\.\s*bits\s*\}", msrc):
        die("src/bint/mod.rs: `to_bits(self) -> $BUint<N> { self.bits }` has changed")
    usrc = read("src/buint/mod.rs")
    if not re.search(r"pub\s+struct\s+\$BUint\s*<\s*const\s+N\s*:\s*usize\s*>\s*\{\s*(#\[[^\]]*\]\s*)*(pub\s*(\([^)]*\))?\s*)?digits\s*:\s*\[\s*\$Digit\s*;\s*N\s*\]\s*,?\s*\}", usrc):
        die("src/buint/mod.rs: `struct $BUint<const N: usize> { digits: [$Digit; N] }` has changed")
    csrc = read("src/buint/consts.rs")
    if not re.search(r"macro_rules!\s*pos_const\s*\{\s*\(\s*\$\(\s*\$name\s*:\s*ident\s+\$num\s*:\s*literal\s*\)\s*,\s*\*\s*\)\s*=>\s*\{\s*\$\(\s*"
                     r"(#\[[^\]]*\]\s*)*pub\s+const\s+\$name\s*:\s*Self\s*=\s*Self\s*::\s*from_digit\s*\(\s*\$num\s*\)\s*;\s*\)\s*\*\s*\}", csrc):
        die("src/buint/consts.rs: macro pos_const (`pub const $name: Self = Self::from_digit($num);`) has changed")
    if not re.search(r"pos_const!\s*\(\s*ONE\s+1\s*,", csrc):
        die("src/buint/consts.rs: `pos_const!(ONE 1, ..)` has changed")
    isrc = read("src/bint/consts.rs")
    if not re.search(r"pub\s+const\s+ZERO\s*:\s*Self\s*=\s*Self\s*::\s*from_bits\s*\(\s*\$BUint\s*::\s*ZERO\s*\)\s*;", isrc):
        die("src/bint/consts.rs: `ZERO = Self::from_bits($BUint::ZERO)` has changed")
    if not re.search(r"pub\s+const\s+ONE\s*:\s*Self\s*=\s*Self\s*::\s*from_bits\s*\(\s*\$BUint\s*::\s*ONE\s*\)\s*;", isrc):
        die("src/bint/consts.rs: `ONE = Self::from_bits($BUint::ONE)` has changed")
    # `a -= b` on Self is `*self = Sub::sub(*self, rhs)`
    osrc = read("src/int/ops.rs")
    if not re.search(r"macro_rules!\s*assign_op_impl\s*\{\s*\(\s*\$OpTrait\s*:\s*ident\s*,\s*\$AssignTrait\s*:\s*ident\s*<\s*\$rhs\s*:\s*ty\s*>\s*for\s*\$Struct\s*:\s*ident\s*,"
                     r"\s*\$assign\s*:\s*ident\s*,\s*\$op\s*:\s*ident\s*\)\s*=>\s*\{\s*impl\s*<\s*const\s+N\s*:\s*usize\s*>\s*\$AssignTrait\s*<\s*\$rhs\s*>\s*for\s*\$Struct\s*<\s*N\s*>\s*\{"
                     r"\s*(#\[[^\]]*\]\s*)*fn\s+\$assign\s*\(\s*&\s*mut\s+self\s*,\s*rhs\s*:\s*\$rhs\s*\)\s*\{\s*\*\s*self\s*=\s*\$OpTrait\s*::\s*\$op\s*\(\s*\*\s*self\s*,\s*rhs\s*\)\s*;\s*\}", osrc):
        die("src/int/ops.rs: macro assign_op_impl (`*self = $OpTrait::$op(*self, rhs);`) has changed")
    if not re.search(r"assign_op_impl!\s*\(\s*Sub\s*,\s*SubAssign\s*<\s*\$Struct\s*<\s*N\s*>\s*>\s*for\s*\$Struct\s*,\s*sub_assign\s*,\s*sub\s*\)\s*;", osrc):
        die("src/int/ops.rs: `assign_op_impl!(Sub, SubAssign<$Struct<N>> for $Struct, sub_assign, sub);` has changed")
    # `.into()` from u32 / u128: From<$uint> for $BUint<N> is instantiated for both
    vsrc = read("src/buint/convert.rs")
    m = re.search(r"(?<![\w!])from_uint!\s*\(\s*\$BUint\s*,\s*\$Digit\s*;([^()]*)\)\s*;", vsrc)
    tys = [x.strip() for x in m.group(1).split(",")] if m else []
    if "u32" not in tys or "u128" not in tys:
        die("src/buint/convert.rs: `from_uint!($BUint, $Digit; .., u32, .., u128, ..)` (From<u32> / From<u128> for $BUint<N>) has changed")
    return L.digit_sigs(dsrc)


def check_resolution(wanted_names):
    """the self kinds of the INHERENT table are what the source says; no inherent fn shadows a translated trait method unnoticed"""
    for (ty, name), entry in sorted(INHERENT.items()):
        if entry[0].startswith("trait"):
            if inherent_kinds(ty, name):
                die("an inherent fn %s now exists for %s: the call of the trait method of that name may resolve differently" % (name, ty))
            continue
        kinds = inherent_kinds(ty, name)
        if kinds != [entry[0]]:
            die("the inherent fn %s of %s: expected one definition taking self as `%s`, found %s" % (name, ty, entry[0], kinds or "none"))
    for ty, name in sorted(wanted_names):
        if (ty, name) not in INHERENT and inherent_kinds(ty, name):
            die("an inherent fn %s exists for %s besides the translated trait method: method resolution is not modelled for it" % (name, ty))


# ---------------------------------------------------------------- driver

def parse_sig(name, generics, params, ret, selfty, trait):
    sig = {"self": False, "selfkind": "static", "params": [], "generics": [], "mut": set(), "refs": set(), "selfty": selfty,
           "rust": name, "callable": True, "mutref": False, "dbg": False, "prim": None, "trait": trait is not None}
    tparams = {}
    where = None
    if ret is not None and re.search(r"\bwhere\b", ret):
        ret, where = re.split(r"\bwhere\b", ret, 1)
    if generics:
        for g in generics.strip()[1:-1].split(","):
            g = g.strip()
            if not re.match(r"^[A-Z]\w*$", g):
                die("fn %s: unsupported generic parameter %s" % (name, g))
            tparams[g] = None
    if where is not None:
        for m in re.finditer(r"(\w+)\s*:\s*Fn\s*\(([^()]*)\)\s*->\s*([^,]+),?", where):
            if m.group(1) not in tparams:
                die("fn %s: where clause about %s, which is not a type parameter" % (name, m.group(1)))
            args = tuple(NP(P.tokenize(a), selfty).type_() for a in m.group(2).split(",") if a.strip())
            tparams[m.group(1)] = ("fn", args, NP(P.tokenize(m.group(3)), selfty).type_())
        if re.sub(r"(\w+)\s*:\s*Fn\s*\(([^()]*)\)\s*->\s*([^,]+),?", "", where).strip():
            die("fn %s: unsupported where clause" % name)
    for g, t in tparams.items():
        if t is None:
            die("fn %s: type parameter %s without an `Fn(..) -> ..` bound" % (name, g))
    t = NP(P.tokenize(params), selfty)
    first = True
    while t.peek() is not None:
        if first and (t.peek() == "self" or (t.peek() in ("&", "mut") and t.peek(1) == "self")):
            if t.peek() == "mut":
                t.eat()
                sig["mut"].add("self")
                sig["selfkind"] = "val"
            elif t.peek() == "&":
                t.eat()
                sig["selfkind"] = "ref"
                sig["refs"].add("self")
            else:
                sig["selfkind"] = "val"
            t.eat("self")
            sig["self"] = True
        elif t.peek() == "&" and t.peek(1) == "mut":
            die("fn %s: `&mut` parameters are not supported" % name)
        else:
            mut = False
            if t.peek() == "mut":
                t.eat()
                mut = True
            pn = t.ident()
            t.eat(":")
            if t.peek() in tparams:
                ty = tparams[t.eat()]
            else:
                if t.peek() == "&":
                    sig["refs"].add(pn)
                ty = t.type_()
            if mut:
                sig["mut"].add(pn)
            sig["params"].append((pn, ty))
        first = False
        if t.peek() == ",":
            t.eat(",")
        elif t.peek() is not None:
            die("fn %s: cannot parse the parameter list" % name)
    if ret is None:
        die("fn %s: no return type" % name)
    r = NP(P.tokenize(ret), selfty)
    sig["ret"] = r.type_()
    if r.peek() is not None:
        die("fn %s: cannot parse the return type %s" % (name, ret.strip()))
    return sig


def translate_one(coq, fns, sigs, dsigs, macros):
    path, rust, body = fns[coq]
    sig = sigs[coq]
    toks = P.tokenize(body)
    pp = NP(toks, sig["selfty"], macros[path])
    ast = pp.block()
    if pp.peek() is not None:
        die("fn %s: trailing tokens after the body" % rust)
    allids = P.idents_of(toks)
    for _, mtoks in macros[path].values():
        allids |= P.idents_of(mtoks)
    rn = NR(rust, allids)
    outer = set(n for n, _ in sig["params"]) | ({"self"} if sig["self"] else set())
    for n in outer:
        if n in P.GALLINA_KEYWORDS or n in L.RESERVED:
            die("fn %s: parameter name %s is reserved" % (rust, n))
    ast = rn.block(ast, set(), {}, outer)
    tvs, txt, g = {}, None, None
    for final in (False, True):
        g = NG(coq, sigs, dsigs, {}, tvs, final)
        g.refvars = set(sig["refs"])
        env = {}
        ctx = {"loop": None, "protected": set()}
        if sig["self"]:
            env["self"] = L.Var(sig["selfty"], "self" in sig["mut"])
        for pn, pt in sig["params"]:
            g.declare(env, pn, pt, pn in sig["mut"], ctx)
        txt = g.stmts(ast, env, ctx, 1)
        sig["dbg"] = g.uses_dbg
    argl = " (self : list Z)" if sig["self"] else ""
    argl += "".join(" (%s : %s)" % (n, coq_ty(t)) for n, t in sig["params"])
    return "(* %s: %s fn %s *)\nDefinition %s %s(w N : Z) (fuel : nat)%s : res %s :=\n%s.\n" % (
        path, ("impl %s for %s:" % (sig["traitname"], {"buint": "$BUint<N>", "bint": "$BInt<N>"}[sig["selfty"]])) if sig["trait"] else "inherent",
        rust, coq, "(dbg : bool) " if sig["dbg"] else "", argl, res_arg(sig["ret"]), txt)


HEADER = ["(* GENERATED on every run by tools/rs2v_nt.py from /repo/src/buint/numtraits.rs and /repo/src/bint/numtraits.rs (impl Integer,",
          "   the PrimInt shifts, fixpoint, impl Roots, impl Signed).  Do not edit.  Proofs/NtGenTie*.v prove the functions equal to the",
          "   hand-written model Model/NumTraits.v.  Vocabulary: Model/Imp.v (control flow; a closure / `F: Fn(Self) -> Self` parameter is",
          "   a Gallina function into `res`), `udiv` of Model/ImpParse.v, Prim.v.  Called by their hand-model names (tied elsewhere, see",
          "   tools/NT_TRANSLATOR.md): the inherent methods and operators of $BUint / $BInt (Core, Shift, AddSub, Mul, Div, Bits, Pow, Ops),",
          "   NumTraits.U_to_u128, NumTraits.U_from_u32 / U_from_u128; MODELLED BY ITS SPECIFICATION: num-integer's Roots for u128",
          "   (NumTraits.zroot). *)",
          "From Bnum Require Import Base Prim.",
          "From Bnum.Model Require Import DigitPrims LoopPrims Core Imp ImpParse.",
          "From Bnum.Model Require AddSub Bits Div Mul Pow Shift Ops NumTraits.", "", "Module NtGen.", ""]
OUTFILE = os.path.join(ROOT, "coq", "Generated", "NtGen.v")


def write(txt):
    if not os.path.exists(OUTFILE) or open(OUTFILE).read() != txt:
        open(OUTFILE, "w").write(txt)


def stub(path, rust, coq, why):
    return "(* %s: fn %s  -- NOT TRANSLATED: %s *)\nDefinition %s : unit := tt.\n" % (
        path, rust, why.replace("*)", "* )").replace("(*", "( *"), coq)


def main():
    group = sys.argv[sys.argv.index("--for") + 1] if "--for" in sys.argv else None
    failed, fns, sigs, texts = {}, {}, {}, {}
    dsigs = global_checks()
    bodies, macros = {}, {}
    for path in (U, I):
        txt = read(path)
        bodies[path] = P.macro_body(txt, path)
        macros[path] = local_macros(bodies[path], path)
        # every fn of the file is wanted or skipped with a reason
        known = set(w[3] for w in WANTED if w[0] == path) | set(SKIP[path])
        for m in re.finditer(r"\bfn\s+(\$?\w+)", txt):
            if m.group(1) not in known:
                die("%s: fn %s is neither translated nor in the SKIP table" % (path, m.group(1)))
    check_resolution(set((L.selfty_of(w[0]), w[3]) for w in WANTED if w[2] is not None))
    for path, header, trait, rust, coq in WANTED:
        try:
            ib = impl_body(bodies[path], header, path)
            generics, params, ret, body = L.find_fn(ib, None, rust, path)
            sg = parse_sig(rust, generics, params, ret, L.selfty_of(path), trait)
            sg["coq"] = coq
            sg["traitname"] = trait
            fns[coq] = (path, rust, body)
            sigs[coq] = sg
        except (SystemExit, Exception) as ex:
            failed[coq] = LAST_MSG[0] if isinstance(ex, SystemExit) else repr(ex)
    # a function that calls an untranslatable function is untranslatable too: iterate to a fixpoint
    while True:
        again = False
        for path, header, trait, rust, coq in WANTED:
            if coq in failed:
                continue
            try:
                texts[coq] = translate_one(coq, fns, sigs, dsigs, macros)
            except (SystemExit, Exception) as ex:
                failed[coq] = LAST_MSG[0] if isinstance(ex, SystemExit) else repr(ex)
                sigs.pop(coq, None)
                again = True
        if not again:
            break
    out = list(HEADER)
    for path, header, trait, rust, coq in WANTED:
        out.append(texts[coq] if coq not in failed else stub(path, rust, coq, failed[coq]))
    out.append("End NtGen.")
    write("\n".join(out) + "\n")
    if failed:
        hit = [f for f in failed if group is None or f in GROUPS.get(group, [])]
        sys.stderr.write("rs2v_nt: not translated (stub emitted, its tie lemma will not check): %s\n" % ", ".join(sorted(failed)))
        return 1 if hit else 0
    return 0


if __name__ == "__main__":
    try:
        rc = main()
    except SystemExit as ex:                              # a global failure: every function is a stub
        if LAST_MSG[0] == "":
            raise
        write("\n".join(HEADER + [stub(w[0], w[3], w[4], "(global failure) " + LAST_MSG[0]) for w in WANTED] + ["End NtGen."]) + "\n")
        group = sys.argv[sys.argv.index("--for") + 1] if "--for" in sys.argv else None
        rc = 1 if group is None or group in GROUPS else 0
    sys.exit(rc)

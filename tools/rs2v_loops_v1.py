#!/usr/bin/env python3
"""tools/rs2v_loops.py — TRANSLATOR: the LOOP functions of bnum's arithmetic core  ->  coq/Generated/Loops.v

Reads $BNUM_REPO (default /repo) src/buint/{overflowing,const_trait_fillers,mul,mod,ops,checked}.rs, takes the
`const fn`s listed in WANTED out of their `macro_rules!` bodies and translates each into a Gallina function over
the control-flow vocabulary of coq/Model/Imp.v (res monad, arr_get/arr_set, usub, while_loop on explicit fuel) and
the primitive vocabulary of coq/Prim.v, coq/Model/DigitPrims.v, coq/Model/LoopPrims.v, coq/Generated/DigitGen.v.
coq/Proofs/LoopsTie.v proves every generated function equal to the hand-written model, for all inputs: an edit of
the Rust source that changes behaviour breaks a proof obligation.  Anything outside the supported subset makes the
translator fail loudly (exit 1).  See tools/LOOPS_TRANSLATOR.md for the subset and the translation scheme."""
import re, sys, os
sys.path.insert(0, os.path.dirname(os.path.abspath(__file__)))
import rs2v_digit as _dig          # the expression parser (precedence climbing) is reused from rs2v_digit.P

REPO = os.environ.get("BNUM_REPO", "/repo")
ROOT = os.path.dirname(os.path.dirname(os.path.abspath(__file__)))

# (source file, anchor regex the search for the fn starts after (or None), Rust fn name, Gallina name)
WANTED = [
    ("src/buint/overflowing.rs", None, "overflowing_add", "overflowing_add"),
    ("src/buint/overflowing.rs", None, "overflowing_sub", "overflowing_sub"),
    ("src/buint/const_trait_fillers.rs", None, "bitand", "bitand"),
    ("src/buint/const_trait_fillers.rs", None, "bitor", "bitor"),
    ("src/buint/const_trait_fillers.rs", None, "bitxor", "bitxor"),
    ("src/buint/const_trait_fillers.rs", None, "not", "not_"),
    ("src/buint/const_trait_fillers.rs", None, "eq", "eq_"),
    ("src/buint/const_trait_fillers.rs", None, "cmp", "cmp"),
    ("src/buint/mul.rs", None, "long_mul", "long_mul"),
    ("src/buint/mod.rs", None, "count_ones", "count_ones"),
    ("src/buint/mod.rs", None, "count_zeros", "count_zeros"),
    ("src/buint/mod.rs", None, "leading_zeros", "leading_zeros"),
    ("src/buint/mod.rs", None, "trailing_zeros", "trailing_zeros"),
    ("src/buint/mod.rs", None, "leading_ones", "leading_ones"),
    ("src/buint/mod.rs", None, "trailing_ones", "trailing_ones"),
    ("src/buint/mod.rs", None, "is_power_of_two", "is_power_of_two"),
    ("src/buint/mod.rs", None, "is_zero", "is_zero"),
    ("src/buint/mod.rs", None, "is_one", "is_one"),
    ("src/buint/mod.rs", None, "last_digit_index", "last_digit_index"),
    ("src/buint/mod.rs", None, "unchecked_shl_internal", "unchecked_shl_internal"),
    ("src/buint/mod.rs", None, "unchecked_shr_pad_internal", "unchecked_shr_pad_internal"),
    ("src/buint/mod.rs", None, "rotate_digits_left", "rotate_digits_left"),
    ("src/buint/mod.rs", None, "unchecked_rotate_left", "unchecked_rotate_left"),
    ("src/buint/mod.rs", None, "swap_bytes", "swap_bytes"),
    ("src/buint/mod.rs", None, "reverse_bits", "reverse_bits"),
    ("src/buint/ops.rs", r"impl\s*<\s*const\s+N\s*:\s*usize\s*>\s*Add\s*<\s*\$Digit\s*>\s*for\s*\$BUint\s*<\s*N\s*>", "add", "add_digit"),
    ("src/buint/checked.rs", None, "div_rem_digit", "div_rem_digit"),
]

# which property's tie file (Proofs/LoopsTie<group>.v) is about which generated function: a function that cannot be
# translated is replaced by a stub (so only ITS tie breaks), and with `--for Cxx` the exit status is non-zero only when a
# function of that group (or something global: a constant definition, a missing file) could not be translated
GROUPS = {
    "C01": ["overflowing_add", "overflowing_sub", "add_digit"],
    "C02": ["long_mul"],
    "C03": ["div_rem_digit", "last_digit_index"],
    "C05": ["unchecked_shl_internal", "unchecked_shr_pad_internal", "rotate_digits_left", "unchecked_rotate_left", "swap_bytes",
            "reverse_bits"],
    "C06": ["bitand", "bitor", "bitxor", "not_", "eq_", "cmp", "count_ones", "count_zeros", "leading_zeros", "trailing_zeros",
            "leading_ones", "trailing_ones", "is_power_of_two", "is_zero", "is_one"],
}
LAST_MSG = [""]


def die(msg):
    LAST_MSG[0] = msg
    sys.stderr.write("rs2v_loops: " + msg + "\n")
    sys.exit(1)


# ---------------------------------------------------------------- lexing

def strip_comments(s):
    """removes // and /* */ comments (string- and char-literal aware); keeps everything else"""
    out, i, n = [], 0, len(s)
    while i < n:
        c = s[i]
        if c == '"':
            j = i + 1
            while j < n and s[j] != '"':
                j += 2 if s[j] == "\\" else 1
            out.append(s[i:j + 1])
            i = j + 1
        elif c == "'" and re.match(r"'(\\.|[^\\'])'", s[i:i + 4]):
            m = re.match(r"'(\\.|[^\\'])'", s[i:i + 4])
            out.append(m.group(0))
            i += m.end()
        elif s.startswith("//", i):
            j = s.find("\n", i)
            i = n if j < 0 else j
        elif s.startswith("/*", i):
            j = s.find("*/", i + 2)
            if j < 0:
                die("unterminated block comment")
            i = j + 2
        else:
            out.append(c)
            i += 1
    return "".join(out)


TOK = re.compile(r"\s*(?:(\d[\d_]*)|(\$?[A-Za-z_][A-Za-z0-9_]*!?)|(<<=|>>=|<<|>>|\|\||&&|!=|==|<=|>=|->|::|\+=|-=|\*=|/=|%=|\|=|&=|\^=|[-+*/%|&^<>!=(){}\[\],;:.#]))")


def tokenize(s):
    out, i = [], 0
    while i < len(s):
        m = TOK.match(s, i)
        if not m:
            if s[i:].strip() == "":
                break
            die("cannot tokenize near: " + s[i:i + 40].strip())
        i = m.end()
        out.append(m.group(1) or m.group(2) or m.group(3))
    return out


# ---------------------------------------------------------------- parsing
# AST nodes are Python lists (distinct objects: the type pass keys information on id(node)).

ASSIGN_OPS = ("=", "+=", "-=", "|=", "&=", "^=", "*=", "/=", "%=", "<<=", ">>=")
IDENT = re.compile(r"^\$?[A-Za-z_]\w*$")
KEYWORDS = {"let", "mut", "while", "if", "else", "break", "return", "unsafe", "as", "for", "loop", "match", "fn",
            "continue", "in", "true", "false", "const", "static", "struct", "impl", "move", "ref"}


class LP(_dig.P):
    """Parser for function bodies.  Inherits peek / expr (binary-operator precedence climbing, LEVELS) from
    rs2v_digit.P; statements, unary operators, paths, indexing, types are defined here."""

    def eat(self, x=None):
        v = self.peek()
        if x is not None and v != x:
            die("expected %r, got %r (token %d: ... %s)" % (x, v, self.i, " ".join(self.t[max(0, self.i - 6):self.i + 3])))
        if v is None:
            die("unexpected end of input")
        self.i += 1
        return v

    def ident(self):
        v = self.eat()
        if not IDENT.match(v) or v in KEYWORDS:
            die("expected identifier, got %r" % v)
        return v

    # ---- types
    def type_(self):
        v = self.peek()
        if v == "&":
            self.eat()
            if self.peek() == "mut":
                die("&mut types are not supported")
            return self.type_()
        if v == "(":
            self.eat("(")
            ts = [self.type_()]
            while self.peek() == ",":
                self.eat(",")
                ts.append(self.type_())
            self.eat(")")
            return tuple(ts)
        name = self.ident()
        if name in ("usize", "bool", "ExpType", "Ordering"):
            return {"Ordering": "ordering"}.get(name, name)
        if name == "u32":
            return "ExpType"
        if name == "$Digit":
            return "Digit"
        if name == "Self":
            return "buint"
        if name == "$BUint":
            self.eat("<"), self.eat("N"), self.eat(">")
            return "buint"
        die("unsupported type %s" % name)

    # ---- statements
    def block(self):
        """'{' stmt* [expr] '}' -> list of statements; a value-producing tail is ['expr', e]"""
        self.eat("{")
        stmts = []
        while self.peek() != "}":
            if stmts and stmts[-1][0] == "expr":
                die("expression statement without ';' in the middle of a block")
            stmts.append(self.stmt())
        self.eat("}")
        return stmts

    def stmt(self):
        v = self.peek()
        if v == "#":                                   # attribute: skipped
            self.eat("#")
            self.eat("[")
            d = 1
            while d:
                x = self.eat()
                d += {"[": 1, "]": -1}.get(x, 0)
            return self.stmt()
        if v == "let":
            self.eat("let")
            pat = self.pattern()
            ty = None
            if self.peek() == ":":
                self.eat(":")
                ty = self.type_()
            init = None
            if self.peek() == "=":
                self.eat("=")
                init = self.expr()
            self.eat(";")
            return ["let", pat, ty, init]
        if v == "while":
            self.eat("while")
            c = self.expr()
            return ["while", c, self.block()]
        if v == "if":
            s = self.if_()
            if self.peek() == ";":
                self.eat(";")
            return s
        if v == "break":
            self.eat("break")
            self.eat(";")
            return ["break"]
        if v == "return":
            self.eat("return")
            e = None if self.peek() == ";" else self.expr()
            self.eat(";")
            return ["return", e]
        if v == "unsafe" or v == "{":
            if v == "unsafe":
                self.eat("unsafe")
            b = self.block()
            if self.peek() == ";":
                self.eat(";")
            return ["block", b]
        if v in ("for", "loop", "match", "continue"):
            die("unsupported statement: %s" % v)
        if v == "debug_assert!" or v == "assert!" or (v is not None and v.endswith("!")):
            die("macro invocation %s is not supported" % v)
        e = self.expr()
        if self.peek() in ASSIGN_OPS:
            op = self.eat()
            r = self.expr()
            self.eat(";")
            return ["assign", e, op, r]
        if self.peek() == ";":
            self.eat(";")
            die("expression statement with no effect / unsupported: %s" % (e,))
        return ["expr", e]

    def if_(self):
        self.eat("if")
        c = self.expr()
        a = self.block()
        b = None
        if self.peek() == "else":
            self.eat("else")
            b = [self.if_()] if self.peek() == "if" else self.block()
        return ["if", c, a, b]

    def pattern(self):
        def one():
            mut = False
            if self.peek() == "mut":
                self.eat("mut")
                mut = True
            return (self.ident(), mut)
        if self.peek() == "(":
            self.eat("(")
            ns = [one()]
            while self.peek() == ",":
                self.eat(",")
                ns.append(one())
            self.eat(")")
            return ["ptuple", ns]
        return ["pid", one()]

    # ---- expressions: binary levels inherited; `as` > unary > postfix > primary
    def cast(self):
        e = self.unary()
        while self.peek() == "as":
            self.eat("as")
            e = ["as", e, self.type_()]
        return e

    def unary(self):
        v = self.peek()
        if v in ("!", "&", "-", "*"):
            self.eat()
            if v == "&" and self.peek() == "mut":
                die("&mut is not supported")
            return ["un", v, self.unary()]
        return self.postfix()

    def args(self):
        self.eat("(")
        a = []
        while self.peek() != ")":
            a.append(self.expr())
            if self.peek() == ",":
                self.eat(",")
            elif self.peek() != ")":
                die("expected ',' or ')' in argument list, got %r" % self.peek())
        self.eat(")")
        return a

    def postfix(self):
        e = self.primary()
        while True:
            if self.peek() == ".":
                self.eat(".")
                name = self.eat()
                if re.match(r"^\d+$", name):
                    e = ["field", e, name]
                elif not IDENT.match(name):
                    die("bad field / method name %r" % name)
                elif self.peek() == "(":
                    e = ["mcall", e, name, self.args()]
                elif self.peek() == "::":
                    die("generic arguments on method calls (::<..>) are not supported")
                else:
                    e = ["field", e, name]
            elif self.peek() == "[":
                self.eat("[")
                ix = self.expr()
                self.eat("]")
                e = ["index", e, ix]
            else:
                return e

    def primary(self):
        v = self.peek()
        if v == "(":
            self.eat("(")
            es = [self.expr()]
            trailing = False
            while self.peek() == ",":
                self.eat(",")
                if self.peek() == ")":
                    trailing = True
                    break
                es.append(self.expr())
            self.eat(")")
            return es[0] if len(es) == 1 and not trailing else ["tuple", es]
        if v == "if":
            s = self.if_()
            return ["ifx", s[1], s[2], s[3]]
        if v == "unsafe":
            self.eat("unsafe")
            return ["blockx", self.block()]
        if v == "{":
            return ["blockx", self.block()]
        if v is not None and re.match(r"^\d[\d_]*$", v):
            self.eat()
            return ["lit", int(v.replace("_", ""))]
        if v in ("true", "false"):
            self.eat()
            return ["bool", v == "true"]
        if v is not None and IDENT.match(v) and v not in KEYWORDS:
            segs = [self.eat()]
            while self.peek() == "::":
                self.eat("::")
                if self.peek() == "<":
                    die("generic arguments in paths (::<..>) are not supported")
                segs.append(self.ident())
            if self.peek() == "(":
                return ["pcall", segs, self.args()]
            if len(segs) == 1:
                return ["var", segs[0]]
            return ["path", segs]
        die("unexpected token %r (... %s)" % (v, " ".join(self.t[max(0, self.i - 6):self.i + 3])))


# ---------------------------------------------------------------- types

class TVar:
    """the not-yet-determined type of an integer literal"""
    def __init__(self):
        self.ref = None


def rs(t):
    while isinstance(t, TVar) and t.ref is not None:
        t = t.ref
    return t


INTS = ("Digit", "usize", "ExpType")


def is_int(t):
    t = rs(t)
    return isinstance(t, TVar) or t in INTS


def unify(a, b, what):
    a, b = rs(a), rs(b)
    if a is b:
        return a
    if isinstance(a, TVar):
        if not is_int(b):
            die("type mismatch in %s: integer vs %s" % (what, show(b)))
        a.ref = b
        return b
    if isinstance(b, TVar):
        return unify(b, a, what)
    if isinstance(a, tuple) and isinstance(b, tuple) and len(a) == len(b):
        return tuple(unify(x, y, what) for x, y in zip(a, b))
    if a != b:
        die("type mismatch in %s: %s vs %s" % (what, show(a), show(b)))
    return a


def show(t):
    t = rs(t)
    if isinstance(t, TVar):
        return "{integer}"
    if isinstance(t, tuple):
        return "(" + ", ".join(show(x) for x in t) + ")"
    return t


def coq_ty(t):
    t = rs(t)
    if isinstance(t, tuple):
        return "(" + " * ".join(coq_ty(x) for x in t) + ")"
    if isinstance(t, TVar) or t in INTS:
        return "Z"
    return {"bool": "bool", "buint": "list Z", "ordering": "comparison"}[t]


DIGIT_METHODS = {   # Digit method -> (Gallina head applied to the receiver, result type)
    "count_ones": ("u_count_ones", "ExpType"), "count_zeros": ("u_count_zeros w", "ExpType"),
    "leading_zeros": ("u_leading_zeros w", "ExpType"), "trailing_zeros": ("u_trailing_zeros w", "ExpType"),
    "leading_ones": ("u_leading_ones w", "ExpType"), "trailing_ones": ("u_trailing_ones w", "ExpType"),
    "swap_bytes": ("u_swap_bytes w", "Digit"), "reverse_bits": ("u_reverse_bits w", "Digit"),
}
RESERVED = {"w", "N", "fuel"}


class Var:
    def __init__(self, ty, mut):
        self.ty, self.mut = ty, mut


class Gen:
    """One instance per translated function; run twice (pass 1 determines the types of integer literals)."""

    def __init__(self, fname, sigs, digit_sigs, consts, tvs, final):
        self.fname, self.sigs, self.digit_sigs, self.consts = fname, sigs, digit_sigs, consts
        self.tvs, self.final = tvs, final
        self.ntmp = 0
        self.ret = sigs[fname]["ret"]

    def die(self, msg):
        die("in fn %s: %s" % (self.fname, msg))

    def tmp(self):
        self.ntmp += 1
        return "t%d'" % self.ntmp

    def tv(self, node):
        if id(node) not in self.tvs:
            self.tvs[id(node)] = (node, TVar())          # keep the node alive: ids stay unique
        return self.tvs[id(node)][1]

    def need(self, t, what):
        """the concrete type of an integer operand; only known for sure in the final pass"""
        t = rs(t)
        if isinstance(t, TVar):
            if self.final:
                self.die("cannot determine the integer type of " + what)
            return "usize"
        return t

    # ------------------------------------------------ expressions: returns (prelude lines, value, type)
    def ex(self, e, env):
        k = e[0]
        if k == "var":
            n = e[1]
            if n == "N":
                return [], "N", "usize"
            if n not in env:
                self.die("unbound variable " + n)
            return [], n, env[n].ty
        if k == "lit":
            return [], str(e[1]), self.tv(e)
        if k == "bool":
            return [], "true" if e[1] else "false", "bool"
        if k == "path":
            return self.path(e[1], env)
        if k == "tuple":
            pre, vs, ts = [], [], []
            for x in e[1]:
                p, v, t = self.ex(x, env)
                pre += p
                vs.append(v)
                ts.append(t)
            return pre, "(" + ", ".join(vs) + ")", tuple(ts)
        if k == "field":
            p, v, t = self.ex(e[1], env)
            t = rs(t)
            if not (isinstance(t, tuple) and len(t) == 2 and e[2] in ("0", "1")):
                self.die("unsupported field access .%s on %s" % (e[2], show(t)))
            return p, "(%s %s)" % ("fst" if e[2] == "0" else "snd", v), t[int(e[2])]
        if k == "index":
            arr = self.array_of(e[1], env)
            p, v, t = self.ex(e[2], env)
            unify(t, "usize", "array index")
            x = self.tmp()
            return p + ["%s <- arr_get %s %s ;;" % (x, arr, v)], x, "Digit"
        if k == "un":
            op = e[1]
            if op == "&":
                return self.ex(e[2], env)
            p, v, t = self.ex(e[2], env)
            if op == "!":
                if rs(t) == "bool":
                    return p, "(negb %s)" % v, "bool"
                if self.need(t, "operand of !") == "Digit":
                    return p, "(u_not w %s)" % v, "Digit"
                self.die("unsupported operand type for !: " + show(t))
            self.die("unsupported unary operator " + op)
        if k == "as":
            p, v, t = self.ex(e[1], env)
            dst = e[2]
            src = rs(t)
            if isinstance(src, TVar):
                unify(src, dst, "cast")
                return p, v, dst
            # usize <-> u32 (ExpType): identity on the values that occur (model convention: both are plain Z;
            # Rust's usize is at least 32 bits on every supported target, and u32 -> usize never truncates)
            if src in ("usize", "ExpType") and dst in ("usize", "ExpType"):
                return p, v, dst
            if src == dst:
                return p, v, dst
            self.die("unsupported cast %s as %s" % (show(src), show(dst)))
        if k == "bin":
            return self.bin(e, env)
        if k == "ifx":
            pc, vc, tc = self.ex(e[1], env)
            unify(tc, "bool", "if condition")
            if e[3] is None:
                self.die("if expression without else")
            pa, va, ta = self.value_block(e[2], env)
            pb, vb, tb = self.value_block(e[3], env)
            t = unify(ta, tb, "if branches")
            if pa or pb:
                x = self.tmp()
                return pc + ["%s <- (if %s then %s else %s) ;;" % (x, vc, self.seq(pa, "Done " + va), self.seq(pb, "Done " + vb))], x, t
            return pc, "(if %s then %s else %s)" % (vc, va, vb), t
        if k == "blockx":
            return self.value_block(e[1], env)
        if k == "mcall":
            return self.mcall(e, env)
        if k == "pcall":
            return self.pcall(e, env)
        self.die("cannot translate expression " + str(e))

    def value_block(self, blk, env):
        """a block used as a value: only `{ expr }` (no statements)"""
        if len(blk) == 1 and blk[0][0] == "expr":
            return self.ex(blk[0][1], env)
        if len(blk) == 1 and blk[0][0] == "block":
            return self.value_block(blk[0][1], env)
        if len(blk) == 1 and blk[0][0] == "if":
            return self.ex(["ifx", blk[0][1], blk[0][2], blk[0][3]], env)
        self.die("a block with statements used as a value is not supported")

    def seq(self, pre, last):
        return "(" + " ".join(pre + [last]) + ")"

    def array_of(self, e, env):
        """`x.digits` / `(&x.digits)` -> x (a variable of type BUint)"""
        while e[0] == "un" and e[1] == "&":
            e = e[2]
        if e[0] == "field" and e[2] == "digits" and e[1][0] == "var" and e[1][1] in env and rs(env[e[1][1]].ty) == "buint":
            return e[1][1]
        self.die("unsupported array expression " + str(e))

    def path(self, segs, env):
        s = tuple(segs)
        if s in (("Self", "ZERO"), ("$BUint", "ZERO"), ("Self", "MIN"), ("$BUint", "MIN")):
            return [], "(ZERO (Z.to_nat N))", "buint"
        if s in (("Self", "MAX"), ("$BUint", "MAX")):
            return [], "(UMAX w (Z.to_nat N))", "buint"
        if s == ("$Digit", "MAX"):
            return [], "(u_max w)", "Digit"
        if s == ("$Digit", "MIN"):
            return [], "0", "Digit"
        if s == ("digit", "$Digit", "BITS") or s == ("$Digit", "BITS"):
            return [], "w", "ExpType"
        if s == ("digit", "$Digit", "BIT_SHIFT"):
            return [], "(digit_BIT_SHIFT w)", "ExpType"
        if s == ("digit", "$Digit", "BITS_MINUS_1"):
            return [], "(digit_BITS_MINUS_1 w)", "ExpType"
        if s in (("Self", "BITS"), ("$BUint", "BITS")):
            return [], "(w * N)", "ExpType"
        if s[0] == "Ordering" and len(s) == 2 and s[1] in ("Less", "Equal", "Greater"):
            return [], {"Less": "Lt", "Equal": "Eq", "Greater": "Gt"}[s[1]], "ordering"
        if len(s) == 2 and s[0] == "Self" and s[1] in self.consts:
            ty, expr = self.consts[s[1]]
            p, v, t = self.ex(expr, {})
            unify(t, ty, "associated const " + s[1])
            return p, v, ty
        self.die("unsupported path " + "::".join(segs))

    def call_translated(self, name, recv, args, env):
        sig = self.sigs[name]
        allargs = ([recv] if sig["self"] else []) + list(args)
        formal = ([("self", "buint")] if sig["self"] else []) + sig["params"]
        if len(allargs) != len(formal):
            self.die("call of %s with %d arguments, expected %d" % (name, len(allargs), len(formal)))
        pre, vs = [], []
        for a, (pn, pt) in zip(allargs, formal):
            p, v, t = self.ex(a, env)
            unify(t, pt, "argument %s of %s" % (pn, name))
            pre += p
            vs.append(v)
        if sig["generics"]:
            self.die("call of %s, which has const generic parameters: not supported" % name)
        x = self.tmp()
        return pre + ["%s <- %s w N fuel %s ;;" % (x, sig["coq"], " ".join(vs))], x, sig["ret"]

    def mcall(self, e, env):
        _, recv, name, args = e
        # N.saturating_sub(x)
        if name == "saturating_sub" and len(args) == 1:
            p1, v1, t1 = self.ex(recv, env)
            p2, v2, t2 = self.ex(args[0], env)
            t = unify(t1, t2, "saturating_sub")
            if self.need(t, "saturating_sub operands") not in ("usize", "ExpType"):
                self.die("saturating_sub on " + show(t))
            return p1 + p2, "(ix_saturating_sub %s %s)" % (v1, v2), t
        p, v, t = self.ex(recv, env)
        t0 = rs(t)
        if t0 == "buint":
            if name in self.sigs and self.sigs[name]["self"]:
                return self.call_translated(name, recv, args, env)
            self.die("call of method %s, which is not a translated function" % name)
        if isinstance(t0, TVar):
            self.die("method %s on an integer of undetermined type" % name)
        if t0 == "Digit":
            if name in DIGIT_METHODS and not args:
                f, rt = DIGIT_METHODS[name]
                return p, "(%s %s)" % (f, v), rt
            if name in ("overflowing_add", "overflowing_sub") and len(args) == 1:
                p2, v2, t2 = self.ex(args[0], env)
                unify(t2, "Digit", "argument of " + name)
                return p + p2, "(%s w %s %s)" % ({"overflowing_add": "u_ovf_add", "overflowing_sub": "u_ovf_sub"}[name], v, v2), ("Digit", "bool")
        self.die("unsupported method call .%s on %s" % (name, show(t0)))

    def pcall(self, e, env):
        _, segs, args = e
        s = tuple(segs)
        if len(s) == 3 and s[0] == "digit" and s[1] == "$Digit" and s[2] in self.digit_sigs:
            ptys, rty = self.digit_sigs[s[2]]
            if len(ptys) != len(args):
                self.die("call of digit::%s with %d arguments" % (s[2], len(args)))
            pre, vs = [], []
            for a, pt in zip(args, ptys):
                p, v, t = self.ex(a, env)
                unify(t, pt, "argument of digit::" + s[2])
                pre += p
                vs.append(v)
            return pre, "(DigitGen.%s w %s)" % (s[2], " ".join(vs)), rty
        if len(s) == 2 and s[0] in ("Self", "$BUint") and s[1] in self.sigs:
            sig = self.sigs[s[1]]
            if sig["self"]:
                if not args:
                    self.die("call of Self::%s without receiver" % s[1])
                return self.call_translated(s[1], args[0], args[1:], env)
            return self.call_translated(s[1], None, args, env)
        self.die("unsupported call " + "::".join(segs))

    def bin(self, e, env):
        _, op, a, b = e
        pa, va, ta = self.ex(a, env)
        pb, vb, tb = self.ex(b, env)
        if op in ("&&", "||"):
            unify(ta, "bool", "operand of " + op)
            unify(tb, "bool", "operand of " + op)
            if pb:                                   # short circuit: the right operand is only evaluated if needed
                x = self.tmp()
                rhs = self.seq(pb, "Done " + vb)
                line = ("%s <- (if %s then %s else Done false) ;;" if op == "&&" else "%s <- (if %s then Done true else %s) ;;") % (x, va, rhs)
                return pa + [line], x, "bool"
            return pa, "(%s %s %s)" % ({"&&": "andb", "||": "orb"}[op], va, vb), "bool"
        pre = pa + pb
        if op in ("==", "!=", "<", ">", "<=", ">="):
            t = rs(unify(ta, tb, "operands of " + op))
            if t == "bool":
                if op == "==":
                    return pre, "(Bool.eqb %s %s)" % (va, vb), "bool"
                if op == "!=":
                    return pre, "(xorb %s %s)" % (va, vb), "bool"
                self.die("ordering comparison on bool")
            if not is_int(t):
                self.die("comparison on unsupported type " + show(t))
            f = {"<": "(%s <? %s)", "<=": "(%s <=? %s)", ">": "(%s >? %s)", ">=": "(%s >=? %s)", "==": "(%s =? %s)", "!=": "(negb (%s =? %s))"}[op]
            return pre, f % (va, vb), "bool"
        if op in ("<<", ">>"):
            if not is_int(tb):
                self.die("shift amount of type " + show(tb))
            t = self.need(ta, "left operand of " + op)
            if t == "Digit":
                x = self.tmp()
                return pre + ["%s <- %s w %s %s ;;" % (x, {"<<": "dshl", ">>": "dshr"}[op], va, vb)], x, "Digit"
            if t in ("usize", "ExpType") and op == ">>":
                return pre, "(ix_shr %s %s)" % (va, vb), t
            self.die("unsupported shift %s on %s" % (op, t))
        t = unify(ta, tb, "operands of " + op)
        if rs(t) == "bool":
            f = {"|": "orb", "&": "andb", "^": "xorb"}.get(op)
            if f is None:
                self.die("unsupported boolean operator " + op)
            return pre, "(%s %s %s)" % (f, va, vb), "bool"
        t = self.need(t, "operands of " + op)
        if t == "Digit":
            f = {"&": "dg_and", "|": "dg_or", "^": "dg_xor"}.get(op)
            if f is None:
                self.die("unsupported digit operator %s (digit arithmetic outside digit.rs is not in the subset)" % op)
            return pre, "(%s w %s %s)" % (f, va, vb), "Digit"
        if t in ("usize", "ExpType"):
            if op == "+":
                return pre, "(%s + %s)" % (va, vb), t
            if op == "-":
                x = self.tmp()
                return pre + ["%s <- usub %s %s ;;" % (x, va, vb)], x, t
            if op == "&":
                return pre, "(ix_and %s %s)" % (va, vb), t
            self.die("unsupported %s operator %s" % (t, op))
        self.die("operator %s on unsupported type %s" % (op, show(t)))

    # ------------------------------------------------ statements
    # ctx: {"loop": None | [state names], "protected": set of names that may not be re-declared here}
    def finish(self, ctx, env):
        if ctx["loop"] is None:
            self.die("function body falls off its end without a value")
        return "Done (Continue %s)" % self.tup(ctx["loop"])

    def tup(self, names):
        return "(" + ", ".join(names) + ")" if len(names) != 1 else names[0]

    def pat(self, names):
        return "'(" + ", ".join(names) + ")" if len(names) != 1 else names[0]

    def declare(self, env, name, ty, mut, ctx):
        if name in RESERVED or re.match(r"^t\d+$", name):
            self.die("local variable name %s is reserved by the translator" % name)
        if name in ctx["protected"]:
            self.die("`let %s` shadows a variable of an enclosing scope inside a branch / loop body: not supported" % name)
        if name in env:
            del env[name]
        env[name] = Var(ty, mut)

    def stmts(self, ss, env, ctx, ind):
        """translates the statement list ss followed by nothing; env is consumed (copied by callers that branch)"""
        pad = "  " * ind
        if not ss:
            return pad + self.finish(ctx, env)
        s, rest = ss[0], ss[1:]
        k = s[0]
        if k == "expr":
            if rest:
                self.die("value expression in the middle of a block")
            if ctx["loop"] is not None:
                self.die("loop body ends in a value expression")
            if s[1][0] == "ifx":
                return self.stmts([["if", s[1][1], s[1][2], s[1][3]]], env, ctx, ind)
            if s[1][0] == "blockx":
                return self.stmts([["block", s[1][1]]], env, ctx, ind)
            p, v, t = self.ex(s[1], env)
            unify(t, self.ret, "returned value")
            return self.lines(p + ["Done " + v], pad)
        if k == "return":
            if s[1] is None:
                self.die("return without a value")
            if rest:
                self.die("statements after return")
            p, v, t = self.ex(s[1], env)
            unify(t, self.ret, "returned value")
            return self.lines(p + ["Done " + (v if ctx["loop"] is None else "(Return %s)" % v)], pad)
        if k == "break":
            if rest:
                self.die("statements after break")
            if ctx["loop"] is None:
                self.die("break outside a loop")
            return pad + "Done (Break %s)" % self.tup(ctx["loop"])
        if k == "let":
            _, pat, ty, init = s
            if init is None:
                if pat[0] != "pid" or ty is None or not is_int(ty):
                    self.die("uninitialised let is only supported for a single integer variable with a type")
                name, mut = pat[1]
                self.declare(env, name, ty, mut, ctx)
                # Rust guarantees assignment before use: the initial value is never read
                return pad + "let %s := 0 in (* declared without initialiser *)\n" % name + self.stmts(rest, env, ctx, ind)
            p, v, t = self.ex(init, env)
            if ty is not None:
                t = unify(t, ty, "let with type annotation")
            if pat[0] == "pid":
                name, mut = pat[1]
                self.declare(env, name, t, mut, ctx)
                line = "let %s := %s in" % (name, v)
            else:
                t = rs(t)
                if not isinstance(t, tuple) or len(t) != len(pat[1]):
                    self.die("tuple pattern does not match the type " + show(t))
                for (name, mut), tt in zip(pat[1], t):
                    self.declare(env, name, tt, mut, ctx)
                line = "let '(%s) := %s in" % (", ".join(n for n, _ in pat[1]), v)
            return self.lines(p + [line], pad) + "\n" + self.stmts(rest, env, ctx, ind)
        if k == "assign":
            _, lhs, op, rhs = s
            if lhs[0] == "var":
                name = lhs[1]
                if name not in env:
                    self.die("assignment to unbound variable " + name)
                if not env[name].mut:
                    self.die("assignment to immutable variable " + name)
                if op == "=":
                    p, v, t = self.ex(rhs, env)
                    unify(t, env[name].ty, "assignment to " + name)
                else:
                    p, v, t = self.ex(["bin", op[:-1], lhs, rhs], env)
                    unify(t, env[name].ty, "assignment to " + name)
                if v.endswith("'") and p and p[-1].startswith(v + " <- "):       # x -= 1  ->  x <- usub x 1 ;;
                    p = p[:-1] + [name + p[-1][len(v):]]
                    return self.lines(p, pad) + "\n" + self.stmts(rest, env, ctx, ind)
                return self.lines(p + ["let %s := %s in" % (name, v)], pad) + "\n" + self.stmts(rest, env, ctx, ind)
            if lhs[0] == "index":
                arr = self.array_of(lhs[1], env)
                if not env[arr].mut:
                    self.die("write to a digit of immutable variable " + arr)
                # Rust evaluates the right operand first, then the place expression (index, bounds check)
                p, v, t = self.ex(rhs, env)
                unify(t, "Digit", "digit assignment")
                pi, vi, ti = self.ex(lhs[2], env)
                unify(ti, "usize", "array index")
                if op == "=":
                    new = v
                    mid = []
                else:
                    f = {"|=": "dg_or", "&=": "dg_and", "^=": "dg_xor"}.get(op)
                    if f is None:
                        self.die("unsupported compound assignment %s on a digit" % op)
                    x = self.tmp()
                    mid = ["%s <- arr_get %s %s ;;" % (x, arr, vi)]
                    new = "(%s w %s %s)" % (f, x, v)
                return self.lines(p + pi + mid + ["%s <- arr_set %s %s %s ;;" % (arr, arr, vi, new)], pad) + "\n" + self.stmts(rest, env, ctx, ind)
            self.die("unsupported assignment target " + str(lhs))
        if k == "block":
            inner = dict(ctx, protected=set(env.keys()) | ctx["protected"])
            if rest:
                # splice: the names declared inside cannot clash (protected), so `rest` sees the same variables
                return self.stmts(self.splice(s[1], rest), env, inner, ind)
            return self.stmts(s[1], env, inner, ind)
        if k == "if":
            _, c, a, b = s
            p, v, t = self.ex(c, env)
            unify(t, "bool", "if condition")
            inner = dict(ctx, protected=set(env.keys()) | ctx["protected"])
            ta = self.stmts(self.splice(a, rest), self.copy(env), inner, ind + 1)
            tb = self.stmts(self.splice(b or [], rest), self.copy(env), inner, ind + 1)
            return self.lines(p + ["if %s then (" % v], pad) + "\n" + ta + "\n" + pad + ") else (\n" + tb + "\n" + pad + ")"
        if k == "while":
            _, c, body = s
            # the loop state: the variables of the context that the body assigns, in a canonical order
            # (arrays, bools, digits, u32s, usizes; declaration order within a class) so that re-ordering
            # independent `let`s of different types in the source does not change the generated term
            rank = {"buint": 0, "bool": 1, "Digit": 2, "ExpType": 3, "usize": 4}
            asg = self.assigned(body)
            state = [n for n in env if n in asg]
            state = [n for _, _, n in sorted((rank.get(rs(env[n].ty) if not isinstance(rs(env[n].ty), (TVar, tuple)) else "", 5), k, n)
                                             for k, n in enumerate(state))]
            for n in state:
                if not env[n].mut:
                    self.die("loop assigns immutable variable " + n)
            if not state:
                self.die("while loop that assigns no variable of its context")
            benv = self.copy(env)
            pc, vc, tc = self.ex(c, benv)
            unify(tc, "bool", "while condition")
            if pc:
                self.die("while condition with effects (array access / subtraction): not supported")
            enclosing = set(ctx["loop"] or []) | ctx.get("outer_states", set())
            bctx = {"loop": state, "protected": set(state) | enclosing, "outer_states": enclosing}
            tbody = self.stmts(body, benv, bctx, ind + 2)
            r = self.tmp()
            v = self.tmp()
            after = self.stmts(rest, env, ctx, ind + 2)
            out = pad + "%s <- while_loop (R := %s) fuel\n" % (r, coq_ty(self.ret))
            out += pad + "  (fun %s => %s)\n" % (self.pat(state), vc)
            out += pad + "  (fun %s =>\n%s)\n" % (self.pat(state), tbody)
            out += pad + "  %s ;;\n" % self.tup(state)
            out += pad + "match %s with\n" % r
            out += pad + "| Exited %s =>\n%s\n" % (self.tup(state), after)
            out += pad + "| Returned %s => Done %s\n" % (v, v if ctx["loop"] is None else "(Return %s)" % v)
            out += pad + "end"
            return out
        self.die("unsupported statement " + str(s))

    def splice(self, blk, rest):
        if blk and blk[-1][0] == "expr" and rest:
            self.die("block with a value followed by more statements")
        if blk and blk[-1][0] in ("break", "return"):
            return list(blk)                # rest is unreachable on this path
        return list(blk) + list(rest)

    def copy(self, env):
        return dict((n, Var(v.ty, v.mut)) for n, v in env.items())

    def lines(self, ls, pad):
        return "\n".join(pad + l for l in ls)

    def assigned(self, blk):
        """names assigned (or whose digits are written) anywhere in the block, nested loops included"""
        out = set()
        for s in blk:
            k = s[0]
            if k == "assign":
                lhs = s[1]
                if lhs[0] == "var":
                    out.add(lhs[1])
                elif lhs[0] == "index":
                    e = lhs[1]
                    while e[0] == "un":
                        e = e[2]
                    if e[0] == "field" and e[1][0] == "var":
                        out.add(e[1][1])
                    else:
                        self.die("unsupported assignment target " + str(lhs))
                else:
                    self.die("unsupported assignment target " + str(lhs))
            elif k == "while":
                out |= self.assigned(s[2])
            elif k == "if":
                out |= self.assigned(s[2]) | self.assigned(s[3] or [])
            elif k == "block":
                out |= self.assigned(s[1])
            elif k == "expr" and s[1][0] in ("ifx", "blockx"):
                out |= self.assigned(s[1][2] if s[1][0] == "ifx" else s[1][1])
                if s[1][0] == "ifx":
                    out |= self.assigned(s[1][3] or [])
        return out


# ---------------------------------------------------------------- extraction of functions from the source

def find_fn(src, anchor, name, path):
    start = 0
    if anchor:
        m = re.search(anchor, src)
        if not m:
            die("%s: anchor for fn %s not found" % (path, name))
        start = m.end()
    ms = list(re.finditer(r"\bfn\s+%s\s*(<[^>()]*>)?\s*\(" % re.escape(name), src[start:]))
    if not ms:
        die("%s: fn %s not found" % (path, name))
    if len(ms) > 1 and not anchor:
        die("%s: fn %s is defined %d times; cannot choose" % (path, name, len(ms)))
    fm = ms[0]
    i = start + fm.end()
    d, j = 1, i
    while d:
        if j >= len(src):
            die("%s: unbalanced parentheses in the signature of %s" % (path, name))
        d += {"(": 1, ")": -1}.get(src[j], 0)
        j += 1
    params = src[i:j - 1]
    rm = re.match(r"\s*->\s*([^{;]+)\{", src[j:])
    if not rm:
        die("%s: no return type / body for fn %s" % (path, name))
    k = j + rm.end() - 1
    d, e = 0, k
    while True:
        if e >= len(src):
            die("%s: unbalanced braces in fn %s" % (path, name))
        d += {"{": 1, "}": -1}.get(src[e], 0)
        e += 1
        if d == 0:
            break
    return fm.group(1), params, rm.group(1).strip(), src[k:e]


def parse_sig(name, generics, params, ret):
    sig = {"self": False, "params": [], "generics": []}
    if generics:
        for g in generics.strip()[1:-1].split(","):
            m = re.match(r"^\s*const\s+(\w+)\s*:\s*bool\s*$", g)
            if not m:
                die("fn %s: unsupported generic parameter %s" % (name, g.strip()))
            sig["generics"].append((m.group(1), "bool"))
    t = LP(tokenize(params))
    first = True
    while t.peek() is not None:
        if first and t.peek() in ("self", "&") and (t.peek() == "self" or t.peek(1) == "self"):
            if t.peek() == "&":
                t.eat("&")
            t.eat("self")
            sig["self"] = True
        else:
            if t.peek() == "mut":
                die("fn %s: `mut` parameters are not supported" % name)
            pn = t.ident()
            t.eat(":")
            sig["params"].append((pn, t.type_()))
        first = False
        if t.peek() == ",":
            t.eat(",")
        elif t.peek() is not None:
            die("fn %s: cannot parse the parameter list" % name)
    r = LP(tokenize(ret))
    sig["ret"] = r.type_()
    if r.peek() is not None:
        die("fn %s: cannot parse the return type %s" % (name, ret))
    return sig


def assoc_consts(src):
    """`const NAME: ty = expr;` items (associated consts of the impl blocks), parsed"""
    out = {}
    for m in re.finditer(r"\bconst\s+([A-Z][A-Z0-9_]*)\s*:\s*(usize|ExpType|u32)\s*=([^;]+);", src):
        name, ty, ex = m.group(1), m.group(2), m.group(3)
        p = LP(tokenize(ex))
        e = p.expr()
        if p.peek() is not None:
            die("cannot parse the associated const " + name)
        out[name] = (LP([ty]).type_(), e)
    return out


def check_digit_consts(dsrc):
    for pat, what in [(r"pub\s+const\s+BIT_SHIFT\s*:\s*ExpType\s*=\s*BITS\s*\.\s*trailing_zeros\s*\(\s*\)\s*as\s+ExpType\s*;", "BIT_SHIFT = BITS.trailing_zeros()"),
                      (r"pub\s+const\s+BITS_MINUS_1\s*:\s*ExpType\s*=\s*BITS\s*-\s*1\s*;", "BITS_MINUS_1 = BITS - 1"),
                      (r"pub\s+const\s+BITS\s*:\s*ExpType\s*=\s*\$Digit\s*::\s*BITS\s+as\s+ExpType\s*;", "BITS = $Digit::BITS")]:
        if not re.search(pat, dsrc):
            die("src/digit.rs: the definition `%s` (modelled in coq/Model/LoopPrims.v) has changed" % what)


def digit_sigs(dsrc):
    def ty(s):
        s = s.strip()
        if s.startswith("("):
            return tuple(ty(x) for x in s[1:-1].split(","))
        return {"Digit": "Digit", "bool": "bool"}.get(s, "unsupported:" + s)
    out = {}
    for m in re.finditer(r"pub const fn (\w+)\s*\(([^)]*)\)\s*->\s*([^{]+)\{", dsrc):
        ps = [ty(p.split(":")[1]) for p in m.group(2).split(",") if p.strip()]
        r = ty(m.group(3))
        if all(isinstance(x, str) and not x.startswith("unsupported") for x in ps) and "unsupported" not in str(r):
            out[m.group(1)] = (ps, r)
    return out


def main():
    group = sys.argv[sys.argv.index("--for") + 1] if "--for" in sys.argv else None
    failed = {}
    files = {}
    fns = {}
    sigs = {}
    consts = {}
    for path, anchor, name, coq in WANTED:
        if path not in files:
            p = os.path.join(REPO, path)
            if not os.path.exists(p):
                die("source file %s not found" % p)
            files[path] = strip_comments(open(p).read())
            mm = re.search(r"macro_rules!\s*\w+\s*\{\s*\(\s*\$BUint\s*:\s*ident\s*,\s*\$BInt\s*:\s*ident\s*,\s*\$Digit\s*:\s*ident\s*\)", files[path])
            if not mm:
                die("%s: macro_rules! with ($BUint, $BInt, $Digit) not found" % path)
            # keep only the body of that (first) macro: the functions are looked up inside it
            b0 = files[path].index("{", mm.start())
            d, e = 0, b0
            while True:
                if e >= len(files[path]):
                    die("%s: unbalanced braces in the macro body" % path)
                d += {"{": 1, "}": -1}.get(files[path][e], 0)
                e += 1
                if d == 0:
                    break
            files[path] = files[path][b0:e]
            consts[path] = assoc_consts(files[path])
        try:
            generics, params, ret, body = find_fn(files[path], anchor, name, path)
            if name in fns and name != "add":
                die("two wanted functions are called " + name)
            sg = parse_sig(name, generics, params, ret)
            sg["coq"] = coq
            fns[name] = (path, coq, body)
            sigs[name] = sg
        except (SystemExit, Exception) as ex:      # this function only: stub below
            failed[coq] = LAST_MSG[0] if isinstance(ex, SystemExit) else repr(ex)
    dsrc = strip_comments(open(os.path.join(REPO, "src/digit.rs")).read())
    check_digit_consts(dsrc)
    dsigs = digit_sigs(dsrc)
    csrc = strip_comments(open(os.path.join(REPO, "src/buint/consts.rs")).read())
    if not re.search(r"pub\s+const\s+BITS\s*:\s*ExpType\s*=\s*digit\s*::\s*\$Digit\s*::\s*BITS\s*\*\s*N\s+as\s+ExpType\s*;", csrc):
        die("src/buint/consts.rs: `BITS = digit::$Digit::BITS * N as ExpType` has changed")

    out = ["(* GENERATED on every run by tools/rs2v_loops.py from /repo/src/buint/{overflowing,const_trait_fillers,mul,mod,ops,checked}.rs.",
           "   Do not edit.  Proofs/LoopsTie.v proves each function equal to the hand-written model.",
           "   Vocabulary: Model/Imp.v (control flow), Prim.v, Model/DigitPrims.v, Model/LoopPrims.v, Generated/DigitGen.v. *)",
           "From Bnum Require Import Base Prim.",
           "From Bnum.Model Require Import DigitPrims LoopPrims Core Imp.",
           "From Bnum.Generated Require Import DigitGen.", "", "Module Loops.", ""]
    # a function that calls an untranslatable function is untranslatable too: iterate to a fixpoint
    texts = {}
    while True:
        again = False
        for path, anchor, name, coq in WANTED:
            if coq in failed:
                continue
            try:
                texts[coq] = translate_one(path, name, coq, fns, sigs, dsigs, consts)
            except (SystemExit, Exception) as ex:
                failed[coq] = LAST_MSG[0] if isinstance(ex, SystemExit) else repr(ex)
                sigs.pop(name, None)
                again = True
        if not again:
            break
    for path, anchor, name, coq in WANTED:
        if coq not in failed:
            out.append(texts[coq])
        else:
            out.append("(* %s: fn %s  -- NOT TRANSLATED: %s *)\nDefinition %s : unit := tt.\n"
                       % (path, name, failed[coq].replace("*)", "* )").replace("(*", "( *"), coq))
    out.append("End Loops.")
    txt = "\n".join(out) + "\n"
    p = os.path.join(ROOT, "coq", "Generated", "Loops.v")
    if not os.path.exists(p) or open(p).read() != txt:
        open(p, "w").write(txt)
    if failed:
        hit = [f for f in failed if group is None or f in GROUPS.get(group, [])]
        sys.stderr.write("rs2v_loops: not translated (stub emitted, its tie lemma will not check): %s\n" % ", ".join(sorted(failed)))
        return 1 if hit else 0
    return 0


def translate_one(path, name, coq, fns, sigs, dsigs, consts):
    if True:
        out = []
        _, _, body = fns[name]
        ast = LP(tokenize(body)).block()
        sig = sigs[name]
        tvs = {}
        txt = None
        for final in (False, True):
            g = Gen(name, sigs, dsigs, consts[path], tvs, final)
            env = {}
            ctx = {"loop": None, "protected": set()}
            for gn, gt in sig["generics"]:
                env[gn] = Var(gt, False)
            if sig["self"]:
                env["self"] = Var("buint", False)
            for pn, pt in sig["params"]:
                g.declare(env, pn, pt, False, ctx)
            txt = g.stmts(ast, env, ctx, 1)
        argl = "".join(" (%s : %s)" % (n, coq_ty(t)) for n, t in sig["generics"])
        argl += " (self : list Z)" if sig["self"] else ""
        argl += "".join(" (%s : %s)" % (n, coq_ty(t)) for n, t in sig["params"])
        out.append("(* %s: fn %s *)" % (path, name))
        out.append("Definition %s (w N : Z) (fuel : nat)%s : res (%s) :=\n%s.\n" % (coq, argl, coq_ty(sig["ret"]).strip("()") if isinstance(rs(sig["ret"]), tuple) else coq_ty(sig["ret"]), txt))
        return "\n".join(out)


if __name__ == "__main__":
    sys.exit("rs2v_loops_v1.py is a frozen library copy used by rs2v_div.py; run rs2v_loops.py")

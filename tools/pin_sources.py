#!/usr/bin/env python3
"""Records the sha256 of every /repo/src/**/*.rs file at which the models were last validated (pinned_sources.json).
./check compares the working tree with this pin: when the source differs it draws three times as many cases (quick tier)."""
import hashlib, json, os
ROOT = os.path.dirname(os.path.dirname(os.path.abspath(__file__)))
res = {}
for d, _, fs in os.walk("/repo/src"):
    for f in fs:
        if f.endswith(".rs"):
            p = os.path.join(d, f)
            res[os.path.relpath(p, "/repo")] = hashlib.sha256(open(p, "rb").read()).hexdigest()
json.dump(dict(sorted(res.items())), open(os.path.join(ROOT, "pinned_sources.json"), "w"), indent=0)
print(len(res), "files pinned")

#!/usr/bin/env python3
"""tools/discharge.py <Properties file> spec=proof [spec=proof ...]
Rewrites property theorems of the shape
    Theorem N : s1 -> s2 -> forall ..., P.   Proof. exact L. Qed.
whose leading premises s_i are ALL in the given mapping into
    Theorem N : forall ..., P.               Proof. exact (L p1 p2). Qed.
(theorems with a premise that is not in the mapping are left untouched).  Adds the import of Proofs/Discharge.v."""
import re, sys

def main():
    path = sys.argv[1]
    mp = dict(a.split("=") for a in sys.argv[2:])
    imp = mp.pop("import", "Discharge")
    s = open(path).read()
    pat = re.compile(r"(Theorem\s+[\w']+\s*:\s*)((?:[\w']+_spec\s*->\s*)+)(.*?Proof\.\s*exact\s+)(\(?[^.]*?\)?)(\.\s*Qed\.)", re.S)
    n = 0
    def rep(m):
        nonlocal n
        prem = re.findall(r"([\w']+_spec)\s*->", m.group(2))
        if not all(p in mp for p in prem):
            return m.group(0)
        n += 1
        lemma = m.group(4).strip()
        if lemma.startswith("(") and lemma.endswith(")"):
            lemma = lemma[1:-1]
        return m.group(1) + m.group(3) + "(" + lemma + " " + " ".join(mp[p] for p in prem) + ")" + m.group(5)
    s2 = pat.sub(rep, s)
    if ("Require Import %s." % imp) not in s2 and n:
        # add after the last `From Bnum... Require Import` line of the header
        lines = s2.split("\n")
        idx = max(i for i, l in enumerate(lines) if l.startswith("From Bnum"))
        lines.insert(idx + 1, "From Bnum.Proofs Require Import %s." % imp)
        s2 = "\n".join(lines)
    open(path, "w").write(s2)
    print("discharged premises in %d theorems of %s" % (n, path))
main()

#!/usr/bin/env python3
"""tools/mk_gluetie.py — DEVELOPMENT HELPER (not run by ./check): writes the boiler-plate of the second-round glue tie
files coq/Proofs/GlueTieC04.v, C06, C07, C08 and the `round 2` blocks appended to GlueTieC01.v, C03.v, C05.v from the
table SPEC below:  one lemma  glue_<name> : forall <binders>, Glue.<name> <binders> = <model expression>  per generated
function, the conjunction of all statements of a property (Definition glue_<fam>_statement) and its theorem.
The binders are read off the CURRENT coq/Generated/Glue.v (so run tools/rs2v_glue.py on the pristine /repo first).
The statements written by this script are COMMITTED and thereby fixed: the check never regenerates them; re-run
this script only to add lemmas for newly translated functions.  A right-hand side is either the head of the model
function (applied to exactly the binders of the generated one, `dbg`/`w` included when the generated function has
them) or a full expression over the binder names (dbg, w, then a b c for digit lists, k l for ExpType, f g for
bool, p q for pairs).  proof = None means `glue_tac` (reflexivity, else unfold + case split)."""
import os, re, sys

ROOT = os.path.dirname(os.path.dirname(os.path.abspath(__file__)))
HEAD = """(* Proofs/GlueTie%(P)s.v — glue functions of %(P)s (%(what)s): generated (Generated/Glue.v) = hand-written model.
   One file per property so that an edit of one family's source breaks only that property's check.
   Boiler-plate written by tools/mk_gluetie.py from its SPEC table; the statements are fixed by committing this file. *)
From Bnum Require Import Base Prim.
From Bnum.Model Require Import Digit Core Shift AddSub Mul Div Bits Pow.
From Bnum.Generated Require Import Glue.
From Bnum.Proofs Require Import GlueTieCommon.
"""
MARK_A = "(* ==== round 2 (tools/mk_gluetie.py) ==== *)"
MARK_B = "(* ==== end of round 2 ==== *)"
PMARK_A = "(* ==== glue tie, round 2 (text written by tools/mk_gluetie.py; keep at the END of the file) ==== *)"

# property -> (family name, description, new file?, [(generated name, rhs, proof)])
SPEC = {}


def load_spec():
    sys.path.insert(0, os.path.join(ROOT, "tools"))
    import gluetie_spec
    return gluetie_spec.SPEC


def signature(glue, name):
    m = re.search(r"^Definition %s ((?:\([^)]*\) ?)*): " % re.escape(name), glue, re.M)
    if not m:
        sys.exit("mk_gluetie: Glue.%s not found in Generated/Glue.v" % name)
    ps = re.findall(r"\((\w+) : ([^)]*)\)", m.group(1))
    pools = {"list Z": list("abcde"), "Z": list("klmn"), "bool": list("fgh")}
    out = []
    for x, t in ps:
        if x in ("dbg", "w") or (x == "n" and t == "nat"):
            out.append(x)
        elif t in pools:
            out.append(pools[t].pop(0))
        else:
            out.append("pqr"[sum(1 for y in out if y in "pqr")])
    return out


def block(glue, fam, entries):
    lem, stm, prf = [], [], []
    for name, rhs, proof in entries:
        bs = signature(glue, name)
        b = " ".join(bs)
        if re.match(r"^[\w.']+$", rhs) and rhs not in bs:
            rhs = "%s %s" % (rhs, b)
        st = "forall %s, Glue.%s %s = %s" % (b, name, b, rhs)
        lem.append("Lemma glue_%s : %s.\nProof. %s Qed." % (name, st, proof or "glue_tac."))
        stm.append("  (%s)" % st)
        prf.append("  - exact glue_%s." % name)
    return ("\n".join(lem) + "\n\nDefinition glue_%s_statement : Prop :=\n" % fam + " /\\\n".join(stm) + ".\n"
            + "Theorem glue_%s_matches_model : glue_%s_statement.\nProof.\n  unfold glue_%s_statement. repeat apply conj.\n" % (fam, fam, fam)
            + "\n".join(prf) + "\nQed.\n")


def main():
    spec = load_spec()
    glue = open(os.path.join(ROOT, "coq", "Generated", "Glue.v")).read()
    for prop, (fam, what, newfile, prelude, entries) in sorted(spec.items()):
        p = os.path.join(ROOT, "coq", "Proofs", "GlueTie%s.v" % prop)
        body = (prelude.strip() + "\n\n" if prelude.strip() else "") + block(glue, fam, entries)
        if newfile:
            txt = HEAD % {"P": prop, "what": what} + "\n" + body
        else:
            old = open(p).read()
            if MARK_A in old:
                old = old[:old.index(MARK_A)].rstrip("\n") + "\n"
            txt = old + "\n" + MARK_A + "\n(* %s *)\n" % what + body + MARK_B + "\n"
        open(p, "w").write(txt)
        print("wrote", p, len(entries), "lemmas")
        # the theorem of Properties/<prop>.v: the statement written out in full, appended at the END of the file
        m = re.search(r"Definition glue_%s_statement : Prop :=\n(.*?)\.\nTheorem" % fam, txt, re.S)
        pp = os.path.join(ROOT, "coq", "Properties", "%s.v" % prop)
        old = open(pp).read()
        thm = "%s_glue%s_rs_matches_model" % (prop, "" if newfile else "2")
        if PMARK_A in old:
            old = old[:old.index(PMARK_A)].rstrip("\n") + "\n"
        new = (PMARK_A + "\n(* ---- tie to the source, second round: the non-loop functions (%s) REGENERATED from /repo/src on every run\n"
               "   (Generated/Glue.v, tools/rs2v_glue.py) are the model's, function by function, for every digit width, digit count,\n"
               "   build mode and operand (no well-formedness hypothesis): an edit of the source that changes what one of these\n"
               "   functions computes or delegates to breaks this theorem ---- *)\n"
               "From Bnum.Model Require Import Digit Core Shift AddSub Mul Div Bits Pow.\n"
               "From Bnum.Model Require Ops NumTraits.\nFrom Bnum.Generated Require Import Glue.\nFrom Bnum.Proofs Require Import GlueTieCommon GlueTie%s.\n"
               "Theorem %s :\n%s.\nProof. exact glue_%s_matches_model. Qed.\nPrint Assumptions %s.\n" % (what, prop, thm, m.group(1), fam, thm))
        open(pp, "w").write(old + new)


if __name__ == "__main__":
    main()

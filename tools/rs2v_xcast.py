#!/usr/bin/env python3
"""tools/rs2v_xcast.py — TRANSLATOR: casts and checked conversions BETWEEN bnum integer types  ->  coq/Generated/XcastGen.v

Reads $BNUM_REPO (default /repo) src/buint/{cast,convert}.rs, src/bint/{cast,convert}.rs (and src/lib.rs, src/buint/consts.rs,
src/bint/{consts,mod}.rs for the instantiation lists and the one-line definitions used by name) and translates

  * `buint_as_different_digit_bigint!` / `bint_as_different_digit_bigint!`: each macro body ONCE, with the two digit widths as
    parameters - `w` = `$Digit::BITS` (the digit of `Self`), `ow` = `$OtherDigit::BITS` (the digit of the source) - and the two
    sizes `N` (of `Self`), `M` (of the source);
  * the same-digit `CastFrom<$BUint<M>|$BInt<M>> for $BUint<N>|$BInt<N>`, `CastFrom<bool|char>`, `as_bint!` at `bool` / `char`;
  * the four `BTryFrom` macros of src/buint/convert.rs (`$From<$N>` -> `$To<M>`; translated with `Self` = the target), `From<bool|char>`

into Gallina functions over coq/Model/Imp.v (+ Model/ImpXcast.v: `/`, `%` on usize / u32) and the hand model's definitions by
qualified name.  coq/Proofs/XcastGenTie*.v prove each generated function equal to the hand-written model (Model/Cast.v, Convert.v).
Lexer, parser (L.LP), type machinery and statement generator (L.Gen) are those of tools/rs2v_loops.py, extended by subclassing; see
tools/XCAST_TRANSLATOR.md.  Anything outside the subset: the construct is named on stderr, the function (and every generated
function that calls it) becomes the stub `Definition f : unit := tt.`, exit status 1 (with `--for Cxx`: only when the function belongs
to the group of Cxx, or on a global failure)."""
import re, sys, os
sys.path.insert(0, os.path.dirname(os.path.abspath(__file__)))
import rs2v_loops as L

REPO = os.environ.get("BNUM_REPO", "/repo")
ROOT = os.path.dirname(os.path.dirname(os.path.abspath(__file__)))
LAST_MSG = [""]


def die(msg):
    LAST_MSG[0] = msg
    sys.stderr.write("rs2v_xcast: " + msg + "\n")
    sys.exit(1)


L.die = die     # rs2v_loops looks `die` up as a module global at call time: every message gets this translator's prefix

# The source of a cast has ANOTHER digit type in the *_as_different_digit_bigint! macros (and possibly another one in BTryFrom):
#   ODigit                      a digit of that type, a number in [0, 2^ow)
#   obuint / obint / odigits    $OtherBUint<M> / $OtherBInt<M> / its digit array  (`list Z` of ow-bit digits; always an L.Arr with a size)
# `char` is its code point (`from as u32` is the identity on it).
L.INTS = L.INTS + ("ODigit",)
L.ARRAYS = L.ARRAYS + ("obuint", "obint", "odigits")
L.RESERVED |= {"ow", "Ok", "Err"}
OKINDS = ("obuint", "obint", "odigits")
SIGNED = {"buint": False, "bint": True, "obuint": False, "obint": True}


def is_result(t):
    return isinstance(t, tuple) and len(t) == 2 and t[0] == "result"


_coq_ty0, _show0 = L.coq_ty, L.show


def coq_ty(t):
    t = L.rs(t)
    if is_result(t):
        inner = coq_ty(t[1])
        return "(Convert.result %s)" % (inner if inner.startswith("(") or " " not in inner else "(" + inner + ")")
    if t == "char":
        return "Z"
    if t in OKINDS:
        return "list Z"
    return _coq_ty0(t)


def show(t):
    t = L.rs(t)
    if is_result(t):
        return "Result<%s>" % show(t[1])
    return _show0(t)


L.coq_ty, L.show = coq_ty, show


def rtoks(text):
    return re.findall(r"\$?\w+|\S", text)


def rx(text):
    """regex matching the Rust token sequence `text` with arbitrary white space between tokens"""
    return r"\s*".join(re.escape(t) for t in rtoks(text))


DD_HEAD_U = "($BUint: ident, $BInt: ident, $Digit: ident; $(($OtherBUint: ident, $OtherDigit: ident)), *)"
DD_HEAD_I = "($BUint: ident, $BInt: ident, $Digit: ident; $(($OtherBInt: ident, $OtherDigit: ident)), *)"
TRY_HEAD = "($Trait: ident; $To: ident; $($From: ident $(<$N: ident>)?), *)"
TRY_IMPL = "impl<$(const $N: usize,)? const M: usize> $Trait<$From $(<$N>)?> for $To<M>"

# One entry per translated function.
#   coq      name in Module XcastGen          group   the property whose tie file is about it
#   path / macro / head   the file, the macro_rules! name (None: the file's ($BUint, $BInt, $Digit) macro), its rule head
#   anchor   token sequence of the `impl` header after which the fn is searched            fn: the Rust fn name
#   selfty   what `Self` is (buint / bint; its size is N, its digit width w)
#   other    the source type has its own digit type (width `ow`): "U" / "I" = which *_as_different_digit_bigint! list is checked,
#            "from" = a BTryFrom macro ($From ranges over the four types of one signedness: `fromkind`)
#   sizes    the const generics of the impl besides N
#   ty       as_bint!: the type `$ty` is instantiated at (bool / char)
#   bymodel  `Self::cast_from(..)` is a call of the hand model (Cast.cast / Cast.U_from_bool ..), whose tie is another property's
TARGETS = [
    dict(coq="U_castd_U", group="C09", path="src/buint/cast.rs", macro="buint_as_different_digit_bigint", head=DD_HEAD_U,
         anchor="impl<const N: usize, const M: usize> crate::cast::CastFrom<$OtherBUint<M>> for $BUint<N>", fn="cast_from",
         selfty="buint", other="U", sizes=["M"]),
    dict(coq="I_castd_U", group="C09", path="src/buint/cast.rs", macro="buint_as_different_digit_bigint", head=DD_HEAD_U,
         anchor="impl<const N: usize, const M: usize> crate::cast::CastFrom<$OtherBUint<M>> for $BInt<N>", fn="cast_from",
         selfty="bint", other="U", sizes=["M"]),
    dict(coq="U_castd_I", group="C09", path="src/bint/cast.rs", macro="bint_as_different_digit_bigint", head=DD_HEAD_I,
         anchor="impl<const N: usize, const M: usize> crate::cast::CastFrom<$OtherBInt<M>> for $BUint<N>", fn="cast_from",
         selfty="buint", other="I", sizes=["M"]),
    dict(coq="I_castd_I", group="C09", path="src/bint/cast.rs", macro="bint_as_different_digit_bigint", head=DD_HEAD_I,
         anchor="impl<const N: usize, const M: usize> crate::cast::CastFrom<$OtherBInt<M>> for $BInt<N>", fn="cast_from",
         selfty="bint", other="I", sizes=["M"]),
    dict(coq="U_from_bool", group="C09", path="src/buint/cast.rs", macro=None, anchor="impl<const N: usize> CastFrom<bool> for $BUint<N>",
         fn="cast_from", selfty="buint", sizes=[]),
    dict(coq="U_from_char", group="C09", path="src/buint/cast.rs", macro=None, anchor="impl<const N: usize> CastFrom<char> for $BUint<N>",
         fn="cast_from", selfty="buint", sizes=[]),
    dict(coq="U_cast_U", group="C09", path="src/buint/cast.rs", macro=None,
         anchor="impl<const N: usize, const M: usize> CastFrom<$BUint<M>> for $BUint<N>", fn="cast_from", selfty="buint", sizes=["M"]),
    dict(coq="U_cast_I", group="C09", path="src/buint/cast.rs", macro=None,
         anchor="impl<const N: usize, const M: usize> CastFrom<$BInt<M>> for $BUint<N>", fn="cast_from", selfty="buint", sizes=["M"]),
    dict(coq="I_cast_U", group="C09", path="src/bint/cast.rs", macro=None,
         anchor="impl<const N: usize, const M: usize> CastFrom<$BUint<M>> for $BInt<N>", fn="cast_from", selfty="bint", sizes=["M"]),
    dict(coq="I_cast_I", group="C09", path="src/bint/cast.rs", macro=None,
         anchor="impl<const N: usize, const M: usize> CastFrom<$BInt<M>> for $BInt<N>", fn="cast_from", selfty="bint", sizes=["M"]),
    dict(coq="I_from_bool", group="C09", path="src/bint/cast.rs", macro="as_bint", head="($BInt: ident, $BUint: ident; $($ty: ty), *)",
         anchor="impl<const N: usize> CastFrom<$ty> for $BInt<N>", fn="cast_from", selfty="bint", sizes=[], ty="bool"),
    dict(coq="I_from_char", group="C09", path="src/bint/cast.rs", macro="as_bint", head="($BInt: ident, $BUint: ident; $($ty: ty), *)",
         anchor="impl<const N: usize> CastFrom<$ty> for $BInt<N>", fn="cast_from", selfty="bint", sizes=[], ty="char"),
    # ---- BTryFrom (src/buint/convert.rs): `impl<const $N, const M> $Trait<$From<$N>> for $To<M>`.  The fn body mentions neither
    # size by name (`Self`, `$From $(::<$N>)?::BITS`): it is translated with Self = the target (width w, size `N` of the generated
    # function = Rust's M) and the source `$From<$N>` of width ow and size `M` of the generated function (= Rust's $N).
    dict(coq="U_btry_from_U", group="C13", path="src/buint/convert.rs", macro="uint_try_from_uint", head=TRY_HEAD, anchor=TRY_IMPL,
         fn="try_from", selfty="buint", other="from", fromkind="obuint", sizes=["M"], bymodel=True),
    dict(coq="U_btry_from_I", group="C13", path="src/buint/convert.rs", macro="uint_try_from_int", head=TRY_HEAD, anchor=TRY_IMPL,
         fn="try_from", selfty="buint", other="from", fromkind="obint", sizes=["M"], bymodel=True),
    dict(coq="I_btry_from_U", group="C13", path="src/buint/convert.rs", macro="int_try_from_uint", head=TRY_HEAD, anchor=TRY_IMPL,
         fn="try_from", selfty="bint", other="from", fromkind="obuint", sizes=["M"], bymodel=True),
    dict(coq="I_btry_from_I", group="C13", path="src/buint/convert.rs", macro="int_try_from_int", head=TRY_HEAD, anchor=TRY_IMPL,
         fn="try_from", selfty="bint", other="from", fromkind="obint", sizes=["M"], bymodel=True),
    dict(coq="U_conv_from_bool", group="C13", path="src/buint/convert.rs", macro=None, anchor="impl<const N: usize> From<bool> for $BUint<N>",
         fn="from", selfty="buint", sizes=[], bymodel=True),
    dict(coq="U_conv_from_char", group="C13", path="src/buint/convert.rs", macro=None, anchor="impl<const N: usize> From<char> for $BUint<N>",
         fn="from", selfty="buint", sizes=[], bymodel=True),
    dict(coq="I_conv_from_bool", group="C13", path="src/bint/convert.rs", macro=None, anchor="impl<const N: usize> From<bool> for $BInt<N>",
         fn="from", selfty="bint", sizes=[], bymodel=True),
]
GROUPS = {}
for _t in TARGETS:
    GROUPS.setdefault(_t["group"], []).append(_t["coq"])
# trait resolution `<Target<N> as CastFrom<Source<M>>>::cast_from` (emitted after the eight impls; group C09)
RESOLVE = [("cast_UU", "U_cast_U", "U_castd_U"), ("cast_UI", "U_cast_I", "U_castd_I"),
           ("cast_IU", "I_cast_U", "I_castd_U"), ("cast_II", "I_cast_I", "I_castd_I")]
GROUPS["C09"] += [r[0] for r in RESOLVE]

# `Self::cast_from(x)` / `$BUint::cast_from(x)` inside the C09 functions: which translated impl is selected,
# by (target kind, kind of the argument's type)
CAST_IMPL = {("buint", "obuint"): "U_castd_U", ("buint", "obint"): "U_castd_I", ("buint", "buint"): "U_cast_U",
             ("buint", "bint"): "U_cast_I", ("buint", "bool"): "U_from_bool", ("buint", "char"): "U_from_char"}


# ---------------------------------------------------------------- parsing

class XP(L.LP):
    """L.LP + the types of the other digit kind, `bool` / `char` parameters, `Result<Self, Self::Error>`, `Err(TryFromIntError(()))`,
    `<$OtherBUint<M>>::BITS`, turbofish `$BUint::<N>::f(..)`."""

    def __init__(self, toks, tgt):
        L.LP.__init__(self, toks, tgt["selfty"], None)
        self.tgt = tgt

    def sized(self):
        """`<` SIZE `>` after a bnum type name; the lexer may have glued the `>` to a following one"""
        self.eat("<")
        z = self.ident()
        if self.peek() == ">>":
            self.t[self.i] = ">"                     # consume one of the two
        else:
            self.eat(">")
        return z

    def type_(self):
        v = self.peek()
        if v in ("$OtherBUint", "$OtherBInt"):
            self.eat()
            return L.Arr({"$OtherBUint": "obuint", "$OtherBInt": "obint"}[v], self.sized())
        if v in ("$BUint", "$BInt"):
            self.eat()
            k = {"$BUint": "buint", "$BInt": "bint"}[v]
            z = self.sized()
            return k if z == "N" else L.Arr(k, z)
        if v == "$FromT":                              # BTryFrom: `$From $(<$N>)?` (rewritten by prepare_try)
            self.eat()
            return L.Arr(self.tgt["fromkind"], "M")
        if v == "$OtherDigit":
            self.eat()
            return "ODigit"
        if v == "char":
            self.eat()
            return "char"
        if v == "$ty" and self.tgt.get("ty"):
            self.eat()
            return self.tgt["ty"]
        if v == "Self" and self.peek(1) != "::":
            self.eat()
            return self.selfty
        if v == "Result":
            self.eat()
            self.eat("<")
            t = self.type_()
            self.eat(",")
            for x in ("Self", "::", "Error"):
                self.eat(x)
            self.eat(">")
            return ("result", t)
        return L.LP.type_(self)

    def stmt(self):
        if self.peek() == "#":                                 # attributes on statements: only those without effect on behaviour
            if self.peek(1) != "[" or self.peek(2) not in ("allow", "inline", "must_use", "doc"):
                die("attribute #[%s ..] on a statement is not supported (only allow / inline / must_use / doc)" % self.peek(2))
        return L.LP.stmt(self)

    def primary(self):
        v = self.peek()
        if v == "Err":
            want = ["Err", "(", "TryFromIntError", "(", "(", ")", ")", ")"]
            if [self.peek(k) for k in range(len(want))] != want:
                die("Err(..): only Err(TryFromIntError(())) is supported")
            for x in want:
                self.eat(x)
            return ["err"]
        if v == "<" and self.peek(1) in ("$OtherBUint", "$OtherBInt", "$BUint", "$BInt"):
            self.eat("<")                                      # <$OtherBUint<M>>::BITS
            t = self.type_()
            self.eat(">")
            self.eat("::")
            name = self.ident()
            if name != "BITS":
                die("unsupported associated item <..>::%s" % name)
            return ["tbits", t]
        if v in ("$BUint", "$BInt") and self.peek(1) == "::" and self.peek(2) == "<":
            self.eat(), self.eat()                             # $BUint::<N>::f(..): the size is given explicitly
            z = self.sized()
            self.eat("::")
            name = self.ident()
            if self.peek() != "(":
                die("unsupported path %s::<%s>::%s" % (v, z, name))
            return ["pcall", [v, name], self.args(), z]
        return L.LP.primary(self)


# ---------------------------------------------------------------- generation

class XG(L.Gen):
    """L.Gen + digits / arrays of the other digit type, `/ % *` on usize / u32, Result, the calls between the cast impls and of
    the hand model."""

    def __init__(self, fname, sigs, digit_sigs, consts, tvs, final, tgt):
        L.Gen.__init__(self, fname, sigs, digit_sigs, consts, tvs, final)
        self.tgt = tgt
        self.calls = set()

    # ---- helpers
    def width(self, kind):
        if kind in OKINDS:
            if not self.tgt.get("other"):
                self.die("a value of another digit type in a function without $OtherDigit")
            return "ow"
        return "w"

    def arr_kind_size(self, t):
        """(kind, size) of an array type"""
        t = L.rs(t)
        if isinstance(t, L.Arr):
            return t.kind, t.size
        if t in L.ARRAYS:
            return t, "N"
        return None, None

    def nat(self, z, what):
        return "(Z.to_nat %s)" % self.size_str(z, what)

    def ex(self, e, env):
        k = e[0]
        if k == "err":
            return [], "Convert.Err", ("result", self.tv_any(e))
        if k == "tbits":                                   # <$OtherBUint<M>>::BITS = digit::$OtherDigit::BITS * M as ExpType
            kind, size = self.arr_kind_size(e[1])
            return [], "(%s * %s)" % (self.width(kind), self.size_str(size, "<..>::BITS")), "ExpType"
        if k == "field":
            save = self.ntmp
            p, v, t = self.ex(e[1], env)
            kind, size = self.arr_kind_size(t)
            if kind in ("obint", "obuint") and e[2] == {"obint": "bits", "obuint": "digits"}[kind]:
                return p, v, L.Arr({"obint": "obuint", "obuint": "odigits"}[kind], size)
            self.ntmp = save
            return L.Gen.ex(self, e, env)
        if k == "index":
            arr, elt = self.array_elt(e[1], env)
            p, v, t = self.ex(e[2], env)
            L.unify(t, "usize", "array index")
            x = self.tmp()
            return p + ["%s <- arr_get %s %s ;;" % (x, arr, v)], x, elt
        if k == "un" and e[1] == "!":
            save = self.ntmp
            p, v, t = self.ex(e[2], env)
            if L.rs(t) == "ODigit":
                return p, "(u_not ow %s)" % v, "ODigit"
            self.ntmp = save
            return L.Gen.ex(self, e, env)
        if k == "as":
            save = self.ntmp
            p, v, t = self.ex(e[1], env)
            src, dst = L.rs(t), e[2]
            if (src, dst) == ("ODigit", "Digit"):          # a digit of the other type as $Digit: truncation or zero extension
                return p, "(ud w %s)" % v, "Digit"
            if (src, dst) == ("char", "ExpType"):          # char as u32: the code point
                return p, v, "ExpType"
            if src in ("ODigit", "char") or dst in ("ODigit", "char"):
                self.die("unsupported cast %s as %s" % (show(src), show(dst)))
            self.ntmp = save
            return L.Gen.ex(self, e, env)
        return L.Gen.ex(self, e, env)

    def array_elt(self, e, env):
        """the array variable behind `x.digits` / `x.bits.digits` / `(&x.digits)` and its element type"""
        while e[0] == "un" and e[1] == "&":
            e = e[2]
        want = ("digits", "odigits")
        if e[0] == "field" and e[2] == "digits":
            e, want = e[1], ("buint", "obuint")
            if e[0] == "field" and e[2] == "bits":
                e, want = e[1], ("bint", "obint")
        if e[0] == "var" and e[1] in env:
            kind = self.kind_of(env[e[1]].ty)
            if kind in want:
                if kind in OKINDS:
                    self.width(kind)
                return e[1], ("ODigit" if kind in OKINDS else "Digit")
        self.die("unsupported array expression " + str(e))

    def array_of(self, e, env):
        arr, elt = self.array_elt(e, env)
        if elt != "Digit":
            self.die("write to an array of the other digit type")
        return arr

    def path(self, segs, env, node=None):
        s = tuple(segs)
        if s[:2] == ("crate", "digit"):
            s = s[1:]
        if s == ("$OtherDigit", "BITS") or s == ("digit", "$OtherDigit", "BITS"):
            return [], self.width("odigits"), "ExpType"
        if s == ("digit", "$OtherDigit", "BIT_SHIFT"):
            return [], "(digit_BIT_SHIFT %s)" % self.width("odigits"), "ExpType"
        if s == ("$OtherDigit", "MAX"):
            return [], "(u_max %s)" % self.width("odigits"), "ODigit"
        if s == ("$FromT", "BITS"):                        # $From $(::<$N>)?::BITS: the BITS of the source type
            return [], "(%s * M)" % self.width(self.tgt["fromkind"]), "ExpType"
        if s == ("Self", "BITS"):                          # bint/consts.rs: BITS = $BUint::<N>::BITS (pattern-checked)
            return [], "(w * N)", "ExpType"
        if s == ("Self", "ONE") and self.selfty == "buint":
            # buint/consts.rs: pos_const!(ONE 1, ..) = Self::from_digit(1) (pattern-checked); by hand-model name (from_digit: LoopsTieC06b)
            return [], "(Core.ONE (Z.to_nat N))", "buint"
        return L.Gen.path(self, list(s), env, node)

    def bin(self, e, env):
        _, op, a, b = e
        save = self.ntmp
        pa, va, ta = self.ex(a, env)
        pb_, vb, tb = self.ex(b, env)
        if op in ("<<", ">>") and L.rs(ta) == "ODigit":
            if not L.is_int(tb):
                self.die("shift amount of type " + show(tb))
            x = self.tmp()
            return pa + pb_ + ["%s <- %s ow %s %s ;;" % (x, {"<<": "dshl", ">>": "dshr"}[op], va, vb)], x, "ODigit"
        if op in ("*", "/", "%"):
            t = L.unify(ta, tb, "operands of " + op)
            if isinstance(L.rs(t), L.TVar) and not self.final:
                return pa + pb_, "0", t
            t = self.need(t, "operands of " + op)
            if t not in ("usize", "ExpType"):
                self.die("operator %s on %s: only on usize / u32" % (op, show(t)))
            if op == "*":                                  # like `+`: never assumed to overflow (a digit count / a bit count)
                return pa + pb_, "(%s * %s)" % (va, vb), t
            x = self.tmp()                                 # division / remainder: a zero divisor panics
            return pa + pb_ + ["%s <- %s %s %s ;;" % (x, {"/": "udiv", "%": "urem"}[op], va, vb)], x, t
        if L.rs(ta) == "ODigit" or L.rs(tb) == "ODigit":
            self.die("operator %s on a digit of the other type: not supported" % op)
        self.ntmp = save
        return L.Gen.bin(self, e, env)

    def mcall(self, e, env):
        _, recv, name, args = e
        save = self.ntmp
        p, v, t = self.ex(recv, env)
        kind, size = self.arr_kind_size(t)
        if kind in SIGNED:
            wd = self.width(kind)
            if name == "is_negative" and not args and SIGNED[kind]:     # hand model by name (its own tie: GlueTieC07)
                return p, "(Core.is_negative %s %s)" % (wd, v), "bool"
            if name == "to_bits" and not args and SIGNED[kind]:         # bint/mod.rs: to_bits(self) = self.bits (pattern-checked)
                k2 = {"bint": "buint", "obint": "obuint"}[kind]
                return p, "(Cast.to_bits %s)" % v, L.rs(L.Arr(k2, size))
            if name in ("leading_zeros", "leading_ones") and not args:  # hand model by name (LoopsTieC06; bint: self.bits.f())
                return p, "(Bits.%s %s %s)" % (name, wd, v), "ExpType"
            if name in ("cast_up", "cast_down") and kind == "buint":     # hand model by name (LoopsTieC09)
                z = self.tv_any(e)                                      # cast_up<const M>(self, digit) -> $BUint<M>: M is inferred
                if len(args) != {"cast_up": 1, "cast_down": 0}[name]:
                    self.die("call of %s with %d arguments" % (name, len(args)))
                vs = []
                for a in args:
                    p2, v2, t2 = self.ex(a, env)
                    L.unify(t2, "Digit", "argument of " + name)
                    p += p2
                    vs.append(v2)
                x = self.tmp()
                call = "Cast.%s %s %s" % (name, v, " ".join([self.nat(z, "the result of " + name)] + vs))
                return p + ["%s <- of_outcome (%s) ;;" % (x, call)], x, L.rs(L.Arr("buint", z))
            self.die("unsupported method call .%s on %s" % (name, show(t)))
        self.ntmp = save
        return L.Gen.mcall(self, e, env)

    def cast_from(self, e, env, target, size):
        """`Self::cast_from(x)` / `$BUint::cast_from(x)`: which impl of CastFrom is selected depends on the type of x"""
        args = e[2]
        if len(args) != 1:
            self.die("call of cast_from with %d arguments" % len(args))
        p, v, t = self.ex(args[0], env)
        t0 = L.rs(t)
        kind, sz = self.arr_kind_size(t0)
        n = self.nat(size, "the result of cast_from")
        rty = L.rs(L.Arr(target, size))
        x = self.tmp()
        if target == "buint" and t0 == "ExpType":          # as_buint! at u32 (LoopsTieC09)
            return p + ["%s <- of_outcome (Cast.U_from_int 32 w %s %s) ;;" % (x, n, v)], x, rty
        if isinstance(t0, L.TVar):
            self.die("cast_from of a value of undetermined type")
        if self.tgt.get("bymodel"):                        # the hand model by name; its tie is C09's obligation
            pre = {"buint": "U", "bint": "I"}[target]
            if t0 == "bool":
                return p, "(Cast.%s_from_bool %s %s)" % (pre, n, v), rty
            if t0 == "char" and target == "buint":
                return p + ["%s <- of_outcome (Cast.U_from_char w %s %s) ;;" % (x, n, v)], x, rty
            if kind in SIGNED:
                self.uses_dbg = True
                call = "Cast.cast dbg %s w %s %s %s %s" % (self.width(kind), n, str(SIGNED[kind]).lower(), str(SIGNED[target]).lower(), v)
                return p + ["%s <- of_outcome (%s) ;;" % (x, call)], x, rty
            self.die("cast_from of a value of type %s" % show(t0))
        coq = CAST_IMPL.get((target, kind if kind else t0))
        if coq is None:
            self.die("cast_from of a value of type %s into %s: no translated impl" % (show(t0), target))
        sg = self.sigs.get(coq)
        if sg is None:
            self.die("call of cast_from (%s), whose translation failed" % coq)
        ct = sg["tgt"]
        extra = []
        if ct.get("other"):
            extra.append(self.width(kind))
        if ct["sizes"]:
            extra.append(self.size_str(sz, "the argument of cast_from"))
        self.calls.add(coq)
        nn = self.size_str(size, "the result of cast_from")
        return p + ["%s <- %s w %s fuel %s ;;" % (x, coq, nn, " ".join(extra + [v]))], x, rty

    def pcall(self, e, env):
        segs, args = e[1], e[2]
        s = tuple(segs)
        if s == ("Ok",) and len(args) == 1:
            p, v, t = self.ex(args[0], env)
            return p, "(Convert.Ok %s)" % v, ("result", t)
        if len(s) == 2 and s[0] in ("Self", "$BUint") and s[1] == "cast_from":
            target = self.selfty if s[0] == "Self" else "buint"
            size = "N" if s[0] == "Self" else (e[3] if len(e) > 3 else self.tv_any(e))
            return self.cast_from(e, env, target, size)
        if s == ("Self", "from_bits") and self.selfty == "bint" and len(args) == 1:     # bint/mod.rs from_bits: Self { bits } (pattern-checked)
            p, v, t = self.ex(args[0], env)
            L.unify(t, "buint", "argument of from_bits")
            return p, "(Cast.from_bits %s)" % v, "bint"
        if len(e) > 3:
            self.die("unsupported call %s::<%s>::%s" % (s[0], e[3], s[1]))
        return L.Gen.pcall(self, e, env)


# ---------------------------------------------------------------- extraction and checks

def braces(txt, start, path):
    b0 = txt.index("{", start)
    d, e = 0, b0
    while True:
        if e >= len(txt):
            die("%s: unbalanced braces in the macro body" % path)
        d += {"{": 1, "}": -1}.get(txt[e], 0)
        e += 1
        if d == 0:
            break
    return txt[b0:e]


def read(path):
    p = os.path.join(REPO, path)
    if not os.path.exists(p):
        die("source file %s not found" % p)
    return L.strip_comments(open(p).read())


def main_triples(lib):
    """the ($BUint, $BInt, $Digit) triples of `main_impl!` (src/lib.rs): every `crate::macro_impl!(name)` instantiates `name!` at these"""
    mm = re.search(r"macro_rules!\s*main_impl\s*\{\s*\(\s*\$name\s*:\s*ident\s*\)\s*=>", lib)
    if not mm:
        die("src/lib.rs: macro_rules! main_impl not found")
    body = braces(lib, mm.end(), "src/lib.rs")
    tr = re.findall(r"\$name!\s*\(\s*(\w+)\s*,\s*(\w+)\s*,\s*(\w+)\s*\)\s*;", body)
    if not tr or re.sub(r"\$name!\s*\([^()]*\)\s*;|\s", "", body) != "{}":
        die("src/lib.rs: cannot read the instantiation list of main_impl!")
    for bu, bi, d in tr:
        if not re.fullmatch(r"u(8|16|32|64|128)", d):
            die("src/lib.rs: main_impl! instantiates a digit type outside the modelled kind (power-of-two width): " + d)
    if len(set(t[2] for t in tr)) != len(tr) or len(set(t[0] for t in tr)) != len(tr) or len(set(t[1] for t in tr)) != len(tr):
        die("src/lib.rs: main_impl! lists a type twice")
    mi = re.search(r"macro_rules!\s*macro_impl\s*\{\s*\(\s*\$name\s*:\s*ident\s*\)\s*=>", lib)
    if not mi or not re.search(r"crate\s*::\s*main_impl!\s*\(\s*\$name\s*\)\s*;", braces(lib, mi.end(), "src/lib.rs")):
        die("src/lib.rs: macro_impl! no longer expands to crate::main_impl!($name)")
    return tr


def check_dd_lists(lib, triples, macro, which):
    """every ordered pair of DIFFERENT digit types has exactly one instance of the macro: for each (BU, BI, D) of main_impl!,
    one invocation `macro!(BU, BI, D; (X', D') for exactly the other triples)`, X' = the unsigned / signed type of D'"""
    uses = re.findall(r"(?<![\w!$:])%s!\s*\(([^;]*);(.*?)\)\s*;" % re.escape(macro), lib, re.S)
    heads = {}
    for pre, lst in uses:
        key = tuple(x.strip() for x in pre.split(","))
        if key in heads:
            die("src/lib.rs: %s! is instantiated twice for %s" % (macro, ", ".join(key)))
        heads[key] = sorted(re.findall(r"\(\s*(\w+)\s*,\s*(\w+)\s*\)", lst))
        if re.sub(r"\(\s*\w+\s*,\s*\w+\s*\)|[\s,]", "", lst):
            die("src/lib.rs: cannot read the instantiation list of %s!(%s; ..)" % (macro, pre.strip()))
    if sorted(heads) != sorted(triples):
        die("src/lib.rs: %s! is not instantiated exactly once for every type triple of main_impl!" % macro)
    for (bu, bi, d) in triples:
        want = sorted((t[0] if which == "U" else t[1], t[2]) for t in triples if t[2] != d)
        if heads[(bu, bi, d)] != want:
            die("src/lib.rs: %s!(%s, %s, %s; ..): the list of other types is not `%s`"
                % (macro, bu, bi, d, ", ".join("(%s, %s)" % x for x in want)))


def check_macro_impl(txt, path, name):
    if len(re.findall(r"crate\s*::\s*macro_impl!\s*\(\s*%s\s*\)\s*;" % name, txt)) != 1:
        die("%s: `crate::macro_impl!(%s);` not found exactly once" % (path, name))


def macro_body(files, tgt, triples):
    """the text in which the fn is searched, after the checks of the macro's rule head and of its invocations"""
    path, name = tgt["path"], tgt["macro"]
    txt = files[path]
    if name is None:                                       # a fn of the file's ($BUint, $BInt, $Digit) macro, instantiated by macro_impl!
        mm = re.search(r"macro_rules!\s*(\w+)\s*\{\s*\(\s*\$BUint\s*:\s*ident\s*,\s*\$BInt\s*:\s*ident\s*,\s*\$Digit\s*:\s*ident\s*\)", txt)
        if not mm:
            die("%s: macro_rules! with ($BUint, $BInt, $Digit) not found" % path)
        check_macro_impl(txt, path, mm.group(1))
        return braces(txt, mm.start(), path)
    toks = rtoks(tgt["head"])
    head = r"\s*".join([r"[({]"] + [re.escape(t) for t in toks[1:-1]] + [r"[)}]"])
    mm = re.search(r"macro_rules!\s*%s\s*\{\s*%s\s*=>" % (re.escape(name), head), txt)
    if not mm:
        die("%s: macro_rules! %s with the expected parameter list not found" % (path, name))
    body = braces(txt, mm.start(), path)
    if tgt.get("other") in ("U", "I"):
        check_dd_lists(files["src/lib.rs"], triples, name, tgt["other"])
    elif name == "as_bint":
        uses = re.findall(r"(?<![\w!$])as_bint!\s*\(([^()]*)\)\s*;", txt)
        if len(uses) != 1:
            die("%s: as_bint! is not invoked exactly once" % path)
        pre, _, lst = uses[0].rpartition(";")
        items = [x.strip() for x in lst.split(",") if x.strip()]
        if re.sub(r"\s+", "", pre) != "$BInt,$BUint" or items.count(tgt["ty"]) != 1:
            die("%s: as_bint!(%s): expected `$BInt, $BUint; .., %s, ..`" % (path, uses[0].strip(), tgt["ty"]))
        for it in items:
            if not re.fullmatch(r"[ui](8|16|32|64|128|size)|bool|char", it):
                die("%s: macro as_bint is instantiated for types outside the modelled kind: %s" % (path, it))
    elif tgt.get("other") == "from":
        # invoked once, inside mixed_try_from!($BUint, $BInt), itself invoked once inside the file's ($BUint, $BInt, $Digit) macro
        uses = re.findall(r"(?<![\w!$])%s!\s*\(([^()]*)\)\s*;" % re.escape(name), txt)
        if len(uses) != 1:
            die("%s: %s! is not invoked exactly once" % (path, name))
        parts = [x.strip() for x in uses[0].split(";")]
        want_to = {"buint": "$BUint", "bint": "$BInt"}[tgt["selfty"]]
        froms = sorted(re.sub(r"\s+", "", x) for x in parts[2].split(",") if x.strip()) if len(parts) == 3 else None
        col = 0 if tgt["fromkind"] == "obuint" else 1
        if len(parts) != 3 or parts[0] != "BTryFrom" or parts[1] != want_to or froms != sorted(t[col] + "<N>" for t in triples):
            die("%s: %s!(%s): expected `BTryFrom; %s; %s`" % (path, name, uses[0].strip(), want_to, ", ".join(t[col] + "<N>" for t in triples)))
        mt = re.search(r"macro_rules!\s*mixed_try_from\s*\{\s*\(\s*\$BUint\s*:\s*ident\s*,\s*\$BInt\s*:\s*ident\s*\)\s*=>", txt)
        if not mt or uses[0] not in braces(txt, mt.end(), path):
            die("%s: %s! is not invoked inside mixed_try_from!($BUint: ident, $BInt: ident)" % (path, name))
        if len(re.findall(r"(?<![\w!$])mixed_try_from!\s*\(\s*\$BUint\s*,\s*\$BInt\s*\)\s*;", txt)) != 1 or \
           len(re.findall(r"(?<![\w!$])mixed_try_from!\s*[({]", txt)) != 1:
            die("%s: mixed_try_from!($BUint, $BInt); is not invoked exactly once" % path)
        if not re.search(r"pub\s+trait\s+BTryFrom\s*<\s*T\s*>\s*:\s*Sized\s*\{\s*type\s+Error\s*;\s*fn\s+try_from\s*\(\s*from\s*:\s*T\s*\)\s*->\s*"
                         r"Result\s*<\s*Self\s*,\s*Self\s*::\s*Error\s*>\s*;\s*\}", files["src/lib.rs"]):
            die("src/lib.rs: trait BTryFrom has changed")
    else:
        die("internal: no invocation check for macro " + name)
    return body


def prepare_try(fbody, params, ret):
    """BTryFrom macros: `$From $(::<$N>)?::BITS` / `$From $(<$N>)?` -> the single tokens `$FromT::BITS` / `$FromT`"""
    def sub(s):
        s = re.sub(r"\$From\s*\$\(\s*::\s*<\s*\$N\s*>\s*\)\s*\?\s*::", "$FromT::", s)
        s = re.sub(r"\$From\s*\$\(\s*<\s*\$N\s*>\s*\)\s*\?", "$FromT", s)
        if re.search(r"\$From\b|\$N\b|\$\(", s):
            die("BTryFrom macro: a use of $From / $N outside `$From $(<$N>)?` and `$From $(::<$N>)?::`")
        return s
    return sub(fbody), sub(params), sub(ret)


def parse_sig(tgt, generics, params, ret):
    name = tgt["fn"]
    sig = {"self": False, "params": [], "generics": [(z, "usize") for z in tgt["sizes"]], "mut": set(), "selfty": tgt["selfty"],
           "rust": name, "callable": False, "mutref": False, "dbg": False, "prim": None, "coq": tgt["coq"], "tgt": tgt}
    if generics:
        die("fn %s: generic parameters are not supported" % name)
    t = XP(L.tokenize(params), tgt)
    while t.peek() is not None:
        if t.peek() in ("self", "&", "mut"):
            die("fn %s: only plain by-value parameters are supported" % name)
        pn = t.ident()
        t.eat(":")
        sig["params"].append((pn, t.type_()))
        if t.peek() == ",":
            t.eat(",")
        elif t.peek() is not None:
            die("fn %s: cannot parse the parameter list" % name)
    if ret is None:
        die("fn %s: no return type" % name)
    r = XP(L.tokenize(ret), tgt)
    sig["ret"] = r.type_()
    if r.peek() is not None:
        die("fn %s: cannot parse the return type %s" % (name, ret))
    return sig


def translate_one(tgt, fns, sigs, dsigs):
    coq = tgt["coq"]
    sig, body = sigs[coq], fns[coq]
    ast = XP(L.tokenize(body), tgt).block()
    tvs, txt, g = {}, None, None
    for final in (False, True):
        g = XG(coq, sigs, dsigs, {}, tvs, final, tgt)
        env, ctx = {}, {"loop": None, "protected": set()}
        for z in tgt["sizes"]:
            env[z] = L.Var("usize", False)
        for pn, pt in sig["params"]:
            g.declare(env, pn, pt, False, ctx)
        txt = g.stmts(ast, env, ctx, 1)
    if g.recursive:
        die("fn %s: recursion is not supported here" % tgt["fn"])
    sig["dbg"] = g.uses_dbg
    argl = " (ow : Z)" if tgt.get("other") else ""
    argl += "".join(" (%s : Z)" % z for z in tgt["sizes"])
    argl += "".join(" (%s : %s)" % (n, coq_ty(t)) for n, t in sig["params"])
    rty = coq_ty(sig["ret"])
    what = "macro %s!, " % tgt["macro"] if tgt["macro"] else ""
    if tgt.get("ty"):
        what += "$ty = %s, " % tgt["ty"]
    head = "(* %s: %s`%s`, fn %s *)\n" % (tgt["path"], what, tgt["anchor"], tgt["fn"])
    if tgt.get("other") == "from":
        head += "(* Self = the target $To<M>: digit width w, size N here (Rust's M);  $From<$N>: digit width ow, size M here (Rust's $N) *)\n"
    return head + "Definition %s %s(w N : Z) (fuel : nat)%s : res %s :=\n%s.\n" % (
        coq, "(dbg : bool) " if g.uses_dbg else "", argl, rty if rty.startswith("(") or " " not in rty else "(" + rty + ")", txt), g.calls


HEADER = ["(* GENERATED on every run by tools/rs2v_xcast.py from /repo/src/{buint,bint}/{cast,convert}.rs (casts and checked conversions",
          "   BETWEEN bnum integer types, bool / char -> bnum).  Do not edit.  Proofs/XcastGenTie*.v prove each function equal to the hand model.",
          "   w, N = digit width and size of `Self` (the target);  ow, M = digit width and size of the source ($OtherDigit / $OtherBUint<M>;",
          "   in the BTryFrom macros: $From<$N>).  Instantiation lists (src/lib.rs, mixed_try_from!, as_bint!) are checked by the translator.",
          "   Vocabulary: Model/Imp.v (control flow), Model/ImpXcast.v (udiv, urem), Prim.v, Model/LoopPrims.v; by qualified name from the hand",
          "   model: Core.is_negative, Core.ONE, Cast.from_bits / to_bits, Bits.leading_zeros / leading_ones, Convert.result, and the callees",
          "   tied elsewhere: Cast.cast_up / cast_down, Cast.U_from_int (LoopsTieC09); in the C13 functions Cast.cast, Cast.U_from_bool .. (C09). *)",
          "From Bnum Require Import Base Prim.",
          "From Bnum.Model Require Import DigitPrims LoopPrims Core Imp ImpXcast.",
          "From Bnum.Model Require Bits Cast Convert.",
          "From Bnum.Generated Require Import DigitGen.", "", "Module XcastGen.", ""]


def checks_global(files):
    """one-line definitions that the generated code uses by hand-model name"""
    csrc = files["src/buint/consts.rs"]
    if not re.search(r"pub\s+const\s+BITS\s*:\s*ExpType\s*=\s*digit\s*::\s*\$Digit\s*::\s*BITS\s*\*\s*N\s+as\s+ExpType\s*;", csrc):
        die("src/buint/consts.rs: `BITS = digit::$Digit::BITS * N as ExpType` has changed")
    if not re.search(r"macro_rules!\s*pos_const\s*\{\s*\(\s*\$\(\s*\$name\s*:\s*ident\s+\$num\s*:\s*literal\s*\)\s*,\s*\*\s*\)\s*=>\s*\{\s*\$\(\s*"
                     r"(#\[[^\]]*\]\s*)*pub\s+const\s+\$name\s*:\s*Self\s*=\s*Self\s*::\s*from_digit\s*\(\s*\$num\s*\)\s*;\s*\)\s*\*\s*\}", csrc):
        die("src/buint/consts.rs: macro pos_const (`pub const $name: Self = Self::from_digit($num);`) has changed")
    if not re.search(r"pos_const!\s*\(\s*ONE\s+1\s*,", csrc):
        die("src/buint/consts.rs: `pos_const!(ONE 1, ..);` has changed")
    isrc = files["src/bint/consts.rs"]
    if not re.search(r"pub\s+const\s+BITS\s*:\s*ExpType\s*=\s*\$BUint\s*::\s*<\s*N\s*>\s*::\s*BITS\s*;", isrc):
        die("src/bint/consts.rs: `BITS = $BUint::<N>::BITS` has changed")
    msrc = files["src/bint/mod.rs"]
    if not re.search(r"pub\s+struct\s+\$BInt\s*<\s*const\s+N\s*:\s*usize\s*>\s*\{\s*(pub\s*(\([^)]*\))?\s*)?bits\s*:\s*\$BUint\s*<\s*N\s*>\s*,?\s*\}", msrc):
        die("src/bint/mod.rs: `struct $BInt<const N: usize> { bits: $BUint<N> }` has changed")
    if not re.search(r"fn\s+from_bits\s*\(\s*bits\s*:\s*\$BUint\s*<\s*N\s*>\s*\)\s*->\s*Self\s*\{\s*Self\s*\{\s*bits\s*\}\s*\}", msrc):
        die("src/bint/mod.rs: `from_bits(bits) -> Self { Self { bits } }` has changed")
    if not re.search(r"fn\s+to_bits\s*\(\s*self\s*\)\s*->\s*\$BUint\s*<\s*N\s*>\s*\{\s*self\s*\.\s*bits\s*\}", msrc):
        die("src/bint/mod.rs: `to_bits(self) -> $BUint<N> { self.bits }` has changed")
    for f in ("leading_zeros", "leading_ones"):
        if not re.search(r"fn\s+%s\s*\(\s*self\s*\)\s*->\s*ExpType\s*\{\s*self\s*\.\s*bits\s*\.\s*%s\s*\(\s*\)\s*\}" % (f, f), msrc):
            die("src/bint/mod.rs: `%s(self) -> ExpType { self.bits.%s() }` has changed" % (f, f))


def main():
    group = sys.argv[sys.argv.index("--for") + 1] if "--for" in sys.argv else None
    dsrc = read("src/digit.rs")
    L.check_digit_consts(dsrc)                         # global failure: BIT_SHIFT / BITS definitions changed
    dsigs = L.digit_sigs(dsrc)
    files = dict((p, read(p)) for p in ["src/lib.rs", "src/buint/consts.rs", "src/bint/consts.rs", "src/bint/mod.rs",
                                        "src/buint/cast.rs", "src/bint/cast.rs", "src/buint/convert.rs", "src/bint/convert.rs"])
    checks_global(files)
    triples = main_triples(files["src/lib.rs"])
    failed, fns, sigs = {}, {}, {}
    for tgt in TARGETS:
        coq = tgt["coq"]
        try:
            body = macro_body(files, tgt, triples)
            generics, params, ret, fbody = L.find_fn(body, rx(tgt["anchor"]), tgt["fn"], tgt["path"])
            if tgt.get("other") == "from":
                fbody, params, ret = prepare_try(fbody, params, ret)
            sigs[coq] = parse_sig(tgt, generics, params, ret)
            fns[coq] = fbody
        except SystemExit:
            failed[coq] = LAST_MSG[0]
        except Exception as ex:                          # noqa: a bug in the translator must not look like success
            failed[coq] = repr(ex)
    texts, calls = {}, {}
    while True:
        again = False
        for tgt in TARGETS:
            coq = tgt["coq"]
            if coq in failed:
                continue
            try:
                texts[coq], calls[coq] = translate_one(tgt, fns, sigs, dsigs)
            except SystemExit:
                failed[coq] = LAST_MSG[0]
            except Exception as ex:
                failed[coq] = repr(ex)
            if coq in failed:
                sigs.pop(coq, None)
                again = True
        if not again:
            break
    out = list(HEADER)
    emitted = []

    def emit(coq, stack):
        if coq in emitted or coq in failed:
            return
        if coq in stack:
            die("recursion among the casts: " + " -> ".join(stack + [coq]))
        for c in sorted(calls[coq]):
            emit(c, stack + [coq])
        emitted.append(coq)
        out.append(texts[coq])

    def stub(coq, where, why):
        out.append("(* %s  -- NOT TRANSLATED: %s *)\nDefinition %s : unit := tt.\n" % (where, why.replace("*)", "* )").replace("(*", "( *"), coq))
    for tgt in TARGETS:
        coq = tgt["coq"]
        if coq in failed:
            stub(coq, "%s: %s, fn %s" % (tgt["path"], "macro %s!" % tgt["macro"] if tgt["macro"] else "`%s`" % tgt["anchor"], tgt["fn"]), failed[coq])
        else:
            emit(coq, [])
    # trait resolution: which impl `<Target<N> as CastFrom<Source<M>>>::cast_from` is, for two bnum types given by their digit widths
    out.append("(* Trait resolution.  `<T<N> as CastFrom<S<M>>>::cast_from` for bnum types T, S: S has the digit type of T (ow = w) - the impl of\n"
               "   the file's macro (instantiated by macro_impl! for every digit type) -, or another one - the instance of\n"
               "   buint_ / bint_as_different_digit_bigint! (src/lib.rs lists one for every ordered pair of different digit types: checked). *)")
    for name, same, diff in RESOLVE:
        if same in failed or diff in failed:
            failed[name] = "%s is not translated" % (same if same in failed else diff)
            stub(name, "trait resolution", failed[name])
        else:
            out.append("Definition %s (w N : Z) (fuel : nat) (ow M : Z) (from : list Z) : res (list Z) :=\n"
                       "  if ow =? w then %s w N fuel M from else %s w N fuel ow M from.\n" % (name, same, diff))
    out.append("End XcastGen.")
    txt = "\n".join(out) + "\n"
    p = os.path.join(ROOT, "coq", "Generated", "XcastGen.v")
    if not os.path.exists(p) or open(p).read() != txt:
        open(p, "w").write(txt)
    if failed:
        hit = [f for f in failed if group is None or f in GROUPS.get(group, [])]
        sys.stderr.write("rs2v_xcast: not translated (stub emitted, its tie lemma will not check): %s\n" % ", ".join(sorted(failed)))
        return 1 if hit else 0
    return 0


if __name__ == "__main__":
    sys.exit(main())

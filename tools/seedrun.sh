#!/bin/bash
# tools/seedrun.sh <patch.diff> <prop> [<prop>...] : apply a seeded change to /repo, run the given checks, undo it.
PATCH=$(readlink -f "$1"); shift
cd /repo && git status --short | grep -q . && { echo "/repo not clean"; exit 2; }
git -C /repo apply "$PATCH" || { echo "patch does not apply"; exit 2; }
cd /verif
for p in "$@"; do
  out=$(VERIF_SEED=${VERIF_SEED:-7} ./check $p --tier ${TIER:-quick} 2>&1 | grep -v conda | tail -3)
  if echo "$out" | grep -q "^VIOLATION"; then echo "$p: DETECTED  $(echo "$out" | grep '^VIOLATION')"; r=$(echo "$out" | grep '^VIOLATION' | sed 's/.*replay=\([^ ]*\).*/\1/'); python3 -c "
import json,sys; d=json.load(open('$r')); print('    case:', d.get('case')); print('    impl:', d.get('implementation', d.get('implementation_results'))); print('    model:', d.get('model_equals_spec_by_theorem')); print('    what:', d.get('what','')[:200]); print('    proof:', str(d.get('proof_obligation_that_no_longer_checks'))[:260])"
  else echo "$p: missed   $(echo "$out" | tail -1)"; fi
done
git -C /repo checkout -- .
for t in /verif/tools/rs2v_*.py; do case $t in *_v1.py) ;; *) python3 $t >/dev/null 2>&1 || true;; esac; done
rm -rf /verif/replays
# restore evidence files written during the seeded run
cd /verif && git checkout -- evidence 2>/dev/null

#!/usr/bin/env python3
"""tools/rs2v_float.py — TRANSLATOR: the casts between bnum integers and f32 / f64  ->  coq/Generated/FloatGen.v   (property C14)

Reads $BNUM_REPO (default /repo)
  src/cast/float/mod.rs              impl_convert_float_parts_for_primitive_float!: the nine live decode / encode helpers of `ConvertFloatParts`
  src/cast/float/uint_from_float.rs  cast_uint_from_float<F, U>
  src/cast/float/float_from_uint.rs  cast_float_from_uint<U, F>
  src/helpers.rs                     impl_bits_for_uint!: `bits`, `bit` of the mantissa words u32 / u64
  src/buint/cast.rs                  buint_as_float! (CastFrom<$BUint<N>> for f32 / f64), CastFrom<f32 / f64> for $BUint<N>
  src/bint/cast.rs                   CastFrom<$BInt<N>> for f32 / f64, bint_cast_from_float! (CastFrom<f32 / f64> for $BInt<N>)
and translates every function into a Gallina function over coq/Model/Imp.v (res monad, checked shifts / subtractions), the
two `try_from` conversions of coq/Model/ImpFloat.v, and - by qualified name - the float-format parameters and primitive
bit-pattern operations of the hand model coq/Model/FloatCast.v.  The GENERIC functions (over the traits FloatCastHelper /
ConvertFloatParts / CastUintFromFloatHelper / CastFloatFromUintHelper) are translated ONCE, with the float format
`(F : FloatCast.ffmt)` and the digit list `(w N)` as parameters; the impls that bind the trait items are pattern-checked on
every run.  coq/Proofs/FloatGenTie*.v prove every generated function equal to the hand model.

The lexer, parser (L.LP), type machinery and statement generator (L.Gen) are those of tools/rs2v_loops.py, extended by
subclassing; see tools/FLOAT_TRANSLATOR.md.  Anything outside the subset: the construct is named on stderr, the function
(and every generated function that calls it) becomes the stub `Definition f : unit := tt.`, exit status 1 (with `--for Cxx`:
only when Cxx = C14, or on a global failure)."""
import re, sys, os
sys.path.insert(0, os.path.dirname(os.path.abspath(__file__)))
import rs2v_loops as L

REPO = os.environ.get("BNUM_REPO", "/repo")
ROOT = os.path.dirname(os.path.dirname(os.path.abspath(__file__)))
LAST_MSG = [""]


def die(msg):
    LAST_MSG[0] = msg
    sys.stderr.write("rs2v_float: " + msg + "\n")
    sys.exit(1)


L.die = die     # rs2v_loops looks `die` up as a module global at call time

# Integer types added to those of rs2v_loops (all are `Z` in Gallina):
#   Mant   a value of the mantissa word type (u32 for f32, u64 for f64): a number in [0, 2^fbits F)
#   SExp   a value of the signed exponent type (i32): the mathematical integer
# (the unsigned exponent type is u32 = ExpType.)  Float = a float, i.e. its bit pattern (`to_bits` / `from_bits` are the identity).
L.INTS = L.INTS + ("Mant", "SExp")
L.RESERVED |= {"F", "Ok", "Err"}

_coq_ty0, _show0 = L.coq_ty, L.show


def is_try(t):
    return isinstance(t, tuple) and len(t) == 2 and t[0] == "tryres"


def coq_ty(t):
    t = L.rs(t)
    if t == "Float":
        return "Z"
    if isinstance(t, tuple) and not L.is_opt(t) and not is_try(t):
        return "(" + " * ".join(coq_ty(x) for x in t) + ")"
    return _coq_ty0(t)


def show(t):
    t = L.rs(t)
    if is_try(t):
        return "Result<%s, _>" % show(t[1])
    return _show0(t)


L.coq_ty, L.show = coq_ty, show


def rtoks(text):
    return re.findall(r"\$?\w+!?|::|->|=>|\S", text)


def rx(text):
    """regex matching the Rust token sequence `text` with arbitrary white space between tokens"""
    return r"\s*".join(re.escape(t) for t in rtoks(text))


def need(txt, pattern, what, path):
    if not re.search(rx(pattern) if isinstance(pattern, str) else pattern[0], txt):
        die("%s: %s has changed (expected `%s`)" % (path, what, pattern if isinstance(pattern, str) else pattern[1]))


FLOATS = {"f32": ("FloatCast.F32", "u32", "32"), "f64": ("FloatCast.F64", "u64", "64")}

# ---------------------------------------------------------------- what is translated
# kind    parts   a fn of impl_convert_float_parts_for_primitive_float! (Self = the float; generic in F)
#         bits    a fn of impl_bits_for_uint! (helpers.rs; Self = the mantissa word; generic in F through its width)
#         generic cast_uint_from_float / cast_float_from_uint
#         uglue   a fn of the cast! macro of src/buint/cast.rs (Self = $BUint<N>), at ONE float type
#         iglue   a fn of the cast! macro of src/bint/cast.rs (Self = $BInt<N>), at ONE float type
PARTS_MACRO = "impl_convert_float_parts_for_primitive_float"
PARTS_HEAD = "($float_type: ty, $unsigned_exponent_type: ty, $signed_exponent_type: ty, $mantissa_type: ty, $float_bit_width: literal)"
PARTS = ["into_raw_parts", "into_biased_parts", "into_signed_biased_parts", "into_signed_parts", "into_normalised_signed_parts",
         "from_raw_parts", "from_biased_parts", "from_signed_biased_parts", "from_signed_parts"]
DEAD = ["round_exponent_mantissa", "from_normalised_signed_parts"]     # used only by the disabled `float` module (checked)

TARGETS = []
for _n in ("bits", "bit"):
    TARGETS.append(dict(coq="mant_" + _n, kind="bits", path="src/helpers.rs", fn=_n))
for _n in PARTS:
    TARGETS.append(dict(coq=_n, kind="parts", path="src/cast/float/mod.rs", fn=_n))
TARGETS.append(dict(coq="cast_uint_from_float", kind="generic", path="src/cast/float/uint_from_float.rs", fn="cast_uint_from_float",
                    generics=["F", "U"], where=["F: FloatCastHelper", "U: CastUintFromFloatHelper + CastFrom<F::Mantissa> + Shl<ExpType, Output = U>"]))
TARGETS.append(dict(coq="cast_float_from_uint", kind="generic", path="src/cast/float/float_from_uint.rs", fn="cast_float_from_uint",
                    generics=["U", "F"], where=["F: FloatCastHelper", "U: CastFloatFromUintHelper + Copy", "F::Mantissa: CastFrom<U> + One"]))
for _f in ("f32", "f64"):
    TARGETS.append(dict(coq="U_to_" + _f, kind="uglue", path="src/buint/cast.rs", fn="cast_from", ft=_f, macro="buint_as_float",
                        head="($BUint: ident, $f: ty)", invocation="buint_as_float!($BUint, %s);" % _f, subst={"$f": _f},
                        anchor="impl<const N: usize> CastFrom<$BUint<N>> for %s" % _f))
    TARGETS.append(dict(coq="U_from_" + _f, kind="uglue", path="src/buint/cast.rs", fn="cast_from", ft=_f, macro=None,
                        anchor="impl<const N: usize> CastFrom<%s> for $BUint<N>" % _f))
for _f in ("f32", "f64"):
    TARGETS.append(dict(coq="I_to_" + _f, kind="iglue", path="src/bint/cast.rs", fn="cast_from", ft=_f, macro=None,
                        anchor="impl<const N: usize> CastFrom<$BInt<N>> for %s" % _f))
    TARGETS.append(dict(coq="I_from_" + _f, kind="iglue", path="src/bint/cast.rs", fn="cast_from", ft=_f, macro="bint_cast_from_float",
                        head="($f: ty, $BUint: ident <$N: ident>)", subst={"$f": _f, "$N": "N"},
                        invocation="impl<const N: usize> CastFrom<%s> for $BInt<N> { crate::bint::cast::bint_cast_from_float!(%s, $BUint<N>); }" % (_f, _f),
                        anchor=None))
GROUPS = {"C14": [t["coq"] for t in TARGETS]}


def types_of(tgt):
    """the token sequences that are types in the function, longest first -> type"""
    k = tgt["kind"]
    if k == "parts":
        tb = [("Self :: UnsignedExp", "ExpType"), ("Self :: SignedExp", "SExp"), ("Self :: Mantissa", "Mant"), ("Self", "Float"),
              ("< $float_type as ConvertFloatParts > :: SignedExp", "SExp"),
              ("$mantissa_type", "Mant"), ("$float_type", "Float"), ("$signed_exponent_type", "SExp"), ("$unsigned_exponent_type", "ExpType")]
    elif k == "bits":
        tb = [("Self", "Mant")]
    elif k == "generic":
        tb = [("F :: Mantissa", "Mant"), ("F :: SignedExp", "SExp"), ("F", "Float"), ("U", "buint")]
    elif k == "uglue":
        tb = [(tgt["ft"], "Float"), ("Self", "buint" if tgt["coq"].startswith("U_from") else "Float"), ("$BUint < N >", "buint")]
    else:
        tb = [(tgt["ft"], "Float"), ("Self", "bint" if tgt["coq"].startswith("I_from") else "Float"), ("$BInt < N >", "bint"), ("$BUint < N >", "buint")]
    return [(s.split(), t) for s, t in tb]


# ---------------------------------------------------------------- parsing

class FP(L.LP):
    """L.LP + the types of the float code, `debug_assert!(e);`, `match T::try_from(e) { Ok(x) => .., _ => .. }`,
    `<$t>::NAME` / `<$t as Trait>::NAME` paths, `$BUint::<N>::f(..)`, `as _`."""

    def __init__(self, toks, tgt):
        L.LP.__init__(self, toks, None, None)
        self.tgt = tgt
        self.types = types_of(tgt)

    def type_(self):
        v = self.peek()
        if v == "&":
            self.eat()
            if self.peek() == "mut":
                die("&mut types are not supported")
            return self.type_()
        if v == "(":
            self.eat("(")
            ts = [self.type_()]
            while self.peek() == ",":
                self.eat(",")
                ts.append(self.type_())
            self.eat(")")
            return tuple(ts)
        if v == "_":
            self.eat()
            return "INFER"
        for seq, t in self.types:
            if [self.peek(k) for k in range(len(seq))] == seq and self.peek(len(seq)) != "::":
                for x in seq:
                    self.eat(x)
                return t
        if v in ("bool", "ExpType", "u32"):
            self.eat()
            return {"u32": "ExpType"}.get(v, v)
        die("unsupported type starting with %r (... %s)" % (v, " ".join(str(x) for x in self.t[max(0, self.i - 4):self.i + 4])))

    def stmt(self):
        v = self.peek()
        if v == "#":
            if self.peek(1) != "[" or self.peek(2) not in ("allow", "inline", "must_use", "doc"):
                die("attribute #[%s ..] on a statement is not supported (only allow / inline / must_use / doc)" % self.peek(2))
            return L.LP.stmt(self)
        if v == "debug_assert!":
            self.eat()
            self.eat("(")
            e = self.expr()
            if self.peek() == ",":
                die("debug_assert! with a message is not supported")
            self.eat(")")
            self.eat(";")
            return ["dassert", e]
        return L.LP.stmt(self)

    def match_(self):
        j, d = self.i + 1, 0                                   # look ahead: does the first arm start with Ok( / Err( ?
        while j < len(self.t) and not (self.t[j] == "{" and d == 0):
            d += {"(": 1, ")": -1}.get(self.t[j], 0)
            j += 1
        if j + 1 >= len(self.t) or self.t[j + 1] not in ("Ok", "Err"):
            return L.LP.match_(self)
        self.eat("match")
        scrut = self.expr()
        self.eat("{")
        arms = []
        while self.peek() != "}":
            v = self.eat()
            if v == "_":
                pat = ["pwild"]
            elif v == "Ok":
                self.eat("(")
                mut = False
                if self.peek() == "mut":
                    self.eat()
                    mut = True
                pat = ["pok", self.ident(), mut]
                self.eat(")")
            elif v == "Err":
                self.eat("("), self.eat("_"), self.eat(")")
                pat = ["perr"]
            else:
                die("unsupported pattern starting with %r in a match on a Result" % v)
            if self.peek() == "if":
                die("match guards are not supported")
            self.eat("=")
            self.eat(">")
            if self.peek() == "return":
                self.eat("return")
                body = ["ret", self.expr()]
            else:
                body = self.expr()
            arms.append((pat, body))
            if self.peek() == ",":
                self.eat(",")
            elif self.peek() != "}" and not (isinstance(body, list) and body[0] == "blockx"):
                die("expected ',' or '}' after a match arm, got %r" % self.peek())
        self.eat("}")
        return ["match", scrut, arms]

    def primary(self):
        v = self.peek()
        if v == "<":                                           # <$t>::NAME, <$t as Trait>::NAME
            self.eat("<")
            t = self.ident()
            if self.peek() == "as":
                self.eat("as")
                self.ident()
            self.eat(">")
            self.eat("::")
            segs = [t, self.ident()]
            if self.peek() == "(":
                return ["pcall", segs, self.args()]
            return ["path", segs]
        if v is not None and L.IDENT.match(v) and v not in L.KEYWORDS and v not in ("true", "false") and not re.match(r"^\d", v):
            segs = [self.eat()]
            while self.peek() == "::":
                self.eat("::")
                if self.peek() == "<":                         # `$BUint::<N>::f`: only the size N of the impl
                    if [self.peek(1), self.peek(2), self.peek(3)] != ["N", ">", "::"]:
                        die("generic arguments in paths: only ::<N>:: is supported")
                    self.eat(), self.eat(), self.eat()
                    continue
                segs.append(self.ident())
            if self.peek() == "(":
                return ["pcall", segs, self.args()]
            if len(segs) == 1:
                return ["var", segs[0]]
            return ["path", segs]
        return L.LP.primary(self)


# ---------------------------------------------------------------- generation

class FG(L.Gen):
    """L.Gen + the operations of the float code.  self.F = the Gallina term for the float format of the function."""

    def __init__(self, fname, sigs, tvs, final, tgt):
        L.Gen.__init__(self, fname, sigs, {}, {}, tvs, final)
        self.tgt = tgt
        self.kind = tgt["kind"]
        self.F = FLOATS[tgt["ft"]][0] if "ft" in tgt else "F"
        self.calls = set()
        self.uses_bn = False            # mentions the digit list (w, N)

    # -- terms for the format
    def mb(self):
        return "(FloatCast.fbits %s)" % self.F

    def fp(self):
        return "(FloatCast.fp %s)" % self.F

    def bn(self):
        self.uses_bn = True

    def sibling(self, coq, args, env, what):
        sg = self.sigs.get(coq)
        if sg is None:
            self.die("call of %s, whose translation (%s) failed or does not exist" % (what, coq))
        formal = ([("self", sg["selfty"])] if sg["self"] else []) + sg["params"]
        if len(args) != len(formal):
            self.die("call of %s with %d arguments, expected %d" % (what, len(args), len(formal)))
        pre, vs = [], []
        for a, (pn, pt) in zip(args, formal):
            p, v, t = self.ex(a, env)
            L.unify(t, pt, "argument %s of %s" % (pn, what))
            pre += p
            vs.append(v)
        self.calls.add(coq)
        if sg["dbg"]:
            self.uses_dbg = True
        if sg["bn"]:
            self.bn()
        x = self.tmp()
        head = coq + (" dbg" if sg["dbg"] else "") + (" " + self.F if sg["generic"] else "") + (" w N" if sg["bn"] else "")
        return pre + ["%s <- %s %s ;;" % (x, head, " ".join(vs))], x, sg["ret"]

    def outcome(self, pre, call):
        x = self.tmp()
        return pre + ["%s <- of_outcome (%s) ;;" % (x, call)], x

    def ex(self, e, env):
        k = e[0]
        if k == "var" and e[1] == "$float_bit_width" and self.kind == "parts":
            # the literal metavariable of the macro (32 / 64, checked against the invocations): BITS of the float
            return [], self.mb(), "ExpType"
        if k == "un" and e[1] == "-":
            p, v, t = self.ex(e[2], env)
            t0 = L.rs(t)
            if t0 == "SExp":        # i32 negation (overflow not modelled: the operand is the constant ONE)
                return p, "(-%s)" % v if re.fullmatch(r"\d+", v) else "(- %s)" % v, "SExp"
            if t0 == "Float":       # impl Neg for f32 / f64: flips the sign bit
                return p, "(FloatCast.f_neg %s %s)" % (self.F, v), "Float"
            if t0 == "bint":        # impl Neg for $BInt: hand model by name (its own tie: the glue translator, C01)
                self.uses_dbg = True
                self.bn()
                pre, x = self.outcome(p, "AddSub.I_neg dbg w %s" % v)
                return pre, x, "bint"
            self.die("unary minus on %s: not supported" % show(t))
        if k == "as":
            p, v, t = self.ex(e[1], env)
            src, dst = L.rs(t), e[2]
            if dst == "INFER":
                dst = L.rs(self.tv_any(e))
                if isinstance(dst, L.TVar):
                    if self.final:
                        self.die("cannot determine the target type of `as _`")
                    return p, v, dst
            if isinstance(src, L.TVar):
                L.unify(src, dst, "cast")
                return p, v, dst
            if src == dst:
                return p, v, dst
            # casts between the word types: truncation / zero extension is `mod 2^bits`, u32 -> i32 the two's complement reading
            if (src, dst) == ("Mant", "ExpType"):
                return p, "(ud 32 %s)" % v, dst
            if (src, dst) == ("ExpType", "Mant"):
                return p, "(ud %s %s)" % (self.mb(), v), dst
            if (src, dst) == ("ExpType", "SExp"):
                return p, "(sd 32 %s)" % v, dst
            if (src, dst) == ("SExp", "ExpType"):
                return p, "(ud 32 %s)" % v, dst
            self.die("unsupported cast %s as %s" % (show(src), show(dst)))
        return L.Gen.ex(self, e, env)

    def path(self, segs, env, node=None):
        s, F = tuple(segs), self.F
        k = self.kind
        if k == "parts":
            if s in (("$float_type", "MANTISSA_DIGITS"), ("Self", "MANTISSA_DIGITS")):
                return [], self.fp(), "ExpType"
            if s == ("$float_type", "MAX_EXP"):
                return [], "(FloatCast.MAX_EXP %s)" % F, "SExp"
            if s == ("$mantissa_type", "MAX"):
                return [], "(u_max %s)" % self.mb(), "Mant"
            if s == ("$mantissa_type", "BITS"):
                return [], self.mb(), "ExpType"
        if k == "bits":
            if s == ("Self", "BITS"):
                return [], self.mb(), "ExpType"
        if k == "generic":
            tbl = {("F", "MANTISSA_DIGITS"): (self.fp(), "ExpType"), ("F", "MAX_EXP"): ("(FloatCast.MAX_EXP %s)" % F, "SExp"),
                   ("F", "INFINITY"): ("(FloatCast.F_INFINITY %s)" % F, "Float"), ("F", "ZERO"): ("FloatCast.F_ZERO", "Float"),
                   ("F", "Mantissa", "ZERO"): ("0", "Mant"), ("F", "Mantissa", "ONE"): ("1", "Mant"), ("F", "SignedExp", "ONE"): ("1", "SExp")}
            if s in tbl:
                return [], tbl[s][0], tbl[s][1]
            if len(s) == 2 and s[0] == "U":
                self.bn()
                tbl = {"ZERO": ("(ZERO (Z.to_nat N))", "buint"), "MIN": ("(ZERO (Z.to_nat N))", "buint"),
                       "MAX": ("(UMAX w (Z.to_nat N))", "buint"), "BITS": ("(w * N)", "ExpType")}
                if s[1] in tbl:
                    return [], tbl[s[1]][0], tbl[s[1]][1]
        if k == "iglue" and len(s) == 2 and s[0] == "Self" and self.selfty == "bint":
            self.bn()
            if s[1] == "MIN":
                return [], "(IMIN w (Z.to_nat N))", "bint"
            if s[1] == "MAX":
                return [], "(IMAX w (Z.to_nat N))", "bint"
        self.die("unsupported path " + "::".join(segs))

    def mcall(self, e, env):
        _, recv, name, args = e
        save = self.ntmp
        p, v, t = self.ex(recv, env)
        t0, F = L.rs(t), self.F

        def noargs():
            if args:
                self.die("method %s takes no argument" % name)

        def arg1(ty):
            if len(args) != 1:
                self.die("method %s takes one argument" % name)
            p2, v2, t2 = self.ex(args[0], env)
            L.unify(t2, ty, "argument of " + name)
            return p2, v2
        if t0 == "Float":
            prim = {"is_nan": ("FloatCast.f_is_nan %s" % F, "bool"), "is_infinite": ("FloatCast.f_is_infinite %s" % F, "bool"),
                    "is_sign_negative": ("FloatCast.f_is_sign_negative %s" % F, "bool"), "to_bits": ("FloatCast.f_to_bits", "Mant")}
            if name in prim:
                noargs()
                return p, "(%s %s)" % (prim[name][0], v), prim[name][1]
            if name in PARTS and name.startswith("into_"):
                noargs()
                self.ntmp = save
                return self.sibling(name, [recv], env, name)
        if t0 == "Mant":
            if name == "bits":          # helpers::Bits for u32 / u64 (mant_bits, tied to bitlen): the hand model's function by name
                noargs()
                return p, "(bitlen %s)" % v, "ExpType"
            if name == "bit":           # helpers::Bits for u32 / u64 (mant_bit, tied to FloatCast.m_bit)
                p2, v2 = arg1("ExpType")
                return p + p2, "(FloatCast.m_bit %s %s %s)" % (self.mb(), v, v2), "bool"
            if name == "leading_zeros" and self.kind == "bits":
                noargs()
                return p, "(u_leading_zeros %s %s)" % (self.mb(), v), "ExpType"
        if t0 == "SExp" and name == "is_negative":
            noargs()
            return p, "(%s <? 0)" % v, "bool"
        if t0 == "buint" and self.kind in ("generic", "iglue"):
            self.bn()
            if name == "bits":          # Bits for $BUint -> Self::bits (checked); hand model (tie: Proofs/LoopsTieC06b.v)
                noargs()
                return p, "(Bits.bits_of w %s)" % v, "ExpType"
            if name == "trailing_zeros":   # CastFloatFromUintHelper for $BUint -> Self::trailing_zeros (checked); tie: LoopsTieC06.v
                noargs()
                return p, "(Bits.trailing_zeros w %s)" % v, "ExpType"
            if name == "bit":           # Bits for $BUint -> Self::bit (checked); tie: LoopsTieC06b.v
                p2, v2 = arg1("ExpType")
                pre, x = self.outcome(p + p2, "Bits.bit w %s %s" % (v, v2))
                return pre, x, "bool"
        if t0 == "bint" and self.kind == "iglue":
            self.bn()
            noargs()
            if name == "unsigned_abs":  # hand model by name (tie: the glue translator)
                return p, "(AddSub.I_unsigned_abs w %s)" % v, "buint"
            if name == "is_negative":
                return p, "(Core.is_negative w %s)" % v, "bool"
            if name == "to_bits":
                return p, "(Cast.to_bits %s)" % v, "buint"
        self.die("unsupported method call .%s on %s" % (name, show(t0)))

    def pcall(self, e, env):
        _, segs, args = e
        s, F, k = tuple(segs), self.F, self.kind

        def one(ty):
            if len(args) != 1:
                self.die("call of %s with %d arguments, expected 1" % ("::".join(s), len(args)))
            p, v, t = self.ex(args[0], env)
            L.unify(t, ty, "argument of " + "::".join(s))
            return p, v
        if k == "parts":
            if s == ("Self", "from_bits"):
                p, v = one("Mant")
                return p, "(FloatCast.f_from_bits %s)" % v, "Float"
            if len(s) == 2 and s[0] == "Self" and s[1] in PARTS:
                return self.sibling(s[1], list(args), env, "Self::" + s[1])
        if k == "bits" and s == ("Self", "leading_zeros"):
            p, v = one("Mant")
            return p, "(u_leading_zeros %s %s)" % (self.mb(), v), "ExpType"
        if k == "generic":
            if s == ("ExpType", "try_from"):            # u32::try_from(i32)
                p, v = one("SExp")
                return p, "(exptype_try_from_sexp %s)" % v, ("tryres", "ExpType")
            if s == ("F", "SignedExp", "try_from"):     # i32::try_from(u32)
                p, v = one("ExpType")
                return p, "(sexp_try_from_exptype %s)" % v, ("tryres", "SExp")
            if s == ("U", "cast_from"):                 # CastFrom<u32 / u64> for $BUint<N>: as_buint! (tie: Proofs/LoopsTieC09.v)
                p, v = one("Mant")
                self.bn()
                pre, x = self.outcome(p, "Cast.U_from_int %s w (Z.to_nat N) %s" % (self.mb(), v))
                return pre, x, "buint"
            if s == ("F", "Mantissa", "cast_from"):     # CastFrom<$BUint<N>> for u32 / u64: buint_as_int! (tie: Proofs/ConvGenTieC09.v)
                p, v = one("buint")
                self.bn()
                self.uses_dbg = True
                pre, x = self.outcome(p, "Cast.U_as_int dbg %s false w %s" % (self.mb(), v))
                return pre, x, "Mant"
            if len(s) == 2 and s[0] == "F" and s[1] in PARTS:
                return self.sibling(s[1], list(args), env, "F::" + s[1])
        if k in ("uglue", "iglue"):
            ft = self.tgt["ft"]
            if s in (("crate", "cast", "float", "cast_float_from_uint"), ("crate", "cast", "float", "cast_uint_from_float")):
                return self.sibling(s[3], list(args), env, s[3])
            if k == "iglue" and s == (ft, "cast_from"):         # CastFrom<$BUint<N>> for f32 / f64
                return self.sibling("U_to_" + ft, list(args), env, "%s::cast_from" % ft)
            if k == "iglue" and s == ("$BUint", "cast_from"):   # CastFrom<f32 / f64> for $BUint<N>
                return self.sibling("U_from_" + ft, list(args), env, "$BUint::<N>::cast_from")
            if k == "iglue" and s == ("Self", "from_bits") and self.selfty == "bint":
                p, v = one("buint")
                return p, "(Cast.from_bits %s)" % v, "bint"
        self.die("unsupported call " + "::".join(segs))

    def bin(self, e, env):
        _, op, a, b = e
        save = self.ntmp
        pa, va, ta = self.ex(a, env)
        pb, vb, tb = self.ex(b, env)
        t0a, t0b = L.rs(ta), L.rs(tb)
        pre = pa + pb
        if op in ("<<", ">>"):
            if t0a == "Mant":           # mantissa word << / >> u32: overflow (panic) when the amount is >= the width (Imp.dshl / dshr at that width)
                L.unify(tb, "ExpType", "shift amount")
                x = self.tmp()
                return pre + ["%s <- %s %s %s %s ;;" % (x, {"<<": "dshl", ">>": "dshr"}[op], self.mb(), va, vb)], x, "Mant"
            if t0a == "buint":          # Shl / Shr<ExpType> for $BUint: hand model by name (tie: the glue translator, C05)
                L.unify(tb, "ExpType", "shift amount")
                self.uses_dbg = True
                self.bn()
                pre, x = self.outcome(pre, "Shift.%s dbg w %s %s" % ({"<<": "U_shl", ">>": "U_shr"}[op], va, vb))
                return pre, x, "buint"
        elif op in ("|", "&", "^") and (t0a == "Mant" or t0b == "Mant"):
            L.unify(ta, tb, "operands of " + op)
            return pre, "(%s %s %s)" % ({"|": "u_or", "&": "u_and", "^": "u_xor"}[op], va, vb), "Mant"
        elif op in ("+", "-") and (t0a == "SExp" or t0b == "SExp"):
            # i32 arithmetic on exponents: unbounded Z (an overflow is not modelled; every operand is below 2^12 in absolute value
            # or a checked conversion of a bit count)
            L.unify(ta, tb, "operands of " + op)
            return pre, "(%s %s %s)" % (va, op, vb), "SExp"
        elif op == "+" and (t0a == "Mant" or t0b == "Mant"):
            # mantissa word + : overflow-checked in builds with debug assertions (FloatCast.m_add: primitive of the hand model)
            L.unify(ta, tb, "operands of +")
            self.uses_dbg = True
            pre, x = self.outcome(pre, "FloatCast.m_add dbg %s %s %s" % (self.mb(), va, vb))
            return pre, x, "Mant"
        elif op == ">=" and t0a == "buint":       # PartialOrd for $BUint (tie: LoopsTieC06.v cmp, the glue translator ge)
            L.unify(ta, tb, "operands of >=")
            return pre, "(cmp_ge (ucmp %s %s))" % (va, vb), "bool"
        self.ntmp = save
        return L.Gen.bin(self, e, env)

    # ---- statements
    def stmts(self, ss, env, ctx, ind):
        pad = "  " * ind
        if ss:
            s, rest = ss[0], ss[1:]
            if s[0] == "while":
                self.die("loops are not in the subset of this translator")
            if s[0] == "dassert":
                # debug_assert!(c): evaluated, and a panic when false, only in builds with debug assertions
                self.uses_dbg = True
                p, v, t = self.ex(s[1], env)
                L.unify(t, "bool", "debug_assert! condition")
                body = self.stmts(rest, env, ctx, ind + 1)
                if p:
                    x = self.tmp()
                    head = self.lines(["%s <- (if dbg then %s else Done true) ;;" % (x, self.seq(p, "Done " + v)),
                                       "if negb %s then Panicked else (" % x], pad)
                else:
                    head = pad + "if dbg && negb %s then Panicked else (" % v
                return head + "\n" + body + "\n" + pad + ")"
            if s[0] == "let" and s[3] is not None and s[3][0] == "ifx" and s[3][3] is not None \
                    and not all(self.pure_value(b) for b in (s[3][2], s[3][3])):
                # `let p = if c { ..; a } else { ..; b }; rest`  ==  `if c { ..; let p = a; rest } else { ..; let p = b; rest }`
                # (the names declared inside a branch may not shadow an outer variable: `protected`)
                def close(blk):
                    if not blk or blk[-1][0] != "expr":
                        self.die("branch of a `let .. = if` without a value")
                    return list(blk[:-1]) + [["let", s[1], s[2], blk[-1][1]]]
                return self.stmts([["if", s[3][1], close(s[3][2]), close(s[3][3])]] + list(rest), env, ctx, ind)
        return L.Gen.stmts(self, ss, env, ctx, ind)

    def pure_value(self, blk):
        return len(blk) == 1 and blk[0][0] == "expr"

    def match_stmt(self, m, mk, rest, env, ctx, ind):
        _, scrut, arms = m
        save = self.ntmp
        p, v, t = self.ex(scrut, env)
        t = L.rs(t)
        if not is_try(t):
            self.ntmp = save
            return L.Gen.match_stmt(self, m, mk, rest, env, ctx, ind)
        if mk is not None or rest:
            self.die("match on the result of try_from: only as the tail of a block")
        pad = "  " * ind
        seen, out = [], []
        inner = dict(ctx, protected=set(env.keys()) | ctx["protected"])
        for pat, body in arms:
            env2 = self.copy(env)
            if len(seen) == 2:
                self.die("unreachable arm in match")
            if pat[0] == "pwild":
                seen, head = ["Some", "None"], "_"
            elif pat[0] == "perr":
                if "None" in seen:
                    self.die("duplicate match arm Err")
                seen.append("None")
                head = "None"
            else:
                if "Some" in seen:
                    self.die("duplicate match arm Ok")
                seen.append("Some")
                x = pat[1]
                if x in L.RESERVED or x == "N" or re.match(r"^t\d+$", x):
                    self.die("pattern variable name %s is reserved by the translator" % x)
                # the match is the tail of its block: a pattern variable that shadows an outer variable hides it in the arm only,
                # exactly as the Gallina binder does
                env2.pop(x, None)
                env2[x] = L.Var(t[1], pat[2], True)
                inner2 = dict(inner, protected=inner["protected"] - {x})
                head = "Some " + x
            if isinstance(body, list) and body[0] == "ret":
                txt = self.stmts([["return", body[1]]], env2, ctx, ind + 2)
            else:
                ss = body[1] if body[0] == "blockx" else [["expr", body]]
                txt = self.stmts(ss, env2, inner2 if pat[0] == "pok" else inner, ind + 2)
            out.append(pad + "| %s => (\n%s\n%s  )" % (head, txt, pad))
        if len(seen) != 2:
            self.die("non-exhaustive match on the result of try_from")
        return self.lines(p + ["match %s with" % v], pad) + "\n" + "\n".join(out) + "\n" + pad + "end"


# ---------------------------------------------------------------- extraction

def braces(txt, start, path):
    b0 = txt.index("{", start)
    d, e = 0, b0
    while True:
        if e >= len(txt):
            die("%s: unbalanced braces" % path)
        d += {"{": 1, "}": -1}.get(txt[e], 0)
        e += 1
        if d == 0:
            break
    return txt[b0:e]


def macro_rule(txt, name, head, path):
    """the body of the single rule of `macro_rules! name`, whose parameter list must be `head`"""
    toks = rtoks(head)
    hd = r"\s*".join([r"[({]"] + [re.escape(t) for t in toks[1:-1]] + [r"[)}]"])
    mm = re.search(r"macro_rules!\s*%s\s*\{\s*%s\s*=>" % (re.escape(name), hd), txt)
    if not mm:
        die("%s: macro_rules! %s with the parameter list %s not found" % (path, name, head))
    whole = braces(txt, mm.start(), path)
    d, rules = 0, 0
    for i, ch in enumerate(whole):
        d += {"{": 1, "(": 1, "[": 1, "}": -1, ")": -1, "]": -1}.get(ch, 0)
        if d == 1 and whole.startswith("=>", i):
            rules += 1
    if rules != 1:
        die("%s: macro %s has %d rules; exactly one is modelled" % (path, name, rules))
    return braces(txt, mm.end(), path)


def invocations(txt, name):
    return [m.group(1) for m in re.finditer(r"(?<![\w!$])%s!\s*[({]([^(){}]*)[)}]" % re.escape(name), txt)
            if not re.search(r"macro_rules!\s*$", txt[:m.start()])]


def subst(body, table):
    for k, v in table.items():
        body = re.sub(re.escape(k) + r"(?!\w)", v, body)
    return body


class Sources:
    def __init__(self):
        self.cache = {}

    def get(self, path):
        if path not in self.cache:
            p = os.path.join(REPO, path)
            if not os.path.exists(p):
                die("source file %s not found" % p)
            self.cache[path] = L.strip_comments(open(p).read())
        return self.cache[path]


def global_checks(src):
    """the impls that bind the trait items the generic functions use, and the instantiation lists.  A change here is a global
    failure (every function of the file depends on them)."""
    m = src.get("src/cast/float/mod.rs")
    lib = src.get("src/lib.rs")
    need(lib, "type ExpType = u32;", "the definition of ExpType", "src/lib.rs")
    # ---- the float formats the generic code is instantiated at: (float, unsigned exp, signed exp, mantissa word, width)
    invs = [re.sub(r"\s+", "", x) for x in invocations(m, PARTS_MACRO)]
    if sorted(invs) != ["f32,u32,i32,u32,32", "f64,u32,i32,u64,64"]:
        die("src/cast/float/mod.rs: %s! is instantiated as %s; modelled: (f32, u32, i32, u32, 32) and (f64, u32, i32, u64, 64)" % (PARTS_MACRO, invs))
    invs = [re.sub(r"\s+", "", x) for x in invocations(m, "impl_cast_float_from_float_helper_for_primitive_float")]
    if sorted(invs) != ["f32,u32,i32,32", "f64,u64,i32,64"]:
        die("src/cast/float/mod.rs: impl_cast_float_from_float_helper_for_primitive_float! is instantiated as %s" % invs)
    hb = macro_rule(m, "impl_cast_float_from_float_helper_for_primitive_float",
                    "($float_type: ty, $mantissa_type: ty, $exponent_type: ty, $float_type_bit_width: literal)", "src/cast/float/mod.rs")
    for pat, what in [("impl FloatCastHelper for $float_type {", "the impl header"),
                      ("const BITS: ExpType = $float_type_bit_width;", "FloatCastHelper::BITS"),
                      ("const MANTISSA_DIGITS: ExpType = Self::MANTISSA_DIGITS as ExpType;", "FloatCastHelper::MANTISSA_DIGITS"),
                      ("const MAX_EXP: <Self as ConvertFloatParts>::SignedExp = Self::MAX_EXP;", "FloatCastHelper::MAX_EXP"),
                      ("const INFINITY: Self = Self::INFINITY;", "FloatCastHelper::INFINITY"),
                      ("const ZERO: Self = 0.0;", "FloatCastHelper::ZERO"),
                      ("fn is_nan(&self) -> bool { Self::is_nan(*self) }", "FloatCastHelper::is_nan"),
                      ("fn is_infinite(&self) -> bool { Self::is_infinite(*self) }", "FloatCastHelper::is_infinite")]:
        need(hb, pat, what + " of impl_cast_float_from_float_helper_for_primitive_float!", "src/cast/float/mod.rs")
    pb = macro_rule(m, PARTS_MACRO, PARTS_HEAD, "src/cast/float/mod.rs")
    for pat, what in [("impl ConvertFloatParts for $float_type {", "the impl header"), ("type Mantissa = $mantissa_type;", "Mantissa"),
                      ("type UnsignedExp = $unsigned_exponent_type;", "UnsignedExp"), ("type SignedExp = $signed_exponent_type;", "SignedExp")]:
        need(pb, pat, what + " of %s!" % PARTS_MACRO, "src/cast/float/mod.rs")
    # ---- FloatMantissa::ZERO / ONE for the mantissa words
    if sorted(re.sub(r"\s+", "", x) for x in invocations(m, "impl_float_mantissa_for_uint")) != ["u32,u64"]:
        die("src/cast/float/mod.rs: impl_float_mantissa_for_uint! is no longer instantiated for exactly (u32, u64)")
    fb = macro_rule(m, "impl_float_mantissa_for_uint", "($($uint: ty), *)", "src/cast/float/mod.rs")
    need(fb, "impl FloatMantissa for $uint { const ZERO: Self = 0; const ONE: Self = 1;", "FloatMantissa::ZERO / ONE", "src/cast/float/mod.rs")
    # ---- helpers.rs: One for i32 / u32 / u64, Bits for the mantissa words and for $BUint
    h = src.get("src/helpers.rs")
    ob = macro_rule(h, "impl_one_for_int", "($($uint: ty), *)", "src/helpers.rs")
    need(ob, "impl One for $uint { const ONE: Self = 1; }", "One::ONE", "src/helpers.rs")
    ones = [x.strip() for i in invocations(h, "impl_one_for_int") for x in i.split(",")]
    if not {"i32", "u32", "u64"} <= set(ones):
        die("src/helpers.rs: impl_one_for_int! no longer covers i32, u32, u64")
    bits_inst = [x.strip() for i in invocations(h, "impl_bits_for_uint") for x in i.split(",")]
    if not {"u32", "u64"} <= set(bits_inst) or not all(re.fullmatch(r"u(8|16|32|64|128|size)", x) for x in bits_inst):
        die("src/helpers.rs: impl_bits_for_uint! is instantiated for %s" % bits_inst)
    bb = macro_rule(h, "impl_bits_for_buint", "($BUint: ident, $BInt: ident, $Digit: ident)", "src/helpers.rs")
    need(bb, "impl<const N: usize> crate::helpers::Bits for $BUint<N> { const BITS: ExpType = Self::BITS; #[inline] fn bits(&self) -> ExpType { Self::bits(&self) }"
             " #[inline] fn bit(&self, index: ExpType) -> bool { Self::bit(&self, index) } }", "Bits for $BUint", "src/helpers.rs")
    # ---- buint/cast.rs: the helper traits of $BUint
    c = src.get("src/buint/cast.rs")
    cb = macro_rule(c, "cast", "($BUint: ident, $BInt: ident, $Digit: ident)", "src/buint/cast.rs")
    need(cb, "impl<const N: usize> CastUintFromFloatHelper for $BUint<N> { const MAX: Self = Self::MAX; const MIN: Self = Self::MIN; }",
         "CastUintFromFloatHelper for $BUint", "src/buint/cast.rs")
    need(cb, "impl<const N: usize> CastFloatFromUintHelper for $BUint<N> { fn trailing_zeros(self) -> ExpType { Self::trailing_zeros(self) } }",
         "CastFloatFromUintHelper for $BUint", "src/buint/cast.rs")
    fl = sorted(re.sub(r"\s+", "", x) for x in invocations(cb, "buint_as_float"))
    if fl != ["$BUint,f32", "$BUint,f64"]:
        die("src/buint/cast.rs: buint_as_float! is instantiated as %s; modelled: ($BUint, f32), ($BUint, f64)" % fl)
    bc = src.get("src/bint/cast.rs")
    ib = macro_rule(bc, "cast", "($BUint: ident, $BInt: ident, $Digit: ident)", "src/bint/cast.rs")
    fl = sorted(re.sub(r"\s+", "", x) for x in invocations(ib, "bint_cast_from_float"))
    if fl != ["f32,$BUint<N>", "f64,$BUint<N>"]:
        die("src/bint/cast.rs: bint_cast_from_float! is instantiated as %s; modelled: (f32, $BUint<N>), (f64, $BUint<N>)" % fl)
    # ---- the two functions that are skipped are dead: the `float` module is not compiled and nothing else names them
    if re.search(r"(?<![\w])mod\s+float\s*;", lib):
        die("src/lib.rs: `mod float;` is compiled: %s are no longer dead code" % ", ".join(DEAD))
    for root, _, files in os.walk(os.path.join(REPO, "src")):
        rel = os.path.relpath(root, REPO)
        if rel == "src/float" or rel.startswith("src/float/"):
            continue
        for f in files:
            pth = os.path.join(rel, f)
            if f.endswith(".rs") and pth != "src/cast/float/mod.rs":
                t = src.get(pth)
                for dname in DEAD:
                    if re.search(r"\b%s\b" % dname, t):
                        die("%s uses %s, which this translator skips as dead code" % (pth, dname))
    live = subst(pb, {})
    for dname in DEAD:
        body = L.find_fn(pb, None, dname, "src/cast/float/mod.rs")[3]
        live = live.replace(body, "")
    if re.search(r"\b(%s)\b\s*(::\s*<[^>]*>\s*)?\(" % "|".join(DEAD), re.sub(r"\bfn\s+\w+", "", live)):
        die("src/cast/float/mod.rs: a live function of %s! calls %s" % (PARTS_MACRO, " / ".join(DEAD)))


def locate(tgt, src):
    """-> (generics, params, ret, body text) of the function of the target"""
    path, k = tgt["path"], tgt["kind"]
    txt = src.get(path)
    if k == "parts":
        body = macro_rule(txt, PARTS_MACRO, PARTS_HEAD, path)
        return L.find_fn(body, None, tgt["fn"], path)
    if k == "bits":
        body = macro_rule(txt, "impl_bits_for_uint", "($($uint: ty), *)", path)
        need(body, "impl Bits for $uint { const BITS: ExpType = Self::BITS as ExpType;", "Bits for the primitive unsigned integers", path)
        return L.find_fn(body, None, tgt["fn"], path)
    if k == "generic":
        g, params, ret, body = L.find_fn(txt, None, tgt["fn"], path)
        if ret is None or "where" not in ret:
            die("%s: fn %s: return type / where clause not found" % (path, tgt["fn"]))
        ret, where = re.split(r"\bwhere\b", ret, 1)
        if [x.strip() for x in (g or "<>").strip()[1:-1].split(",")] != tgt["generics"]:
            die("%s: fn %s: the generic parameters are no longer <%s>" % (path, tgt["fn"], ", ".join(tgt["generics"])))
        for wc in tgt["where"]:
            if not re.search(r"(?<![\w:])" + rx(wc), where):
                die("%s: fn %s: the bound `%s` (which decides what the trait items are) has changed" % (path, tgt["fn"], wc))
        return None, params, ret.strip(), body
    body = macro_rule(txt, "cast", "($BUint: ident, $BInt: ident, $Digit: ident)", path)
    if tgt.get("macro"):
        if not re.search(rx(tgt["invocation"]), body):
            die("%s: `%s` not found in the cast! macro" % (path, tgt["invocation"]))
        mb = subst(macro_rule(txt, tgt["macro"], tgt["head"], path), tgt["subst"])
        if tgt["anchor"] and not re.search(rx(tgt["anchor"]) + r"\s*\{", mb):
            die("%s: macro %s: `%s` not found" % (path, tgt["macro"], tgt["anchor"]))
        return L.find_fn(mb, rx(tgt["anchor"]) if tgt["anchor"] else None, tgt["fn"], path)
    if not re.search(rx(tgt["anchor"]) + r"\s*\{", body):
        die("%s: `%s` not found" % (path, tgt["anchor"]))
    return L.find_fn(body, rx(tgt["anchor"]), tgt["fn"], path)


def parse_sig(tgt, generics, params, ret):
    name = tgt["fn"]
    sig = {"self": False, "params": [], "generics": [], "mut": set(), "rust": name, "callable": False, "mutref": False,
           "dbg": False, "prim": None, "coq": tgt["coq"], "bn": False, "generic": "ft" not in tgt, "tgt": tgt}
    if generics:
        die("fn %s: generic parameters are not supported" % name)
    t = FP(L.tokenize(params), tgt)
    selfty = dict((" ".join(s), ty) for s, ty in t.types).get("Self")
    sig["selfty"] = selfty
    first = True
    while t.peek() is not None:
        if first and (t.peek() == "self" or (t.peek() == "&" and t.peek(1) == "self")):
            if t.peek() == "&":
                t.eat("&")
            t.eat("self")
            sig["self"] = True
        else:
            mut = False
            if t.peek() == "mut":
                t.eat("mut")
                mut = True
            pn = t.ident()
            if mut:
                sig["mut"].add(pn)
            t.eat(":")
            sig["params"].append((pn, t.type_()))
        first = False
        if t.peek() == ",":
            t.eat(",")
        elif t.peek() is not None:
            die("fn %s: cannot parse the parameter list" % name)
    if ret is None:
        die("fn %s: no return type" % name)
    r = FP(L.tokenize(ret), tgt)
    sig["ret"] = r.type_()
    if r.peek() is not None:
        die("fn %s: cannot parse the return type %s" % (name, ret))
    return sig


def translate_one(tgt, fns, sigs):
    coq = tgt["coq"]
    sig, body = sigs[coq], fns[coq]
    ast = FP(L.tokenize(body), tgt).block()
    tvs, txt, g = {}, None, None
    for final in (False, True):
        g = FG(coq, sigs, tvs, final, tgt)
        env, ctx = {}, {"loop": None, "protected": set()}
        if sig["self"]:
            env["self"] = L.Var(sig["selfty"], False)
        for pn, pt in sig["params"]:
            g.declare(env, pn, pt, pn in sig["mut"], ctx)
        txt = g.stmts(ast, env, ctx, 1)
    if g.recursive:
        die("fn %s: recursion is not supported here" % tgt["fn"])
    if re.search(r"\bfuel\b", txt):
        die("fn %s: the translation needs an iteration budget: not supported here" % tgt["fn"])
    sig["dbg"], sig["bn"] = g.uses_dbg, g.uses_bn or any(L.rs(t) in ("buint", "bint") for _, t in sig["params"])
    argl = "(dbg : bool) " if sig["dbg"] else ""
    argl += "(F : FloatCast.ffmt) " if sig["generic"] else ""
    argl += "(w N : Z) " if sig["bn"] else ""
    argl += "(self : Z) " if sig["self"] else ""
    argl += "".join("(%s : %s) " % (n, coq_ty(t)) for n, t in sig["params"])
    rty = coq_ty(sig["ret"])
    where = {"parts": "macro %s!, " % PARTS_MACRO, "bits": "macro impl_bits_for_uint!, ", "generic": ""}.get(
        tgt["kind"], ("macro %s!(%s), " % (tgt["macro"], tgt["ft"])) if tgt.get("macro") else "%s, " % tgt.get("anchor"))
    head = "(* %s: %sfn %s *)\n" % (tgt["path"], where, tgt["fn"])
    return head + "Definition %s %s: res %s :=\n%s.\n" % (coq, argl, rty if rty.startswith("(") or " " not in rty else "(" + rty + ")", txt), g.calls


HEADER = ["(* GENERATED on every run by tools/rs2v_float.py from /repo/src/cast/float/{mod,uint_from_float,float_from_uint}.rs, src/helpers.rs",
          "   (impl_bits_for_uint!) and the float casts of src/{buint,bint}/cast.rs.  Do not edit.  Proofs/FloatGenTie*.v prove each function",
          "   equal to the hand-written model Model/FloatCast.v.  F = the float format (FloatCast.F32 / F64: the instantiation lists of the",
          "   macros are checked by the translator); a float is its bit pattern, a mantissa word a number below 2^(fbits F).",
          "   Vocabulary: Model/Imp.v (res monad; usub; dshl / dshr = checked shifts, here at the width of the mantissa word), Model/ImpFloat.v",
          "   (the two try_from conversions), Prim.v; by qualified name from the hand model: the format (FloatCast.fbits fp MAX_EXP F_INFINITY",
          "   F_ZERO), its primitive float / word operations (f_to_bits f_from_bits f_is_nan f_is_infinite f_is_sign_negative f_neg m_bit m_add),",
          "   and the callees tied elsewhere: Bits.bits_of / bit / trailing_zeros, Shift.U_shl / U_shr, Cast.U_from_int (as_buint!),",
          "   Cast.U_as_int (buint_as_int!), AddSub.I_unsigned_abs / I_neg, Core.is_negative / ucmp. *)",
          "From Bnum Require Import Base Prim.",
          "From Bnum.Model Require Import Core Imp ImpFloat.",
          "From Bnum.Model Require FloatCast Bits Shift Cast AddSub.", "", "Module FloatGen.", ""]


def main():
    group = sys.argv[sys.argv.index("--for") + 1] if "--for" in sys.argv else None
    src = Sources()
    global_checks(src)
    failed, fns, sigs = {}, {}, {}
    for tgt in TARGETS:
        coq = tgt["coq"]
        try:
            generics, params, ret, fbody = locate(tgt, src)
            sigs[coq] = parse_sig(tgt, generics, params, ret)
            fns[coq] = fbody
        except SystemExit:
            failed[coq] = LAST_MSG[0]
        except Exception as ex:                          # noqa: a bug in the translator must not look like success
            failed[coq] = repr(ex)
    texts, calls = {}, {}
    while True:
        again = False
        for tgt in TARGETS:
            coq = tgt["coq"]
            if coq in failed:
                continue
            try:
                texts[coq], calls[coq] = translate_one(tgt, fns, sigs)
            except SystemExit:
                failed[coq] = LAST_MSG[0]
            except Exception as ex:
                failed[coq] = repr(ex)
            if coq in failed:
                sigs.pop(coq, None)
                again = True
        if not again:
            break
    out = list(HEADER)
    out.append("(* src/cast/float/mod.rs: fn %s of %s!  -- SKIPPED: dead code (only the disabled `float` module uses them; checked:\n"
               "   `mod float;` is not compiled and no other file names them) *)\n" % (", ".join(DEAD), PARTS_MACRO))
    for tgt in TARGETS:                                    # callees first: TARGETS is in dependency order
        coq = tgt["coq"]
        if coq in failed:
            out.append("(* %s: fn %s  -- NOT TRANSLATED: %s *)\nDefinition %s : unit := tt.\n"
                       % (tgt["path"], tgt["fn"], failed[coq].replace("*)", "* )").replace("(*", "( *"), coq))
        else:
            for c in calls[coq]:
                if [t["coq"] for t in TARGETS].index(c) >= [t["coq"] for t in TARGETS].index(coq):
                    die("internal: %s calls %s, which is emitted later" % (coq, c))
            out.append(texts[coq])
    out.append("End FloatGen.")
    txt = "\n".join(out) + "\n"
    p = os.path.join(ROOT, "coq", "Generated", "FloatGen.v")
    if not os.path.exists(p) or open(p).read() != txt:
        open(p, "w").write(txt)
    if failed:
        hit = [f for f in failed if group is None or f in GROUPS.get(group, [])]
        sys.stderr.write("rs2v_float: not translated (stub emitted, its tie lemma will not check): %s\n" % ", ".join(sorted(failed)))
        return 1 if hit else 0
    return 0


if __name__ == "__main__":
    sys.exit(main())

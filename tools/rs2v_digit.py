#!/usr/bin/env python3
"""tools/rs2v_digit.py — TRANSLATOR: /repo/src/digit.rs  ->  coq/Generated/DigitGen.v

Translates the straight-line `const fn`s inside `digit_module!` (to_double_digit, carrying_add, borrowing_sub,
carrying_add_signed, borrowing_sub_signed, widening_mul, carrying_mul, div_rem_wide) into Gallina over the
vocabulary of coq/Prim.v and coq/Model/DigitPrims.v.  coq/Proofs/DigitTie.v proves, for every digit width w,
that each generated function equals the hand-written model function of coq/Model/Digit.v — so an edit of
digit.rs that changes behaviour breaks a proof obligation.  Anything outside the supported subset of Rust makes
the translator fail loudly (exit 1): let with identifier / tuple patterns, if/else on a boolean, tuples, method
calls overflowing_add/overflowing_sub, `as` casts between Digit / SignedDigit / DoubleDigit, the operators
<< >> | ^ & + - * / % || && != == < > <= >=, integer literals, `debug_assert!` (ignored: it only panics)."""
import re, sys, os

REPO = os.environ.get("BNUM_REPO", "/repo")
ROOT = os.path.dirname(os.path.dirname(os.path.abspath(__file__)))
WANTED = ["to_double_digit", "carrying_add", "borrowing_sub", "carrying_add_signed", "borrowing_sub_signed",
          "widening_mul", "carrying_mul", "div_rem_wide"]


def die(msg):
    sys.stderr.write("rs2v_digit: " + msg + "\n")
    sys.exit(1)


TOK = re.compile(r"\s*(?:(//[^\n]*)|(\d+)|([A-Za-z_][A-Za-z0-9_]*!?)|(<<|>>|\|\||&&|!=|==|<=|>=|->|[-+*/%|&^<>!=(){},;:.]))")


def tokenize(s):
    out, i = [], 0
    while i < len(s):
        m = TOK.match(s, i)
        if not m:
            if s[i:].strip() == "":
                break
            die("cannot tokenize near: " + s[i:i + 40])
        i = m.end()
        if m.group(1):
            continue
        out.append(m.group(2) or m.group(3) or m.group(4))
    return out


class P:
    def __init__(self, toks):
        self.t, self.i = toks, 0

    def peek(self, k=0):
        return self.t[self.i + k] if self.i + k < len(self.t) else None

    def eat(self, x=None):
        v = self.peek()
        if x is not None and v != x:
            die("expected %r, got %r (at token %d)" % (x, v, self.i))
        self.i += 1
        return v

    # ---- statements
    def block(self):
        """'{' stmt* expr '}' -> ('block', [stmts], expr)"""
        self.eat("{")
        stmts = []
        while True:
            if self.peek() == "let":
                self.eat("let")
                pat = self.pattern()
                self.eat("=")
                e = self.expr()
                self.eat(";")
                stmts.append((pat, e))
            elif self.peek() == "debug_assert!":
                self.eat()
                self.skip_parens()
                self.eat(";")
            else:
                e = self.expr()
                self.eat("}")
                return ("block", stmts, e)

    def skip_parens(self):
        self.eat("(")
        d = 1
        while d:
            v = self.eat()
            if v == "(":
                d += 1
            elif v == ")":
                d -= 1

    def pattern(self):
        if self.peek() == "(":
            self.eat("(")
            ns = [self.eat()]
            while self.peek() == ",":
                self.eat(",")
                ns.append(self.eat())
            self.eat(")")
            return ns
        return self.eat()

    # ---- expressions (precedence climbing)
    LEVELS = [["||"], ["&&"], ["==", "!=", "<", ">", "<=", ">="], ["|"], ["^"], ["&"], ["<<", ">>"], ["+", "-"], ["*", "/", "%"]]

    def expr(self, lvl=0):
        if lvl == len(self.LEVELS):
            return self.cast()
        e = self.expr(lvl + 1)
        while self.peek() in self.LEVELS[lvl]:
            op = self.eat()
            r = self.expr(lvl + 1)
            e = ("bin", op, e, r)
        return e

    def cast(self):
        e = self.postfix()
        while self.peek() == "as":
            self.eat("as")
            e = ("as", e, self.eat())
        return e

    def postfix(self):
        e = self.primary()
        while self.peek() == ".":
            self.eat(".")
            name = self.eat()
            if self.peek() == "(":
                self.eat("(")
                args = []
                if self.peek() != ")":
                    args.append(self.expr())
                    while self.peek() == ",":
                        self.eat(",")
                        args.append(self.expr())
                self.eat(")")
                e = ("call", name, e, args)
            else:
                e = ("field", e, name)
        return e

    def primary(self):
        v = self.peek()
        if v == "(":
            self.eat("(")
            es = [self.expr()]
            while self.peek() == ",":
                self.eat(",")
                if self.peek() == ")":
                    break
                es.append(self.expr())
            self.eat(")")
            return es[0] if len(es) == 1 else ("tuple", es)
        if v == "if":
            self.eat("if")
            c = self.expr()
            a = self.block()
            self.eat("else")
            b = self.block()
            return ("if", c, a, b)
        if v == "{":
            return self.block()
        if v is not None and re.match(r"^\d+$", v):
            self.eat()
            return ("lit", int(v))
        if v is not None and re.match(r"^[A-Za-z_]\w*$", v):
            self.eat()
            if self.peek() == "(":      # plain function call, e.g. to_double_digit(low, high)
                self.eat("(")
                args = [self.expr()]
                while self.peek() == ",":
                    self.eat(",")
                    args.append(self.expr())
                self.eat(")")
                return ("fn", v, args)
            return ("var", v)
        die("unexpected token %r" % v)


class Gen:
    def __init__(self, fnsigs):
        self.fnsigs = fnsigs

    def ty(self, e, env):
        k = e[0]
        if k == "var":
            if e[1] == "BITS":
                return "u32"
            if e[1] not in env:
                die("unbound variable " + e[1])
            return env[e[1]]
        if k == "lit":
            return "lit"
        if k == "as":
            return e[2]
        if k == "tuple":
            return tuple(self.ty(x, env) for x in e[1])
        if k == "field":
            t = self.ty(e[1], env)
            return t[int(e[2])]
        if k == "call":
            t = self.ty(e[2], env)
            if e[1] in ("overflowing_add", "overflowing_sub"):
                return (t, "bool")
            die("unsupported method " + e[1])
        if k == "fn":
            return self.fnsigs[e[1]][1]
        if k == "bin":
            op = e[1]
            if op in ("||", "&&", "==", "!=", "<", ">", "<=", ">="):
                return "bool"
            lt, rt = self.ty(e[2], env), self.ty(e[3], env)
            if op in ("<<", ">>"):
                return lt
            return rt if lt == "lit" else lt
        if k == "if":
            return self.ty(e[2], env)
        if k == "block":
            env2 = dict(env)
            for pat, ex in e[1]:
                self.bind(pat, self.ty(ex, env2), env2)
            return self.ty(e[2], env2)
        die("cannot type " + str(e))

    def bind(self, pat, t, env):
        if isinstance(pat, list):
            if not isinstance(t, tuple) or len(t) != len(pat):
                die("tuple pattern mismatch")
            for n, x in zip(pat, t):
                env[n] = x
        else:
            env[pat] = t

    def ex(self, e, env):
        k = e[0]
        if k == "var":
            return "w" if e[1] == "BITS" else e[1]
        if k == "lit":
            return str(e[1])
        if k == "tuple":
            return "(" + ", ".join(self.ex(x, env) for x in e[1]) + ")"
        if k == "field":
            return "(%s (%s))" % ("fst" if e[2] == "0" else "snd", self.ex(e[1], env))
        if k == "as":
            src = self.ty(e[1], env)
            dst = e[2]
            x = self.ex(e[1], env)
            conv = {("Digit", "DoubleDigit"): "dd_of_digit %s", ("DoubleDigit", "Digit"): "digit_of_dd w %s",
                    ("Digit", "SignedDigit"): "sd w %s", ("SignedDigit", "Digit"): "ud w %s",
                    ("Digit", "Digit"): "%s", ("DoubleDigit", "DoubleDigit"): "%s", ("lit", "Digit"): "%s", ("lit", "DoubleDigit"): "%s"}
            if (src, dst) not in conv:
                die("unsupported cast %s as %s" % (src, dst))
            return "(" + conv[(src, dst)] % x + ")"
        if k == "call":
            t = self.ty(e[2], env)
            f = {("overflowing_add", "Digit"): "u_ovf_add w", ("overflowing_sub", "Digit"): "u_ovf_sub w",
                 ("overflowing_add", "SignedDigit"): "s_ovf_add w", ("overflowing_sub", "SignedDigit"): "s_ovf_sub w"}.get((e[1], t))
            if f is None or len(e[3]) != 1:
                die("unsupported method call %s on %s" % (e[1], t))
            return "(%s %s %s)" % (f, self.ex(e[2], env), self.ex(e[3][0], env))
        if k == "fn":
            if e[1] not in self.fnsigs:
                die("call of unknown function " + e[1])
            return "(%s w %s)" % (e[1], " ".join(self.ex(a, env) for a in e[2]))
        if k == "bin":
            op, a, b = e[1], e[2], e[3]
            ta, tb = self.ty(a, env), self.ty(b, env)
            xa, xb = self.ex(a, env), self.ex(b, env)
            t = tb if ta == "lit" else ta
            if t == "bool":
                f = {"||": "orb", "&&": "andb", "|": "orb", "&": "andb", "^": "xorb", "!=": "xorb", "==": "Bool.eqb"}.get(op)
                if f is None:
                    die("unsupported boolean operator " + op)
                return "(%s %s %s)" % (f, xa, xb)
            if op in ("<", ">", "<=", ">=", "==", "!="):
                f = {"<": "Z.ltb %s %s", ">": "Z.ltb %s %s", "<=": "Z.leb %s %s", ">=": "Z.leb %s %s", "==": "Z.eqb %s %s",
                     "!=": "negb (Z.eqb %s %s)"}[op]
                if op in (">", ">="):
                    xa, xb = xb, xa
                return "(" + f % (xa, xb) + ")"
            pre = {"DoubleDigit": "dd", "Digit": "dg"}.get(t)
            if pre is None:
                die("arithmetic on unsupported type %s" % (t,))
            f = {"+": "add", "-": "sub", "*": "mul", "/": "div", "%": "rem", "<<": "shl", ">>": "shr", "|": "or", "&": "and", "^": "xor"}.get(op)
            if f is None:
                die("unsupported operator " + op)
            return "(%s_%s w %s %s)" % (pre, f, xa, xb)
        if k == "if":
            return "(if %s then %s else %s)" % (self.ex(e[1], env), self.ex(e[2], env), self.ex(e[3], env))
        if k == "block":
            env2 = dict(env)
            s = ""
            for pat, ex in e[1]:
                t = self.ty(ex, env2)
                x = self.ex(ex, env2)
                self.bind(pat, t, env2)
                s += ("let '(%s) := %s in " % (", ".join(pat), x)) if isinstance(pat, list) else ("let %s := %s in " % (pat, x))
            return "(" + s + self.ex(e[2], env2) + ")"
        die("cannot translate " + str(e))


def main():
    src = open(os.path.join(REPO, "src/digit.rs")).read()
    src = re.sub(r"/\*.*?\*/", "", src, flags=re.S)
    m = re.search(r"macro_rules!\s*digit_module\s*\{", src)
    if not m:
        die("digit_module! not found")
    fns = {}
    order = []
    for fm in re.finditer(r"pub const fn (\w+)\s*\(", src):
        name = fm.group(1)
        # parameters
        i = fm.end()
        d, j = 1, i
        while d:
            d += {"(": 1, ")": -1}.get(src[j], 0)
            j += 1
        params = src[i:j - 1]
        rm = re.match(r"\s*->\s*([^{]+)\{", src[j:])
        if not rm:
            die("no return type for " + name)
        ret = rm.group(1).strip()
        k = j + rm.end() - 1
        d, e = 0, k
        while True:
            d += {"{": 1, "}": -1}.get(src[e], 0)
            e += 1
            if d == 0:
                break
        fns[name] = (params, ret, src[k:e])
        order.append(name)
    for w in WANTED:
        if w not in fns:
            die("function %s not found in digit.rs" % w)
    extra = [n for n in order if n not in WANTED]
    if extra:
        die("digit.rs has functions the translator does not know about: %s" % extra)

    def rty(s):
        s = s.strip()
        if s.startswith("("):
            return tuple(x.strip() for x in s[1:-1].split(","))
        return s
    sigs = {}
    for n in WANTED:
        params, ret, _ = fns[n]
        ps = []
        for p in params.split(","):
            if not p.strip():
                continue
            pn, pt = p.split(":")
            ps.append((pn.strip(), pt.strip()))
        sigs[n] = (ps, rty(ret))
    gen = Gen(sigs)
    out = ["(* GENERATED on every run by tools/rs2v_digit.py from /repo/src/digit.rs.  Do not edit.",
           "   Proofs/DigitTie.v proves each function equal to the hand-written model of Model/Digit.v. *)",
           "From Bnum Require Import Base Prim.", "From Bnum.Model Require Import DigitPrims.", "", "Module DigitGen.", ""]
    for n in WANTED:
        ps, ret = sigs[n]
        body = P(tokenize(fns[n][2])).block()
        env = {pn: pt for pn, pt in ps}
        for pn, pt in ps:
            if pt not in ("Digit", "SignedDigit", "DoubleDigit", "bool"):
                die("unsupported parameter type %s in %s" % (pt, n))
        if gen.ty(body, env) != ret:
            die("return type mismatch in %s: %s vs %s" % (n, gen.ty(body, env), ret))
        argl = " ".join("(%s : %s)" % (pn, "bool" if pt == "bool" else "Z") for pn, pt in ps)
        out.append("Definition %s (w : Z) %s :=\n  %s.\n" % (n, argl, gen.ex(body, env)))
    out.append("End DigitGen.")
    txt = "\n".join(out) + "\n"
    p = os.path.join(ROOT, "coq", "Generated", "DigitGen.v")
    if not os.path.exists(p) or open(p).read() != txt:
        open(p, "w").write(txt)
    return 0


if __name__ == "__main__":
    sys.exit(main())

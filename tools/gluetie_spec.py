"""tools/gluetie_spec.py — the table tools/mk_gluetie.py expands (see there).  property -> (family, description,
new file?, prelude (Coq text placed before the lemmas), [(generated function, model right-hand side, proof or None)])."""

C01 = [
    ("U_midpoint", "U_midpoint", None),
    ("U_abs_diff", "U_abs_diff", None),
    ("I_unsigned_abs", "I_unsigned_abs", None),
    ("I_abs", "I_abs", None),
    ("I_midpoint", "I_midpoint", None),
    ("I_abs_diff", "I_abs_diff", None),
    ("I_neg", "I_neg", None),
    # unchecked_*: `checked_*(..).unwrap_unchecked()`; the generated function is the Option (None = undefined behaviour)
    ("U_unchecked_add", "U_checked_add", None),
    ("U_unchecked_sub", "U_checked_sub", None),
    ("I_unchecked_add", "I_checked_add", None),
    ("I_unchecked_sub", "I_checked_sub", None),
]
C02 = [
    ("U_unchecked_mul", "U_checked_mul", None),
    ("I_unchecked_mul", "I_checked_mul", None),
]
C03 = [
    ("U_div_euclid", "U_div_euclid", None),
    ("U_rem_euclid", "U_rem_euclid", None),
    ("U_next_multiple_of", "U_next_multiple_of", None),
    ("U_div_floor", "U_div_floor", None),
    ("U_div_ceil", "U_div_ceil", None),
    ("I_div_euclid", "I_div_euclid", None),
    ("I_rem_euclid", "I_rem_euclid", None),
    ("I_next_multiple_of", "I_next_multiple_of", None),
    ("I_div_floor", "I_div_floor", None),
    ("I_div_ceil", "I_div_ceil", None),
    ("U_checked_next_multiple_of", "U_checked_next_multiple_of", None),
    ("I_checked_next_multiple_of", "I_checked_next_multiple_of", None),
    ("I_div_rem_unchecked", "I_div_rem_unchecked", None),
    ("I_overflowing_div", "I_overflowing_div", None),
    ("I_overflowing_div_euclid", "I_overflowing_div_euclid", None),
    ("I_overflowing_rem_euclid", "I_overflowing_rem_euclid", None),
    ("U_div", "U_div", None),
    ("U_rem", "U_rem", None),
    ("I_div", "I_div", None),
    ("I_rem", "I_rem", None),
]
C05 = [
    ("U_rotate_left", "rotate_left w a k", None),
    ("U_rotate_right", "rotate_right w a k", None),
    ("U_unbounded_shl", "U_unbounded_shl", None),
    ("U_unbounded_shr", "U_unbounded_shr", None),
    ("I_rotate_left", "rotate_left w a k", None),
    ("I_rotate_right", "rotate_right w a k", None),
    ("I_unbounded_shl", "I_unbounded_shl", None),
    ("I_unbounded_shr", "I_unbounded_shr", None),
    ("U_unchecked_shl", "U_checked_shl", None),
    ("U_unchecked_shr", "U_checked_shr", None),
    ("I_unchecked_shl", "I_checked_shl", None),
    ("I_unchecked_shr", "I_checked_shr", None),
]
C06 = [
    ("U_bits", "bits_of w a", None),
    ("U_next_power_of_two", "U_next_power_of_two", None),
    ("U_cast_signed", "a", None),
    ("I_count_ones", "count_ones a", None),
    ("I_count_zeros", "count_zeros w a", None),
    ("I_leading_zeros", "leading_zeros w a", None),
    ("I_trailing_zeros", "trailing_zeros w a", None),
    ("I_leading_ones", "leading_ones w a", None),
    ("I_trailing_ones", "trailing_ones w a", None),
    ("I_cast_unsigned", "a", None),
    ("I_swap_bytes", "swap_bytes w a", None),
    ("I_reverse_bits", "reverse_bits w a", None),
    ("I_is_power_of_two", "I_is_power_of_two", None),
    ("I_bits", "bits_of w a", None),
    ("I_bit", "bit w a k", None),
    ("I_is_zero", "is_zero a", None),
    ("I_is_one", "is_one a", None),
    ("U_checked_next_power_of_two", "U_checked_next_power_of_two", None),
    ("I_bitand", "bitand a b", None),
    ("I_bitor", "bitor a b", None),
    ("I_bitxor", "bitxor a b", None),
    ("I_not", "bitnot w a", None),
]
C07 = [
    ("I_signum", "signum w a", None),
    ("I_is_positive", "is_positive w a", None),
    ("I_is_negative", "is_negative w a", None),
    ("U_ne", "negb (eq_digits a b)", None),
    ("I_eq", "eq_digits a b", None),
    ("I_ne", "negb (eq_digits a b)", None),
    ("I_cmp", "icmp w a b", None),
]
C08 = [
    ("U_pow", "U_pow", None),
    ("I_pow", "I_pow", None),
    ("U_ilog2", "U_ilog2", None),
    ("U_checked_ilog2", "U_checked_ilog2", None),
    ("I_checked_pow", "I_checked_pow",
     "intros. unfold Glue.I_checked_pow, I_checked_pow. rewrite land1_even.\n  destruct (U_checked_pow w (I_unsigned_abs w a) k); reflexivity."),
    ("I_ilog2", "I_ilog2", None),
    ("I_checked_ilog2", "I_checked_ilog2", None),
    ("I_overflowing_pow", "I_overflowing_pow",
     "intros. unfold Glue.I_overflowing_pow, I_overflowing_pow. rewrite land1_odd1.\n  destruct (U_overflowing_pow w (I_unsigned_abs w a) k) as [u o].\n  destruct (is_negative w a && Z.odd k); reflexivity."),
]

C04 = [(S + "_" + f, S + "_" + m, None) for S in "UI" for f, m in
       [("Add_add", "add"), ("Mul_mul", "mul"), ("Sub_sub", "sub")]] + [
    ("U_Not_ref_not", "bitnot w a", None), ("I_Not_ref_not", "bitnot w a", None),
    # Shl<ExpType> / Shr<ExpType>: the run tables' expression (amount type u32 = ExpType: no conversion)
    ("U_Shl_ExpType_shl", "Ops.U_Shl_prim dbg w Ops.AU32 a k", None), ("U_Shr_ExpType_shr", "Ops.U_Shr_prim dbg w Ops.AU32 a k", None),
    ("I_Shl_ExpType_shl", "Ops.I_Shl_prim dbg w Ops.AU32 a k", None), ("I_Shr_ExpType_shr", "Ops.I_Shr_prim dbg w Ops.AU32 a k", None),
    ("U_BitAnd_bitand", "bitand a b", None), ("U_BitOr_bitor", "bitor a b", None), ("U_BitXor_bitxor", "bitxor a b", None),
    ("U_Div_div", "U_div", None), ("U_Rem_rem", "U_rem", None), ("U_Not_not", "bitnot w a", None),
    # Div<Digit> / Rem<Digit>: div_rem_digit(rhs).0 / .1, a zero digit panics (vocabulary entry div_rem_digit of the translator)
    ("U_Div_digit_div", "Ops.U_Div_digit w a k", None), ("U_Rem_digit_rem", "Ops.U_Rem_digit w a k", None),
    ("I_Neg_neg", "I_neg", None), ("I_Neg_ref_neg", "I_neg", None),
    ("I_BitAnd_bitand", "bitand a b", None), ("I_BitOr_bitor", "bitor a b", None), ("I_BitXor_bitxor", "bitxor a b", None),
    ("I_Div_div", "I_div", None), ("I_Rem_rem", "I_rem", None), ("I_Not_not", "bitnot w a", None),
]

# C18: the num_traits forwarders of src/int/numtraits.rs; right-hand sides = the functions of Model/NumTraits.v the run table uses
_NT = [("CheckedNeg_checked_neg", "checked_neg"), ("CheckedShl_checked_shl", "checked_shl"), ("CheckedShr_checked_shr", "checked_shr"),
       ("CheckedEuclid_checked_div_euclid", "checked_div_euclid"), ("CheckedEuclid_checked_rem_euclid", "checked_rem_euclid"),
       ("Euclid_div_euclid", "div_euclid"), ("Euclid_rem_euclid", "rem_euclid"), ("WrappingNeg_wrapping_neg", "wrapping_neg"),
       ("WrappingShl_wrapping_shl", "wrapping_shl"), ("WrappingShr_wrapping_shr", "wrapping_shr"), ("Pow_pow", "pow"),
       ("Saturating_saturating_add", "saturating_add"), ("Saturating_saturating_sub", "saturating_sub"), ("MulAdd_mul_add", "mul_add"),
       ("CheckedAdd_checked_add", "checked_add"), ("CheckedDiv_checked_div", "checked_div"), ("CheckedMul_checked_mul", "checked_mul"),
       ("CheckedRem_checked_rem", "checked_rem"), ("CheckedSub_checked_sub", "checked_sub"), ("SaturatingAdd_saturating_add", "saturating_add"),
       ("SaturatingMul_saturating_mul", "saturating_mul"), ("SaturatingSub_saturating_sub", "saturating_sub"),
       ("WrappingAdd_wrapping_add", "wrapping_add"), ("WrappingMul_wrapping_mul", "wrapping_mul"), ("WrappingSub_wrapping_sub", "wrapping_sub"),
       ("OverflowingAdd_overflowing_add", "overflowing_add"), ("OverflowingSub_overflowing_sub", "overflowing_sub")]
C18 = [(S + "_" + g, "NumTraits.T%s_%s" % (S, m), None) for S in "UI" for g, m in _NT]
C18 = [(n_, "NumTraits.TU_checked_neg a" if n_ == "U_CheckedNeg_checked_neg" else r_, p_) for n_, r_, p_ in C18] + [
    ("U_Bounded_min_value", "NumTraits.TU_min_value n", None), ("U_Bounded_max_value", "NumTraits.TU_max_value w n", None),
    ("I_Bounded_min_value", "NumTraits.TI_min_value w n", None), ("I_Bounded_max_value", "NumTraits.TI_max_value w n", None),
    ("U_One_one", "NumTraits.T_one n", None), ("I_One_one", "NumTraits.T_one n", None),
    ("U_Zero_zero", "NumTraits.T_zero n", None), ("I_Zero_zero", "NumTraits.T_zero n", None),
    ("U_One_is_one", "NumTraits.T_is_one a", None), ("I_One_is_one", "NumTraits.T_is_one a", None),
    ("U_Zero_is_zero", "NumTraits.T_is_zero a", None), ("I_Zero_is_zero", "NumTraits.T_is_zero a", None),
]

# Shl / Shr by the eleven other primitive amount types (shift_impl!, try_shift_impl! expansions): the run tables' U_Shl_prim ..
_AMT = {"u8": "AU8", "u16": "AU16", "u64": "AU64", "u128": "AU128", "usize": "AUsize",
        "i8": "AI8", "i16": "AI16", "i32": "AI32", "i64": "AI64", "i128": "AI128", "isize": "AIsize"}
C04 += [("%s_%s_%s_%s" % (S, tr, ty, m), "Ops.%s_%s_prim dbg w Ops.%s a k" % (S, tr, _AMT[ty]), None if ty in ("u8", "u16") else "glue_amt_tac.")
        for tr, m in (("Shl", "shl"), ("Shr", "shr")) for ty in ["u8", "u16", "i8", "i16", "i32", "isize", "i64", "i128", "usize", "u64", "u128"]
        for S in "UI"]

C04_PRELUDE = """
From Bnum.Model Require Ops.
(* try_shift_impl!: `result_expect!(u32::try_from(rhs))` in debug builds / `rhs as u32` otherwise = Ops.amt_to_exptype *)
Ltac glue_amt_tac :=
  intros;
  lazymatch goal with
  | |- ?l = ?r => let hl := glue_head l in let hr := glue_head r in unfold hl, hr
  end;
  unfold Ops.amt_to_exptype, option_expect;
  lazymatch goal with
  | |- context [if ?d then _ else _] =>
      destruct d; [ match goal with |- context [if ?c then Some _ else None] => destruct c end | ]; reflexivity
  end.
"""

C08_PRELUDE = """
(* `pow & 1 == 0` / `pow & 1 == 1` (bint checked_pow, overflowing_pow) are the model's Z.even / Z.odd *)
Lemma land1_even e : (Z.land e 1 =? 0) = Z.even e.
Proof. rewrite <- Z.negb_odd, <- land1_odd, Bool.negb_involutive. reflexivity. Qed.
Lemma land1_odd1 e : (Z.land e 1 =? 1) = Z.odd e.
Proof.
  destruct e as [|p|p]; try reflexivity; destruct p as [q|q|]; try reflexivity; destruct q; reflexivity.
Qed.
"""

SPEC = {
    "C01": ("addsub2", "abs, unsigned_abs, abs_diff, midpoint of buint/mod.rs and bint/mod.rs; BInt::neg; unchecked_add / unchecked_sub",
            False, "", C01),
    "C02": ("mul2", "unchecked_mul of src/int/unchecked.rs", False, "", C02),
    "C03": ("div2", "div_euclid, rem_euclid, div_floor, div_ceil, next_multiple_of, checked_next_multiple_of; bint div_rem_unchecked, "
            "overflowing_div, overflowing_div_euclid, overflowing_rem_euclid; the inherent div / rem of const_trait_fillers.rs", False, "", C03),
    "C04": ("ops", "the operator trait impls of src/int/ops.rs (impls!), src/buint/ops.rs, src/bint/ops.rs that forward to the inherent "
            "methods: Add Sub Mul Div Rem Neg Not BitAnd BitOr BitXor, Div / Rem by a digit, Shl / Shr for the twelve primitive amount types "
            "(shift_impl!, try_shift_impl! expansions: widening cast, or u32::try_from + expect in debug builds and `as u32` otherwise)",
            True, C04_PRELUDE, C04),
    "C05": ("rotate", "rotate_left/right, unbounded_shl/shr of buint/mod.rs and bint/mod.rs; unchecked_shl / unchecked_shr", False, "", C05),
    "C06": ("bits", "bits, bit, the bit counts of BInt, swap_bytes / reverse_bits of BInt, is_power_of_two, (checked_)next_power_of_two, "
            "is_zero / is_one, cast_signed / cast_unsigned, BInt bitand / bitor / bitxor / not", True, "", C06),
    "C07": ("sign", "signum, is_positive, is_negative; BInt eq / ne / cmp, BUint ne", True, "", C07),
    "C08": ("pow", "pow, ilog2, checked_ilog2 (BInt: the ilog! / checked_ilog! expansions), bint checked_pow / overflowing_pow", True, C08_PRELUDE, C08),
    "C18": ("numtraits", "the num_traits forwarders of src/int/numtraits.rs: Bounded, Zero, One, Checked* / Wrapping* / Saturating* / "
            "Overflowing* (the 13 num_trait_impl! expansions included), CheckedEuclid, Euclid, Pow, MulAdd", True,
            "From Bnum.Model Require NumTraits.", C18),
}

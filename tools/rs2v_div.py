#!/usr/bin/env python3
"""tools/rs2v_div.py — TRANSLATOR: Knuth's Algorithm D (src/buint/div.rs: basecase_div_rem)  ->  coq/Generated/DivGen.v

Reads $BNUM_REPO (default /repo) src/buint/div.rs, takes `basecase_div_rem` out of the `div_impl` macro and translates it,
together with the items nested in its body (the local structs `Remainder` / `Mul`, the methods of their `impl` blocks and the
nested `const fn tuple_gt`), into Gallina over the control-flow vocabulary of coq/Model/Imp.v (+ coq/Model/ImpDiv.v: checked
digit subtraction, Digit::checked_add) and the primitive vocabulary of coq/Prim.v, coq/Model/DigitPrims.v,
coq/Generated/DigitGen.v.  coq/Proofs/DivGenTie.v proves the generated function equal to the hand-written model
Model/Div.v: basecase_div_rem for all inputs the dispatcher div_rem_unchecked can pass.

The lexer, the expression / statement parser (L.LP), the type machinery and the statement generator (L.Gen) are imported
from tools/rs2v_loops.py and extended by subclassing; see tools/DIV_TRANSLATOR.md for the subset that is added and for the
translation scheme.  Anything outside the subset makes the translator fail loudly: the construct is named on stderr, a stub
`Definition basecase_div_rem : unit := tt.` is written (so that exactly the tie lemmas stop checking) and the exit status is 1
(0 with `--for Cxx` for a property other than C03, as in rs2v_loops.py)."""
import re, sys, os
sys.path.insert(0, os.path.dirname(os.path.abspath(__file__)))
import rs2v_loops_v1 as L   # the parser/generator this translator was built on (frozen copy; rs2v_loops.py has since grown)

REPO = os.environ.get("BNUM_REPO", "/repo")
ROOT = os.path.dirname(os.path.dirname(os.path.abspath(__file__)))
SRC = "src/buint/div.rs"
ENTRY = "basecase_div_rem"
GROUPS = {"C03": [ENTRY]}
LAST_MSG = [""]


def die(msg):
    LAST_MSG[0] = msg
    sys.stderr.write("rs2v_div: " + msg + "\n")
    sys.exit(1)


# Functions of $BUint that are tied to the hand-written model elsewhere and are therefore called BY THEIR MODEL NAME:
#   last_digit_index        Proofs/LoopsTieDiv.v: loops_last_digit_index   (Loops.last_digit_index = Z.of_nat (Div.last_digit_index _))
#   unchecked_shl_internal  Proofs/LoopsTieC05.v: loops_unchecked_shl_internal (Loops.unchecked_shl_internal = Shift.shl_internal,
#                           for 0 <= rhs < BITS; Proofs/DivGenTie.v: divgen_shl_amount_in_range shows the call site satisfies it)
#   wrapping_shr            glue over overflowing_shr / unchecked_shr_internal: Generated/Glue.v: U_wrapping_shr is
#                           `fst (Shift.U_overflowing_shr ..)` = Shift.U_wrapping_shr by definition (Proofs/GlueTieC05.v) and
#                           unchecked_shr_pad_internal is tied in Proofs/LoopsTieC05.v
# (kind, Rust name) -> (Gallina format of the arguments, parameter types (receiver first), result type)
EXTERNAL = {
    ("method", "last_digit_index"): ("(Z.of_nat (Div.last_digit_index %s))", ["buint"], "usize"),
    ("method", "wrapping_shr"): ("(Shift.U_wrapping_shr w %s %s)", ["buint", "ExpType"], "buint"),
    ("static", "unchecked_shl_internal"): ("(Shift.shl_internal w %s %s)", ["buint", "ExpType"], "buint"),
}

STRUCTS = {}        # struct name -> (size parameter name, [(field, type)])   (filled while parsing; cleared per run)
SNAMES = set()      # the names of all structs declared in the body (items are order-independent: pre-scanned)
GALLINA_KEYWORDS = {"as", "at", "cofix", "else", "end", "exists", "exists2", "fix", "for", "forall", "fun", "if", "IF", "in",
                    "let", "match", "mod", "return", "then", "using", "where", "with", "Prop", "Set", "Type", "Done", "Panicked",
                    "NoFuel", "Continue", "Break", "Return", "Exited", "Returned", "Some", "None", "true", "false", "fst", "snd",
                    "bind", "repeat", "nil", "cons", "tt", "O", "S", "Z", "nat", "bool", "list", "res"}


def sname(t):
    t = L.rs(t)
    return t[7:] if isinstance(t, str) and t.startswith("struct:") else None


def coq_ty(t):
    t = L.rs(t)
    if isinstance(t, tuple):
        return "(" + " * ".join(coq_ty(x) for x in t) + ")"
    if isinstance(t, L.TVar) or t in L.INTS:
        return "Z"
    if sname(t) is not None:
        return "(" + " * ".join(coq_ty(ft) for _, ft in STRUCTS[sname(t)][1]) + ")"
    return {"bool": "bool", "buint": "list Z", "arr": "list Z", "ordering": "comparison"}[t]


# rs2v_loops looks these two up as module globals at call time: every message gets this translator's prefix and its
# per-run LAST_MSG, and struct / array types are printable (e.g. in `while_loop (R := ..)`)
L.die = die
L.coq_ty = coq_ty


def proj(v, i, k):
    """component i of the left-nested Gallina tuple v with k components"""
    if k == 1:
        return v
    if i == k - 1:
        return "(snd %s)" % v
    return proj("(fst %s)" % v, i, k - 1)


# ---------------------------------------------------------------- parsing

class DP(L.LP):
    """L.LP + nested items (struct / impl / const fn), `mut` parameters, struct literals `Name { f: e, g }`, array
    literals `[e; M]`, `if let Some(x) = e { .. }`, the types `[$Digit; M]`, `$BUint<M>`, `Remainder<M>`, `Self` of an impl."""

    def __init__(self, toks, sz="N", selfty="buint"):
        L.LP.__init__(self, toks)
        self.sz, self.selfty = sz, selfty
        self.nostruct = 0

    def type_(self):
        v = self.peek()
        if v == "[":
            self.eat("[")
            el = self.type_()
            self.eat(";")
            n = self.ident()
            self.eat("]")
            if el != "Digit" or n != self.sz:
                die("unsupported array type [%s; %s] (only [$Digit; %s] here)" % (L.show(el), n, self.sz))
            return "arr"
        if v == "Self":
            self.eat()
            if self.peek() == "<":
                die("generic arguments on Self")
            return self.selfty
        if v == "$BUint":
            self.eat()
            self.eat("<")
            n = self.ident()
            self.eat(">")
            if n != self.sz:
                die("$BUint<%s> where the size parameter in scope is %s" % (n, self.sz))
            return "buint"
        if v in SNAMES:
            self.eat()
            if self.peek() == "<":
                self.eat("<")
                n = self.ident()
                self.eat(">")
                if n != self.sz:
                    die("%s<%s> where the size parameter in scope is %s" % (v, n, self.sz))
            return "struct:" + v
        return L.LP.type_(self)

    def cond(self):
        self.nostruct += 1
        c = self.expr()
        self.nostruct -= 1
        return c

    def stmt(self):
        v = self.peek()
        if v == "struct":
            return self.struct_item()
        if v == "impl":
            return self.impl_item()
        if v == "const" and self.peek(1) == "fn":
            return self.fn_item()
        if v in ("pub", "fn", "static", "use", "type", "enum", "trait", "mod", "const"):
            die("unsupported item in a function body: %s" % v)
        if v == "while":
            self.eat("while")
            if self.peek() == "let":
                die("unsupported statement: while let")
            c = self.cond()
            return ["while", c, self.block()]
        return L.LP.stmt(self)

    def if_(self):
        self.eat("if")
        if self.peek() == "let":
            self.eat("let")
            if self.eat() != "Some":
                die("if let: only the pattern Some(x) is supported")
            self.eat("(")
            if self.peek() == "mut":
                die("if let Some(mut x) is not supported")
            name = self.ident()
            self.eat(")")
            self.eat("=")
            e = self.cond()
            a = self.block()
            b = None
            if self.peek() == "else":
                self.eat("else")
                if self.peek() == "if":
                    die("if let .. else if is not supported")
                b = self.block()
            return ["iflet", name, e, a, b]
        c = self.cond()
        a = self.block()
        b = None
        if self.peek() == "else":
            self.eat("else")
            b = [self.if_()] if self.peek() == "if" else self.block()
        return ["if", c, a, b]

    def skip_attrs(self):
        while self.peek() == "#":
            self.eat("#")
            self.eat("[")
            d = 1
            while d:
                d += {"[": 1, "]": -1}.get(self.eat(), 0)

    def size_generic(self):
        """`<const M: usize>` -> M"""
        self.eat("<"), self.eat("const")
        n = self.ident()
        self.eat(":"), self.eat("usize"), self.eat(">")
        return n

    def struct_item(self):
        self.eat("struct")
        name = self.ident()
        if name in STRUCTS or name in ("Self", "Some", "None"):
            die("struct %s: name already in use" % name)
        if self.peek() != "<":
            die("struct %s: expected one const generic size parameter" % name)
        sz = self.size_generic()
        self.eat("{")
        saved = (self.sz, self.selfty)
        self.sz, self.selfty = sz, "struct:" + name
        fields = []
        while self.peek() != "}":
            self.skip_attrs()
            if self.peek() == "pub":
                die("struct %s: visibility on fields is not supported" % name)
            f = self.ident()
            self.eat(":")
            ft = self.type_()
            if ft not in ("Digit", "arr", "bool", "usize", "ExpType", "buint"):
                die("struct %s: unsupported field type %s" % (name, L.show(ft)))
            if f in [x for x, _ in fields] or f == "digits":
                die("struct %s: field name %s" % (name, f))
            fields.append((f, ft))
            if self.peek() == ",":
                self.eat(",")
            elif self.peek() != "}":
                die("struct %s: cannot parse the field list" % name)
        self.eat("}")
        self.sz, self.selfty = saved
        if not fields:
            die("struct %s without fields" % name)
        STRUCTS[name] = (sz, fields)
        return ["item_struct", name]

    def impl_item(self):
        self.eat("impl")
        if self.peek() != "<":
            die("impl without the const generic size parameter")
        sz = self.size_generic()
        name = self.ident()
        if name not in SNAMES:
            die("impl for %s, which is not a struct declared in the same body" % name)
        self.eat("<")
        if self.ident() != sz:
            die("impl %s: size parameter differs from the one of the impl header" % name)
        self.eat(">")
        self.eat("{")
        saved = (self.sz, self.selfty)
        self.sz, self.selfty = sz, "struct:" + name
        fns = []
        while self.peek() != "}":
            self.skip_attrs()
            if not (self.peek() == "const" and self.peek(1) == "fn"):
                die("impl %s: only `const fn` items are supported, got %r" % (name, self.peek()))
            f = self.fn_item()
            f[1]["owner"] = name
            fns.append(f)
        self.eat("}")
        self.sz, self.selfty = saved
        return ["item_impl", name, fns]

    def fn_item(self):
        self.eat("const"), self.eat("fn")
        name = self.ident()
        if self.peek() == "<":
            die("fn %s: generic parameters on a nested fn are not supported" % name)
        sig = self.params(name)
        self.eat("->")
        sig["ret"] = self.type_()
        sig["sz"], sig["selfty"], sig["owner"] = self.sz, self.selfty, None
        body = self.block()
        return ["item_fn", sig, body]

    def params(self, name):
        """'(' [&]self | mut self | [mut] x: T , ... ')'"""
        sig = {"name": name, "self": False, "selfmut": False, "params": [], "generics": []}
        self.eat("(")
        first = True
        while self.peek() != ")":
            mut = False
            if self.peek() == "mut":
                self.eat("mut")
                mut = True
            if first and (self.peek() == "self" or (self.peek() == "&" and self.peek(1) == "self")):
                if self.peek() == "&":
                    if mut:
                        die("fn %s: mut &self" % name)
                    self.eat("&")
                self.eat("self")
                sig["self"], sig["selfmut"] = True, mut
            else:
                pn = self.ident()
                self.eat(":")
                sig["params"].append((pn, self.type_(), mut))
            first = False
            if self.peek() == ",":
                self.eat(",")
            elif self.peek() != ")":
                die("fn %s: cannot parse the parameter list" % name)
        self.eat(")")
        return sig

    def primary(self):
        v = self.peek()
        if v == "[":
            self.eat("[")
            el = self.expr()
            if self.peek() != ";":
                die("array literal: only the form [value; LEN] is supported")
            self.eat(";")
            n = self.expr()
            self.eat("]")
            return ["arrlit", el, n]
        if (v == "Self" or v in SNAMES) and self.peek(1) == "{" and not self.nostruct:
            self.eat()
            self.eat("{")
            fields = []
            while self.peek() != "}":
                if self.peek() == ".":
                    die("struct literal with ..base is not supported")
                f = self.ident()
                if self.peek() == ":":
                    self.eat(":")
                    fields.append((f, self.expr()))
                else:
                    fields.append((f, ["var", f]))
                if self.peek() == ",":
                    self.eat(",")
                elif self.peek() != "}":
                    die("cannot parse the struct literal")
            self.eat("}")
            return ["structlit", v, fields]
        if v == "if":
            s = self.if_()
            if s[0] == "iflet":
                return ["ifletx"] + s[1:]
            return ["ifx", s[1], s[2], s[3]]
        return L.LP.primary(self)


# ---------------------------------------------------------------- generation

def rename(node, old, new):
    """in-place alpha-renaming of the variable `old` inside an AST fragment (used for an `if let Some(x)` that shadows)"""
    if not isinstance(node, list):
        return
    if len(node) == 2 and node[0] == "var" and node[1] == old:
        node[1] = new
        return
    if node and node[0] == "let":
        pat = node[1]
        names = [pat[1][0]] if pat[0] == "pid" else [n for n, _ in pat[1]]
        if old in names:
            die("`let %s` re-declares the variable bound by an enclosing `if let`: not supported" % old)
    if node and node[0] in ("iflet", "ifletx") and node[1] == old:
        die("nested `if let` binding the same name %s: not supported" % old)
    if node and node[0] == "structlit":
        for _, fe in node[2]:
            rename(fe, old, new)
        return
    for x in node:
        rename(x, old, new)


class DG(L.Gen):
    """L.Gen + struct values (Gallina tuples of their fields), plain arrays, calls of nested fns / struct methods / the
    externally tied $BUint functions, checked digit subtraction, Digit::wrapping_add, `if let Some(x) = d.checked_add(e)`,
    blocks with statements used as values."""

    def __init__(self, key, sigs, digit_sigs, tvs, final):
        L.Gen.__init__(self, key, sigs, digit_sigs, {}, tvs, final)
        sig = sigs[key]
        self.sz, self.selfty = sig["sz"], sig["selfty"]
        self.calls = set()

    # ------------------------------------------------ names
    def declare(self, env, name, ty, mut, ctx):
        if name == self.sz or name in GALLINA_KEYWORDS or name in ("w", "N", "M", "fuel"):
            self.die("local variable name %s is reserved by the translator / Gallina" % name)
        L.Gen.declare(self, env, name, ty, mut, ctx)

    def lines(self, ls, pad):
        return "\n".join(pad + x for l in ls for x in l.split("\n"))

    def resolve(self, kind, owner, name):
        """key in self.sigs of a nested fn (`owner` None) or of a method / associated fn of struct `owner`"""
        key = name if owner is None else owner + "_" + name
        sig = self.sigs.get(key)
        if sig is None or sig["owner"] != owner:
            return None
        return key

    # ------------------------------------------------ expressions
    def ex(self, e, env):
        k = e[0]
        if k == "var":
            n = e[1]
            if n == self.sz:
                return [], n, "usize"
            if n in ("N", "M"):
                self.die("size parameter %s is not in scope here" % n)
            return L.Gen.ex(self, e, env)
        if k == "field":
            p, v, t = self.ex(e[1], env)
            t = L.rs(t)
            if e[2] == "digits":
                if t != "buint":
                    self.die("`.digits` on a value of type " + L.show(t))
                return p, v, "arr"
            if sname(t) is not None:
                fields = STRUCTS[sname(t)][1]
                for i, (f, ft) in enumerate(fields):
                    if f == e[2]:
                        return p, proj(v, i, len(fields)), ft
                self.die("struct %s has no field %s" % (sname(t), e[2]))
            if not (isinstance(t, tuple) and len(t) == 2 and e[2] in ("0", "1")):
                self.die("unsupported field access .%s on %s" % (e[2], L.show(t)))
            return p, "(%s %s)" % ("fst" if e[2] == "0" else "snd", v), t[int(e[2])]
        if k == "structlit":
            name = e[1]
            if name == "Self":
                name = sname(self.selfty)
                if name is None:
                    self.die("struct literal Self { .. } outside a struct impl")
            fields = STRUCTS[name][1]
            if sorted(f for f, _ in e[2]) != sorted(f for f, _ in fields):
                self.die("struct literal %s: the fields given are not exactly the declared ones" % name)
            pre, vals = [], {}
            for f, fe in e[2]:                       # evaluation in source order
                p, v, t = self.ex(fe, env)
                L.unify(t, dict(fields)[f], "field %s of %s" % (f, name))
                pre += p
                vals[f] = v
            return pre, "(" + ", ".join(vals[f] for f, _ in fields) + ")", "struct:" + name
        if k == "arrlit":
            p, v, t = self.ex(e[1], env)
            L.unify(t, "Digit", "array literal element")
            if p or e[2] != ["var", self.sz]:
                self.die("array literal: only [<pure digit value>; %s] is supported" % self.sz)
            return [], "(repeat %s (Z.to_nat %s))" % (v, self.sz), "arr"
        if k == "ifletx":
            self.die("`if let` used as a value is not supported")
        if k == "ifx":
            if self.all_simple(e[2]) and self.all_simple(e[3]):
                return L.Gen.ex(self, e, env)
            return self.value_if(e, env)
        return L.Gen.ex(self, e, env)

    def all_simple(self, blk):
        """is this block a pure value block of the kind L.Gen.value_block accepts (no statements anywhere)?"""
        if blk is None or len(blk) != 1:
            return False
        s = blk[0]
        if s[0] == "expr":
            if s[1][0] == "ifx":
                return self.all_simple(s[1][2]) and self.all_simple(s[1][3])
            if s[1][0] == "blockx":
                return self.all_simple(s[1][1])
            return s[1][0] != "ifletx"
        if s[0] == "block":
            return self.all_simple(s[1])
        if s[0] == "if":
            return self.all_simple(s[2]) and self.all_simple(s[3])
        return False

    def value_stmts(self, blk, env, ind):
        """a block WITH statements used as a value: a sub-computation of type `res T` (no break / return / loop inside, no
        assignment to a variable of the enclosing scope).  Returns (text, type)."""
        holder = [None]
        ctx = {"loop": None, "protected": set(env.keys()), "value": holder, "outer": set(env.keys())}
        txt = self.stmts(list(blk), self.copy(env), ctx, ind)
        return txt, holder[0]

    def value_block(self, blk, env):
        if self.all_simple(blk):
            return L.Gen.value_block(self, blk, env)
        txt, t = self.value_stmts(blk, env, 1)
        x = self.tmp()
        return ["%s <- (\n%s\n) ;;" % (x, txt)], x, t

    def value_if(self, e, env):
        """`if c { stmts; v } else { .. }` as a value"""
        pc, vc, tc = self.ex(e[1], env)
        L.unify(tc, "bool", "if condition")
        if e[3] is None:
            self.die("if expression without else")
        ta, tya = self.value_stmts(e[2], env, 1)
        tb, tyb = self.value_stmts(e[3], env, 1)
        t = L.unify(tya, tyb, "if branches")
        x = self.tmp()
        return pc + ["%s <- (if %s then (\n%s\n) else (\n%s\n)) ;;" % (x, vc, ta, tb)], x, t

    def array_of(self, e, env):
        """the Gallina expression of the array a Rust place expression denotes: x.digits (x: $BUint), a (a: [$Digit; M]),
        s.f (s a struct variable, f a field of array type)"""
        while e[0] == "un" and e[1] == "&":
            e = e[2]
        if e[0] == "field" and e[2] == "digits" and e[1][0] == "var" and e[1][1] in env and L.rs(env[e[1][1]].ty) == "buint":
            return e[1][1]
        if e[0] == "var" and e[1] in env and L.rs(env[e[1]].ty) == "arr":
            return e[1]
        if e[0] == "field" and e[1][0] == "var" and e[1][1] in env and sname(env[e[1][1]].ty) is not None:
            p, v, t = self.ex(e, env)
            if t == "arr" and not p:
                return v
        self.die("unsupported array expression " + str(e))

    def path(self, segs, env):
        s = tuple(segs)
        if s[0] == "Self" and self.selfty != "buint":
            self.die("unsupported path " + "::".join(segs))
        if s in (("Self", "ZERO"), ("$BUint", "ZERO"), ("Self", "MIN"), ("$BUint", "MIN")):
            return [], "(ZERO (Z.to_nat %s))" % self.sz, "buint"
        if s in (("Self", "MAX"), ("$BUint", "MAX")):
            return [], "(UMAX w (Z.to_nat %s))" % self.sz, "buint"
        if s in (("Self", "BITS"), ("$BUint", "BITS")):
            return [], "(w * %s)" % self.sz, "ExpType"
        return L.Gen.path(self, segs, env)

    def bin(self, e, env):
        _, op, a, b = e
        if op == "-":
            pa, va, ta = self.ex(a, env)
            pb, vb, tb = self.ex(b, env)
            t = self.need(L.unify(ta, tb, "operands of -"), "operands of -")
            x = self.tmp()
            if t == "Digit":          # digit subtraction: overflow check (debug builds panic; the tie shows it never fires)
                return pa + pb + ["%s <- dsub %s %s ;;" % (x, va, vb)], x, "Digit"
            if t in ("usize", "ExpType"):
                return pa + pb + ["%s <- usub %s %s ;;" % (x, va, vb)], x, t
            self.die("operator - on unsupported type " + L.show(t))
        return L.Gen.bin(self, e, env)

    def call_gen(self, key, allargs, env):
        """call of another generated function (nested fn / struct method); arguments evaluated left to right"""
        sig = self.sigs[key]
        if sig.get("failed"):
            self.die("call of %s, which could not be translated" % key)
        formal = ([("self", sig["selfty"])] if sig["self"] else []) + [(pn, pt) for pn, pt, _ in sig["params"]]
        if len(allargs) != len(formal):
            self.die("call of %s with %d arguments, expected %d" % (key, len(allargs), len(formal)))
        pre, vs = [], []
        for a, (pn, pt) in zip(allargs, formal):
            p, v, t = self.ex(a, env)
            L.unify(t, pt, "argument %s of %s" % (pn, key))
            pre += p
            vs.append(v)
        self.calls.add(key)
        x = self.tmp()
        return pre + ["%s <- %s w %s fuel %s ;;" % (x, key, self.sz, " ".join(vs))], x, sig["ret"]

    def call_ext(self, kind, name, allargs, env):
        fmt, ptys, rty = EXTERNAL[(kind, name)]
        if len(allargs) != len(ptys):
            self.die("call of %s with %d arguments, expected %d" % (name, len(allargs), len(ptys)))
        pre, vs = [], []
        for a, pt in zip(allargs, ptys):
            p, v, t = self.ex(a, env)
            L.unify(t, pt, "argument of " + name)
            pre += p
            vs.append(v)
        return pre, fmt % tuple(vs), rty

    def mcall(self, e, env):
        _, recv, name, args = e
        save = self.ntmp
        p, v, t = self.ex(recv, env)
        t0 = L.rs(t)
        self.ntmp = save                     # the receiver is evaluated again by whoever handles the call
        if sname(t0) is not None:
            key = self.resolve("method", sname(t0), name)
            if key is None or not self.sigs[key]["self"]:
                self.die("struct %s has no method %s" % (sname(t0), name))
            return self.call_gen(key, [recv] + list(args), env)
        if t0 == "buint" and ("method", name) in EXTERNAL:
            return self.call_ext("method", name, [recv] + list(args), env)
        if t0 == "buint":
            self.die("call of $BUint method %s, which is not in the table of externally tied functions" % name)
        if t0 == "Digit" and name == "wrapping_add" and len(args) == 1:
            p, v, t = self.ex(recv, env)
            p2, v2, t2 = self.ex(args[0], env)
            L.unify(t2, "Digit", "argument of wrapping_add")
            return p + p2, "(dg_add w %s %s)" % (v, v2), "Digit"
        if t0 == "Digit" and name == "checked_add":
            self.die("Digit::checked_add is only supported as `if let Some(x) = a.checked_add(b) { .. }`")
        return L.Gen.mcall(self, e, env)

    def pcall(self, e, env):
        _, segs, args = e
        s = tuple(segs)
        if len(s) == 1:
            key = self.resolve("fn", None, s[0])
            if key is None:
                self.die("call of %s, which is not a nested fn of the translated function" % s[0])
            return self.call_gen(key, list(args), env)
        if len(s) == 2 and (s[0] in SNAMES or (s[0] == "Self" and sname(self.selfty) is not None)):
            owner = s[0] if s[0] in SNAMES else sname(self.selfty)
            key = self.resolve("method", owner, s[1])
            if key is None:
                self.die("struct %s has no associated fn %s" % (owner, s[1]))
            return self.call_gen(key, list(args), env)
        if len(s) == 2 and s[0] in ("Self", "$BUint"):
            if ("static", s[1]) in EXTERNAL:
                return self.call_ext("static", s[1], list(args), env)
            self.die("call of $BUint::%s, which is not in the table of externally tied functions" % s[1])
        return L.Gen.pcall(self, e, env)

    def call_translated(self, name, recv, args, env):
        self.die("internal: call_translated(%s)" % name)

    # ------------------------------------------------ statements
    def root_var(self, lhs):
        """the variable an assignment target belongs to"""
        e = lhs
        while True:
            if e[0] == "var":
                return e[1]
            if e[0] in ("field", "index"):
                e = e[1]
            elif e[0] == "un" and e[1] == "&":
                e = e[2]
            else:
                self.die("unsupported assignment target " + str(lhs))

    def set_field(self, var, sn, fname, newval):
        fields = STRUCTS[sn][1]
        return "let %s := (%s) in" % (var, ", ".join(newval if f == fname else proj(var, i, len(fields)) for i, (f, _) in enumerate(fields)))

    def stmts(self, ss, env, ctx, ind):
        pad = "  " * ind
        if not ss:
            return L.Gen.stmts(self, ss, env, ctx, ind)
        s, rest = ss[0], ss[1:]
        k = s[0]
        value = ctx.get("value")
        if k in ("item_struct", "item_impl", "item_fn"):          # hoisted: see collect_items
            return self.stmts(rest, env, ctx, ind)
        if value is not None:
            if k in ("return", "break", "while"):
                self.die("%s inside a block used as a value is not supported" % k)
            if k == "assign" and self.root_var(s[1]) in ctx["outer"]:
                self.die("assignment to %s, a variable of the enclosing scope, inside a block used as a value: not supported"
                         % self.root_var(s[1]))
            if k == "expr":
                if rest:
                    self.die("value expression in the middle of a block")
                if s[1][0] == "ifx":
                    return self.stmts([["if", s[1][1], s[1][2], s[1][3]]], env, ctx, ind)
                if s[1][0] == "ifletx":
                    return self.stmts([["iflet"] + s[1][1:]], env, ctx, ind)
                if s[1][0] == "blockx":
                    return self.stmts([["block", s[1][1]]], env, ctx, ind)
                p, v, t = self.ex(s[1], env)
                value[0] = t if value[0] is None else L.unify(value[0], t, "value of the block")
                return self.lines(p + ["Done " + v], pad)
        if k == "expr" and s[1][0] == "ifletx":
            if rest:
                self.die("value expression in the middle of a block")
            return self.stmts([["iflet"] + s[1][1:]], env, ctx, ind)
        if k == "iflet":
            _, name, e, a, b = s
            if not (e[0] == "mcall" and e[2] == "checked_add" and len(e[3]) == 1):
                self.die("if let Some(..) = <expr>: only <digit>.checked_add(<digit>) is supported")
            p1, v1, t1 = self.ex(e[1], env)
            p2, v2, t2 = self.ex(e[3][0], env)
            if self.need(L.unify(L.unify(t1, t2, "checked_add"), "Digit", "checked_add"), "checked_add") != "Digit":
                self.die("checked_add on a non-digit")
            if name in env or name in ctx["protected"]:
                # the pattern variable shadows: alpha-rename it inside its scope (the `then` block); `'` cannot occur in a
                # Rust identifier.  Done once, in place (the second pass sees the new name).
                new = "%s'%d" % (name, 1 + sum(1 for n in env if n.startswith(name + "'")))
                rename(a, name, new)
                s[1] = name = new
            inner = dict(ctx, protected=set(env.keys()) | ctx["protected"])
            enva = self.copy(env)
            self.declare(enva, name, "Digit", False, inner)
            ta = self.stmts(self.splice(a, rest), enva, inner, ind + 1)
            tb = self.stmts(self.splice(b or [], rest), self.copy(env), inner, ind + 1)
            return (self.lines(p1 + p2 + ["match dg_checked_add w %s %s with" % (v1, v2), "| Some %s =>" % name], pad) + "\n" + ta + "\n"
                    + pad + "| None =>\n" + tb + "\n" + pad + "end")
        if k == "assign":
            _, lhs, op, rhs = s
            if lhs[0] == "field" and lhs[1][0] == "var" and lhs[1][1] in env and sname(env[lhs[1][1]].ty) is not None:
                var = lhs[1][1]
                sn = sname(env[var].ty)
                if lhs[2] not in dict(STRUCTS[sn][1]):
                    self.die("struct %s has no field %s" % (sn, lhs[2]))
                if not env[var].mut:
                    self.die("assignment to a field of immutable variable " + var)
                if op != "=":
                    self.die("compound assignment %s to a struct field is not supported" % op)
                p, v, t = self.ex(rhs, env)
                L.unify(t, dict(STRUCTS[sn][1])[lhs[2]], "assignment to %s.%s" % (var, lhs[2]))
                return self.lines(p + [self.set_field(var, sn, lhs[2], v)], pad) + "\n" + self.stmts(rest, env, ctx, ind)
            if lhs[0] == "index" and not (lhs[1][0] == "field" and lhs[1][2] == "digits") and not (lhs[1][0] == "un"):
                var = self.root_var(lhs)
                if var not in env:
                    self.die("assignment to unbound variable " + var)
                if not env[var].mut:
                    self.die("write to an element of immutable variable " + var)
                arr = self.array_of(lhs[1], env)
                p, v, t = self.ex(rhs, env)                      # right operand first, then the place (index, bounds check)
                L.unify(t, "Digit", "digit assignment")
                pi, vi, ti = self.ex(lhs[2], env)
                L.unify(ti, "usize", "array index")
                mid, new = [], v
                if op != "=":
                    f = {"|=": "dg_or", "&=": "dg_and", "^=": "dg_xor"}.get(op)
                    if f is None:
                        self.die("unsupported compound assignment %s on a digit" % op)
                    x = self.tmp()
                    mid = ["%s <- arr_get %s %s ;;" % (x, arr, vi)]
                    new = "(%s w %s %s)" % (f, x, v)
                if lhs[1][0] == "var":
                    wr = ["%s <- arr_set %s %s %s ;;" % (arr, arr, vi, new)]
                else:
                    x = self.tmp()
                    wr = ["%s <- arr_set %s %s %s ;;" % (x, arr, vi, new), self.set_field(var, sname(env[var].ty), lhs[1][2], x)]
                return self.lines(p + pi + mid + wr, pad) + "\n" + self.stmts(rest, env, ctx, ind)
        return L.Gen.stmts(self, ss, env, ctx, ind)

    def assigned(self, blk):
        out = set()
        for s in blk or []:
            k = s[0]
            if k == "assign":
                out.add(self.root_var(s[1]))
            elif k == "while":
                out |= self.assigned(s[2])
            elif k in ("if",):
                out |= self.assigned(s[2]) | self.assigned(s[3] or [])
            elif k == "iflet":
                out |= self.assigned(s[3]) | self.assigned(s[4] or [])
            elif k == "block":
                out |= self.assigned(s[1])
            elif k == "expr" and s[1][0] in ("ifx", "blockx", "ifletx"):
                if s[1][0] == "ifx":
                    out |= self.assigned(s[1][2]) | self.assigned(s[1][3] or [])
                elif s[1][0] == "ifletx":
                    out |= self.assigned(s[1][3]) | self.assigned(s[1][4] or [])
                else:
                    out |= self.assigned(s[1][1])
            # `let` initialisers / right-hand sides: blocks used as values cannot assign variables of the enclosing
            # scope (checked in stmts), so they contribute nothing
        return out


# ---------------------------------------------------------------- driver

def macro_body(src, path):
    mm = re.search(r"macro_rules!\s*\w+\s*\{\s*\(\s*\$BUint\s*:\s*ident\s*,\s*\$BInt\s*:\s*ident\s*,\s*\$Digit\s*:\s*ident\s*\)", src)
    if not mm:
        die("%s: macro_rules! with ($BUint, $BInt, $Digit) not found" % path)
    b0 = src.index("{", mm.start())
    d, e = 0, b0
    while True:
        if e >= len(src):
            die("%s: unbalanced braces in the macro body" % path)
        d += {"{": 1, "}": -1}.get(src[e], 0)
        e += 1
        if d == 0:
            break
    return src[b0:e]


def collect_items(blk, out):
    """the fn items (nested fns, methods of impl blocks) of a body, in source order, loops and branches included"""
    for s in blk or []:
        k = s[0]
        if k == "item_fn":
            out.append(s)
            collect_items(s[2], out)
        elif k == "item_impl":
            for f in s[2]:
                out.append(f)
                collect_items(f[2], out)
        elif k == "while":
            collect_items(s[2], out)
        elif k in ("if",):
            collect_items(s[2], out), collect_items(s[3], out)
        elif k == "iflet":
            collect_items(s[3], out), collect_items(s[4], out)
        elif k == "block":
            collect_items(s[1], out)
        elif k in ("let", "assign", "expr", "return"):
            walk_expr_items(s, out)


def walk_expr_items(node, out):
    """items inside blocks used as values"""
    if not isinstance(node, list):
        return
    if node and node[0] in ("blockx",):
        collect_items(node[1], out)
    elif node and node[0] in ("ifx",):
        walk_expr_items(node[1], out), collect_items(node[2], out), collect_items(node[3], out)
    elif node and node[0] in ("ifletx",):
        walk_expr_items(node[2], out), collect_items(node[3], out), collect_items(node[4], out)
    else:
        for x in node:
            walk_expr_items(x, out)


def translate_fn(key, sigs, bodies, dsigs):
    sig, ast = sigs[key], bodies[key]
    tvs, txt, calls = {}, None, set()
    for final in (False, True):
        g = DG(key, sigs, dsigs, tvs, final)
        env = {}
        ctx = {"loop": None, "protected": set()}
        if sig["self"]:
            env["self"] = L.Var(sig["selfty"], sig["selfmut"])
        for pn, pt, mut in sig["params"]:
            g.declare(env, pn, pt, mut, ctx)
        txt = g.stmts(ast, env, ctx, 1)
        calls = g.calls
    argl = " (self : %s)" % coq_ty(sig["selfty"]) if sig["self"] else ""
    argl += "".join(" (%s : %s)" % (n, coq_ty(t)) for n, t, _ in sig["params"])
    what = "fn " + sig["name"] if sig["owner"] is None else "impl %s: fn %s" % (sig["owner"], sig["name"])
    head = "(* %s: %s%s *)\n" % (SRC, what, "" if key == ENTRY else "   (nested in fn %s)" % ENTRY)
    return head + "Definition %s (w %s : Z) (fuel : nat)%s : res (%s) :=\n%s.\n" % (key, sig["sz"], argl, coq_ty(sig["ret"]), txt), calls


def translate():
    """returns the text of the body of Module DivGen"""
    STRUCTS.clear()
    SNAMES.clear()
    p = os.path.join(REPO, SRC)
    if not os.path.exists(p):
        die("source file %s not found" % p)
    src = macro_body(L.strip_comments(open(p).read()), SRC)
    generics, params, ret, body = L.find_fn(src, None, ENTRY, SRC)
    if generics:
        die("fn %s: generic parameters are not supported" % ENTRY)
    ps = DP(L.tokenize("(" + params + ")"))
    sig = ps.params(ENTRY)
    if ps.peek() is not None:
        die("fn %s: cannot parse the parameter list" % ENTRY)
    pr = DP(L.tokenize(ret))
    sig["ret"] = pr.type_()
    if pr.peek() is not None:
        die("fn %s: cannot parse the return type %s" % (ENTRY, ret))
    sig["sz"], sig["selfty"], sig["owner"] = "N", "buint", None
    toks = L.tokenize(body)
    SNAMES.update(toks[i + 1] for i in range(len(toks) - 1) if toks[i] == "struct")
    pb = DP(toks)
    ast = pb.block()
    if pb.peek() is not None:
        die("fn %s: trailing tokens after the body" % ENTRY)
    items = []
    collect_items(ast, items)
    sigs, bodies, order = {}, {}, []
    for it in items:
        s = it[1]
        key = s["name"] if s["owner"] is None else s["owner"] + "_" + s["name"]
        if key in sigs or key == ENTRY or key in GALLINA_KEYWORDS:
            die("two nested items are called %s" % key)
        sigs[key], bodies[key] = s, it[2]
        order.append(key)
    for n in sorted(SNAMES):
        if n not in STRUCTS:
            die("struct %s: declaration not found among the items of the body" % n)
    for n, (sz, _) in STRUCTS.items():
        for it in items:
            if it[1]["owner"] == n and it[1]["sz"] != sz:
                die("impl %s: size parameter differs from the one of the struct" % n)
    sigs[ENTRY], bodies[ENTRY] = sig, ast
    order.append(ENTRY)

    dsrc = L.strip_comments(open(os.path.join(REPO, "src/digit.rs")).read())
    L.check_digit_consts(dsrc)
    dsigs = L.digit_sigs(dsrc)

    texts, calls = {}, {}
    for key in order:
        texts[key], calls[key] = translate_fn(key, sigs, bodies, dsigs)
    # definitions before their uses (Rust items are order-independent, Gallina definitions are not): stable topological order
    emitted, out = [], []

    def emit(key, stack):
        if key in emitted:
            return
        if key in stack:
            die("recursion among the nested functions (%s) is not supported" % " -> ".join(stack + [key]))
        for c in sorted(calls[key], key=order.index):
            emit(c, stack + [key])
        emitted.append(key)
        out.append(texts[key])
    for key in order:
        emit(key, [])
    structs = ["(* struct %s<const %s: usize> { %s }  is the Gallina tuple %s *)" %
               (n, sz, ", ".join("%s: %s" % (f, L.show(t)) for f, t in fs), coq_ty("struct:" + n)) for n, (sz, fs) in STRUCTS.items()]
    return "\n".join(structs) + "\n\n" + "\n".join(out)


HEADER = ["(* GENERATED on every run by tools/rs2v_div.py from /repo/src/buint/div.rs (fn basecase_div_rem, Knuth's Algorithm D).",
          "   Do not edit.  Proofs/DivGenTie.v proves basecase_div_rem equal to the hand-written model Model/Div.v: basecase_div_rem.",
          "   Vocabulary: Model/Imp.v + Model/ImpDiv.v (control flow, checked operations), Prim.v, Model/DigitPrims.v,",
          "   Generated/DigitGen.v; called by their hand-model names (tied elsewhere): Div.last_digit_index, Shift.shl_internal,",
          "   Shift.U_wrapping_shr. *)",
          "From Bnum Require Import Base Prim.",
          "From Bnum.Model Require Import DigitPrims LoopPrims Core Imp ImpDiv.",
          "From Bnum.Model Require Shift Div.",
          "From Bnum.Generated Require Import DigitGen.", "", "Module DivGen.", "", ""]


def main():
    group = sys.argv[sys.argv.index("--for") + 1] if "--for" in sys.argv else None
    failed = None
    try:
        body = translate()
    except SystemExit:
        failed = LAST_MSG[0] or "translator error"
    except RecursionError:
        failed = "recursion limit (input too deeply nested)"
    if failed is not None:
        body = "(* %s: fn %s  -- NOT TRANSLATED: %s *)\nDefinition %s : unit := tt.\n" % (
            SRC, ENTRY, failed.replace("*)", "* )").replace("(*", "( *"), ENTRY)
    txt = "\n".join(HEADER) + body + "\nEnd DivGen.\n"
    p = os.path.join(ROOT, "coq", "Generated", "DivGen.v")
    if not os.path.exists(p) or open(p).read() != txt:
        open(p, "w").write(txt)
    if failed is not None:
        sys.stderr.write("rs2v_div: not translated (stub emitted, its tie lemma will not check): %s\n" % ENTRY)
        return 1 if group is None or ENTRY in GROUPS.get(group, []) else 0
    return 0


if __name__ == "__main__":
    sys.exit(main())

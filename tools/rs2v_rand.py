#!/usr/bin/env python3
"""tools/rs2v_rand.py — TRANSLATOR: random sampling (src/random.rs, cargo feature `rand`)  ->  coq/Generated/RandGen.v

Reads $BNUM_REPO (default /repo) src/random.rs: the macro `uniform_int_impl!` is EXPANDED once per invocation inside
`macro_rules! random` (`uniform_int_impl!($BUint<N>, $BUint<N>)` -> the U_ functions, `uniform_int_impl!($BInt<N>, $BUint<N>,
to_bits, from_bits)` -> the I_ functions: the optional groups `$(.$as_unsigned())?`, `$(<$ty>::$as_signed)?` are dropped resp.
instantiated), and `new`, `new_inclusive`, `sample`, `sample_single`, `sample_single_inclusive` of the `UniformSampler` impl, the
two `Distribution<..> for Standard` impls and (see WIDE) `widening_mul` of src/buint/bigint_helpers.rs are translated into Gallina
functions over coq/Model/Imp.v (control flow) and coq/Model/ImpRand.v (the RNG as a threaded byte stream, exactly the
representation of the hand model Model/Random.v).  coq/Proofs/RandGenTie*.v prove every generated function equal to the hand model.

The lexer, parser (L.LP), type machinery and statement generator (L.Gen) are those of tools/rs2v_loops.py, extended by subclassing;
see tools/RAND_TRANSLATOR.md for what is added.  Anything outside the subset: the construct is named on stderr, the function (and
every generated function that calls it) becomes the stub `Definition f : unit := tt.`, exit status 1 (with `--for Cxx` only when
the function belongs to the group of Cxx, or on a global failure: then EVERY function is a stub)."""
import re, sys, os
sys.path.insert(0, os.path.dirname(os.path.abspath(__file__)))
import rs2v_loops as L

REPO = os.environ.get("BNUM_REPO", "/repo")
ROOT = os.path.dirname(os.path.dirname(os.path.abspath(__file__)))
LAST_MSG = [""]
PATH = "src/random.rs"


def die(msg):
    LAST_MSG[0] = msg
    sys.stderr.write("rs2v_rand: " + msg + "\n")
    sys.exit(1)


L.die = die     # rs2v_loops looks `die` up as a module global at call time: every message gets this translator's prefix

# ---------------------------------------------------------------- types
# new types:  "uniform"  the struct UniformInt<$ty> (Random.uniform: the record of its three fields, pattern-checked)
#             "rng"      `&mut R`, R: Rng + ?Sized: the generator's remaining output (Random.stream), threaded
#             ("borrow", T)  a generic `B: SampleBorrow<T> + Sized` parameter: `*b.borrow()` is the T it stands for
#             "slice"    `Slice<$ty>` / `[$ty]`: a list of digit lists (the elements all have N digits)
#             ("drawn", T)   what a function with an rng parameter returns: option (T * stream) (Model/ImpRand.v)
_coq_ty0, _show0 = L.coq_ty, L.show


def is_tag(t, tag):
    return isinstance(t, tuple) and len(t) == 2 and t[0] == tag


def coq_ty(t):
    t = L.rs(t)
    if t == "uniform":
        return "Random.uniform"
    if t == "rng":
        return "Random.stream"
    if t == "slice":
        return "(list (list Z))"
    if is_tag(t, "borrow"):
        return coq_ty(t[1])
    if is_tag(t, "drawn"):
        inner = coq_ty(t[1])
        return "(drawn %s)" % (inner if inner.startswith("(") or " " not in inner else "(" + inner + ")")
    return _coq_ty0(t)


def show(t):
    t = L.rs(t)
    if is_tag(t, "borrow"):
        return "impl SampleBorrow<%s>" % show(t[1])
    if is_tag(t, "drawn"):
        return "drawn<%s>" % show(t[1])
    return _show0(t)


L.coq_ty, L.show = coq_ty, show

# names the generated code uses unqualified, Gallina keywords: not available as Rust local names
L.RESERVED |= {"rng_fill_raw", "size_of_bnum", "map", "draw", "draw_in_loop", "of_rres", "of_outcome", "rbind", "rbind_loop", "rng_fill_digits", "drawn", "is_zero", "ucmp",
               "icmp", "cmp_lt", "cmp_le", "ONE", "ZERO", "UMAX", "repeat", "Done", "Panicked", "NoFuel", "Return", "Continue", "Break",
               "Exited", "Returned", "while_loop", "fst", "snd", "negb", "andb", "orb", "true", "false", "nil", "cons", "length",
               "at", "end", "fix", "fun", "forall", "exists", "then", "using", "where", "with", "mod", "Type", "Prop", "Set", "cofix"}

# Methods / operators of $BUint / $BInt that are NOT re-translated: calls of the hand model by qualified name, as in
# tools/rs2v_loops.py (MODEL_CALLS) and tools/rs2v_glue.py; their own tie to the source is another obligation (C01 .. C06 ties).
L.MODEL_CALLS.update({
    ("buint", "wrapping_sub"): ("AddSub.U_wrapping_sub w", ["buint"], "buint", ()),
    ("buint", "wrapping_add"): ("AddSub.U_wrapping_add w", ["buint"], "buint", ()),
    ("bint", "wrapping_sub"): ("AddSub.I_wrapping_sub w", ["bint"], "bint", ()),
    ("bint", "wrapping_add"): ("AddSub.I_wrapping_add w", ["bint"], "bint", ()),
    ("buint", "is_zero"): ("is_zero", [], "bool", ()),
    ("buint", "leading_zeros"): ("Bits.leading_zeros w", [], "ExpType", ()),
    ("buint", "bits"): ("Bits.bits_of w", [], "ExpType", ()),
    ("bint", "to_bits"): ("Cast.to_bits", [], "buint", ()),             # src/bint/mod.rs: to_bits(self) = self.bits (pattern-checked)
})
WIDE = [("buint", "widening_mul")]     # by hand-model name Mul.U_widening_mul unless widening_mul itself is translated (see main)
L.MODEL_CALLS[("buint", "widening_mul")] = ("Mul.U_widening_mul w", ["buint"], ("buint", "buint"), ())


# ---------------------------------------------------------------- parsing

class RP(L.LP):
    """L.LP + `loop { }`, `assert!(c, "..")`, `<$BUint<N>>::NAME`, `UniformInt { low, range: e, z: e }`, `rng.fill(&mut x);`"""

    def type_(self):
        if self.peek() == "Self" and self.peek(1) == "::" and self.peek(2) == "X":
            self.eat(), self.eat(), self.eat()
            return self.xty
        return L.LP.type_(self)

    def stmt(self):
        v = self.peek()
        if v == "loop":
            self.eat("loop")
            if self.peek() != "{":
                die("unsupported statement: labelled / valued loop")
            return ["loop", self.block()]
        if v == "assert!":                                      # assert!(cond) / assert!(cond, "message" ..): the message is skipped
            self.eat()
            self.eat("(")
            c = self.expr()
            d = 1
            if self.peek() == ",":
                while d:
                    x = self.eat()
                    d += {"(": 1, ")": -1}.get(x, 0)
            else:
                self.eat(")")
            self.eat(";")
            return ["assert", c]
        if v is not None and L.IDENT.match(v) and self.peek(1) == "." and self.peek(2) == "try_fill_bytes" and self.peek(3) == "(":
            # rng.try_fill_bytes(unsafe { core::slice::from_raw_parts_mut(self.0.as_mut_ptr() as *mut u8, <byte count>) })?;
            # only this form: the raw byte view of the whole slice behind `self` (Model/ImpRand.v: rng_fill_raw); `?` is the token QMARK
            rv = self.eat()
            for x in [".", "try_fill_bytes", "(", "unsafe", "{", "core", "::", "slice", "::", "from_raw_parts_mut", "(", "self", ".", "0", ".",
                      "as_mut_ptr", "(", ")", "as", "*", "mut", "u8", ","]:
                self.eat(x)
            e = self.expr()
            if self.peek() == ",":
                self.eat(",")
            for x in [")", "}", ")", "QMARK", ";"]:
                self.eat(x)
            return ["rawfill", rv, e]
        if v == "for":                                          # for x in &mut self.0 { *x = x.m(); }   (only this form)
            self.eat("for")
            x = self.ident()
            for y in ["in", "&", "mut", "self", ".", "0", "{", "*", x, "=", x, "."]:
                self.eat(y)
            m = self.ident()
            for y in ["(", ")", ";", "}"]:
                self.eat(y)
            return ["mapself", m]
        if v is not None and L.IDENT.match(v) and self.peek(1) == "." and self.peek(2) == "fill" and self.peek(3) == "(":
            rv = self.eat()                                     # `rng.fill(&mut digits);`
            self.eat("."), self.eat("fill"), self.eat("("), self.eat("&"), self.eat("mut")
            x = self.ident()
            self.eat(")"), self.eat(";")
            return ["rngfill", rv, x]
        return L.LP.stmt(self)

    def primary(self):
        v = self.peek()
        if v == "<" and self.peek(1) in ("$BUint", "$BInt") and [self.peek(k) for k in (2, 3, 4, 5)] == ["<", "N", ">>", "::"]:
            ty = self.peek(1)                                   # <$BUint<N>>::NAME  /  <$BInt<N>>::f(..)   (`>>` is one token)
            for _ in range(6):
                self.eat()
            name = self.ident()
            if self.peek() == "(":
                return ["pcall", [ty, name], self.args()]
            return ["path", [ty, name]]
        if v == "Ok" and [self.peek(k) for k in (1, 2, 3, 4)] == ["(", "(", ")", ")"]:
            for _ in range(5):
                self.eat()
            return ["okunit"]
        if v == "core" and [self.peek(k) for k in range(1, 12)] == ["::", "mem", "::", "size_of", "::", "<", self.peek(7), "<", "N", ">>", "("] \
                and self.peek(7) in ("$BUint", "$BInt") and self.peek(12) == ")":
            for _ in range(13):                                 # core::mem::size_of::<$BUint<N>>()
                self.eat()
            return ["sizeof"]
        if v == "UniformInt" and self.peek(1) == "{":           # struct literal: field shorthand or `field: expr`
            self.eat(), self.eat("{")
            fs = []
            while self.peek() != "}":
                f = self.ident()
                if self.peek() == ":":
                    self.eat(":")
                    fs.append((f, self.expr()))
                else:
                    fs.append((f, ["var", f]))
                if self.peek() == ",":
                    self.eat(",")
                elif self.peek() != "}":
                    die("expected ',' or '}' in the struct literal, got %r" % self.peek())
            self.eat("}")
            return ["ustruct", fs]
        return L.LP.primary(self)


def mk_parser(text, xty):
    p = RP(L.tokenize(text), "uniform")
    p.xty = xty
    return p


def mentions(node, name):
    """does the AST fragment use the variable `name`?"""
    if isinstance(node, (list, tuple)):
        if len(node) == 2 and node[0] == "var" and node[1] == name:
            return True
        if len(node) == 3 and node[0] in ("rngfill", "rawfill") and node[1] == name:
            return True
        return any(mentions(x, name) for x in node)
    return False


def has_break(blk):
    """a `break` that belongs to THIS loop (not to a nested one)"""
    for s in blk:
        if s[0] == "break":
            return True
        if s[0] == "if" and (has_break(s[2]) or has_break(s[3] or [])):
            return True
        if s[0] == "block" and has_break(s[1]):
            return True
        if s[0] == "expr" and s[1][0] == "ifx" and (has_break(s[1][2]) or has_break(s[1][3] or [])):
            return True
        if s[0] == "expr" and s[1][0] == "blockx" and has_break(s[1][1]):
            return True
        if s[0] == "expr" and s[1][0] == "match":
            die("match inside a `loop`: not supported")
    return False


# ---------------------------------------------------------------- generation

FIELDS = ["low", "range", "z"]                 # struct UniformInt<X> { low: X, range: X, z: X } (pattern-checked) = Random.mkUniform


class RG(L.Gen):
    """L.Gen + the threaded rng, assert!, loop, the operators / constants of $BUint and $BInt by hand-model name, UniformInt"""

    def __init__(self, fname, sigs, digit_sigs, consts, tvs, final, tgt):
        L.Gen.__init__(self, fname, sigs, digit_sigs, consts, tvs, final)
        self.tgt = tgt
        self.calls = set()
        self.xty = tgt["xty"]
        self.rng = sigs[fname]["rng"]              # the name of the `&mut R` parameter, or None
        if self.rng is not None:
            self.ret = ("drawn", self.ret)
        self.cur_loop = False

    def draw(self, x, rv, call):
        return "%s %s %s <- %s ;;" % ("draw_in_loop" if self.cur_loop else "draw", x, rv, call)

    def rngvar(self, e, env):
        if e[0] == "var" and e[1] in env and L.rs(env[e[1]].ty) == "rng":
            return e[1]
        return None

    def seq(self, pre, last):
        if any(l.startswith("draw") for l in pre):
            self.die("a call that consumes the rng inside a value sub-expression (if / && / ||): not supported")
        return L.Gen.seq(self, pre, last)

    # ------------------------------------------------ expressions
    def ex(self, e, env):
        k = e[0]
        if k == "un" and e[1] == "*" and e[2][0] == "mcall" and e[2][2] == "borrow" and not e[2][3]:
            p, v, t = self.ex(e[2][1], env)                      # `*b.borrow()`, b: impl SampleBorrow<T>: the T it stands for
            t = L.rs(t)
            if not is_tag(t, "borrow"):
                self.die("`*x.borrow()` on a value of type %s" % show(t))
            return p, v, t[1]
        if k == "mcall" and self.rngvar(e[1], env) is not None:
            rv = self.rngvar(e[1], env)
            if e[2] == "gen" and not e[3]:
                # Rng::gen::<T>() = Standard.sample(rng); T is inferred from the context.  By hand-model name (the impls
                # `Distribution<$BUint<N> / $BInt<N>> for Standard` of this file are translated and tied on their own)
                t = self.tv_any(e)
                r = L.rs(t)
                if r == "buint" or (isinstance(r, L.TVar) and not self.final):
                    f = "Random.U_standard"
                elif r == "bint":
                    f = "Random.I_standard"
                else:
                    self.die("rng.gen(): cannot determine the type to generate, or it is not $BUint<N> / $BInt<N> (%s)" % show(r))
                x = self.tmp()
                return [self.draw(x, rv, "of_rres (%s w (Z.to_nat N) %s)" % (f, rv))], x, t
            self.die("unsupported method rng.%s" % e[2])
        if k == "okunit":                                         # Ok(()) of a `&mut self` function: the updated *self is the result
            if not (self.sigs[self.fname]["mutref"] and self.sigs[self.fname]["ret"] == "slice"):
                self.die("Ok(()) outside a `&mut self` function returning Result<(), Error>")
            return [], "self", "slice"
        if k == "sizeof":                                         # size_of::<$BUint<N>>() = size_of::<$BInt<N>>() (Model/ImpRand.v)
            return [], "(size_of_bnum w N)", "usize"
        if k == "field" and e[2] == "0":                          # struct Slice<T>(pub [T]) (pattern-checked): `.0` is the slice itself
            save = self.ntmp
            p, v, t = self.ex(e[1], env)
            if L.rs(t) == "slice":
                return p, v, "slice"
            self.ntmp = save
        if k == "mcall" and e[2] == "len" and not e[3]:
            save = self.ntmp
            p, v, t = self.ex(e[1], env)
            if L.rs(t) == "slice":
                return p, "(Z.of_nat (length %s))" % v, "usize"
            self.ntmp = save
        if k == "ustruct":
            want = {"low": self.xty, "range": self.xty, "z": self.xty}
            if sorted(f for f, _ in e[1]) != sorted(FIELDS):
                self.die("struct literal UniformInt { %s }: expected the fields low, range, z" % ", ".join(f for f, _ in e[1]))
            pre, vals = [], {}
            for f, x in e[1]:                                     # evaluated in source order
                p, v, t = self.ex(x, env)
                L.unify(t, want[f], "field %s of UniformInt" % f)
                pre += p
                vals[f] = v
            return pre, "(Random.mkUniform %s)" % " ".join(vals[f] for f in FIELDS), "uniform"
        if k == "field" and e[2] in FIELDS:
            save = self.ntmp
            p, v, t = self.ex(e[1], env)
            if L.rs(t) == "uniform":
                return p, "(Random.u_%s %s)" % (e[2], v), self.xty
            self.ntmp = save
        return L.Gen.ex(self, e, env)

    def value_block(self, blk, env):
        """L.Gen.value_block + `{ let a = e; ..; value }` (immutable lets only): lets in front of the value"""
        if len(blk) >= 2 and all(s[0] == "let" for s in blk[:-1]) and blk[-1][0] == "expr":
            env2, pre = self.copy(env), []
            for _, pat, ty, init in blk[:-1]:
                if pat[0] != "pid" or init is None or pat[1][1]:
                    self.die("a block used as a value: only `let name = e;` statements are supported in it")
                name = pat[1][0]
                if name in env2 or name in L.RESERVED or re.match(r"^t\d+$", name):
                    self.die("`let %s` inside a block used as a value shadows a variable / reserved name" % name)
                p, v, t = self.ex(init, env2)
                if ty is not None:
                    t = L.unify(t, ty, "let with type annotation")
                env2[name] = L.Var(t, False)
                pre += p + ["let %s := %s in" % (name, v)]
            p, v, t = self.ex(blk[-1][1], env2)
            return pre + p, v, t
        return L.Gen.value_block(self, blk, env)

    def path(self, segs, env, node=None):
        s = tuple(segs)
        if s == ("$BUint", "ONE"):           # src/buint/consts.rs: pos_const!(ONE 1, ..) = Self::from_digit(1) (pattern-checked; tie: LoopsTieC06b)
            return [], "(ONE (Z.to_nat N))", "buint"
        if s == ("$BInt", "ONE"):            # src/bint/consts.rs: ONE = Self::from_bits($BUint::ONE) (pattern-checked)
            return [], "(Cast.from_bits (ONE (Z.to_nat N)))", "bint"
        if s[0] == "Self":
            self.die("unsupported path " + "::".join(segs))
        return L.Gen.path(self, segs, env, node)

    def bin(self, e, env):
        _, op, a, b = e
        save = self.ntmp
        pa, va, ta = self.ex(a, env)
        pb, vb, tb = self.ex(b, env)
        ka = L.rs(ta)
        if op == "*" and L.is_int(ta) and L.is_int(tb):
            t = L.unify(ta, tb, "operands of *")
            if self.need(t, "operands of *") == "usize":         # `len * size_of::<T>()`: unbounded, like `+` on usize (Model/Imp.v)
                return pa + pb, "(%s * %s)" % (va, vb), "usize"
        if ka in ("buint", "bint"):
            pre = pa + pb
            if op in ("<", "<="):            # PartialOrd via Ord::cmp (src/{buint,bint}/cmp.rs; ties: LoopsTieC06 cmp, GlueTieC06 I_cmp)
                L.unify(ta, tb, "operands of " + op)
                c = "(ucmp %s %s)" % (va, vb) if ka == "buint" else "(icmp w %s %s)" % (va, vb)
                return pre, "(%s %s)" % ({"<": "cmp_lt", "<=": "cmp_le"}[op], c), "bool"
            x = self.tmp()
            if op == "-":                    # impl Sub: Self::sub (strict in debug builds)
                L.unify(ta, tb, "operands of -")
                self.uses_dbg = True
                return pre + ["%s <- of_outcome (AddSub.%s_sub dbg w %s %s) ;;" % (x, "U" if ka == "buint" else "I", va, vb)], x, ka
            if ka == "buint" and op == "+":  # the only `+` with an integer on the right: impl Add<$Digit> for $BUint<N> (presence checked)
                if not L.is_int(tb):
                    self.die("`+` on $BUint with a right operand of type %s: only Add<$Digit> is supported" % show(tb))
                L.unify(tb, "Digit", "right operand of + (Add<$Digit>)")
                return pre + ["%s <- of_outcome (Random.U_add_digit w %s %s) ;;" % (x, va, vb)], x, ka
            if ka == "buint" and op == "%":  # impl Rem: Self::rem (panics on zero)
                L.unify(ta, tb, "operands of %")
                return pre + ["%s <- of_outcome (Div.U_rem w %s %s) ;;" % (x, va, vb)], x, ka
            if ka == "buint" and op == "<<":  # impl Shl<ExpType>: Self::shl (strict in debug builds)
                L.unify(tb, "ExpType", "shift amount")
                self.uses_dbg = True
                return pre + ["%s <- of_outcome (Shift.U_shl dbg w %s %s) ;;" % (x, va, vb)], x, ka
            self.die("operator %s on %s: not supported" % (op, show(ka)))
        self.ntmp = save
        return L.Gen.bin(self, e, env)

    def sibling(self, rust, args, env):
        coq = self.tgt["prefix"] + self.tgt["names"][rust]
        sg = self.sigs.get(coq)
        if sg is None:
            self.die("call of %s, whose translation %s failed" % (rust, coq))
        if coq == self.fname:
            self.die("recursion is not supported")
        formal = sg["params"]
        if len(args) != len(formal):
            self.die("call of %s with %d arguments, expected %d" % (rust, len(args), len(formal)))
        pre, vs, rv = [], [], None
        for a, (pn, pt) in zip(args, formal):
            if pt == "rng":
                rv = self.rngvar(a, env)
                if rv is None:
                    self.die("call of %s: the rng argument must be the rng variable itself" % rust)
                vs.append(rv)
                continue
            p, v, t = self.ex(a, env)
            L.unify(t, pt[1] if is_tag(pt, "borrow") else pt, "argument %s of %s" % (pn, rust))
            pre += p
            vs.append(v)
        self.calls.add(coq)
        if sg["dbg"]:
            self.uses_dbg = True
        x = self.tmp()
        call = "%s %sw N fuel %s" % (coq, "dbg " if sg["dbg"] else "", " ".join(vs))
        if rv is not None:
            return pre + [self.draw(x, rv, call)], x, sg["ret"]
        return pre + ["%s <- %s ;;" % (x, call)], x, sg["ret"]

    def pcall(self, e, env):
        _, segs, args = e
        s = tuple(segs)
        if len(s) == 2 and s[0] in ("Self", "UniformSampler") and s[1] in self.tgt.get("names", {}) and self.selfty == "uniform":
            # Self::f(..) / UniformSampler::f(..) (the impl of the trait for Self, fixed by the expected type Self): this impl's f
            return self.sibling(s[1], list(args), env)
        if s == ("$BInt", "from_bits") and len(args) == 1:     # src/bint/mod.rs: from_bits(bits) = Self { bits } (pattern-checked)
            p, v, t = self.ex(args[0], env)
            L.unify(t, "buint", "argument of from_bits")
            return p, "(Cast.from_bits %s)" % v, "bint"
        if s == ("$BUint", "from_digits") and len(args) == 1:  # src/buint/mod.rs: from_digits(digits) = Self { digits } (tie: LoopsTieC06b)
            p, v, t = self.ex(args[0], env)
            L.unify(t, "digits", "argument of from_digits")
            return p, "(Convert.from_digits %s)" % v, "buint"
        if s[0] == "Self":
            self.die("unsupported call " + "::".join(segs))
        return L.Gen.pcall(self, e, env)

    # ------------------------------------------------ statements
    def assigned(self, blk):
        out = L.Gen.assigned(self, [s for s in blk if s[0] not in ("loop", "assert", "rngfill", "unreachable", "rawfill", "mapself")])
        for s in blk:
            if s[0] == "loop":
                out |= self.assigned(s[1])
            elif s[0] == "rngfill":
                out.add(s[2])
            elif s[0] in ("rawfill", "mapself"):
                out.add("self")
        if self.rng is not None and mentions(blk, self.rng):
            out.add(self.rng)                   # every use of the generator consumes (re-binds) the stream
        return out

    def stmts(self, ss, env, ctx, ind):
        saved = self.cur_loop
        self.cur_loop = ctx["loop"] is not None
        try:
            return self.stmts1(ss, env, ctx, ind)
        finally:
            self.cur_loop = saved

    def stmts1(self, ss, env, ctx, ind):
        pad = "  " * ind
        if not ss:
            return L.Gen.stmts(self, ss, env, ctx, ind)
        s, rest = ss[0], ss[1:]
        k = s[0]
        if k == "unreachable":
            return pad + "Panicked (* unreachable: a `loop` without `break` is only left by `return` *)"
        if k == "loop":
            # `loop { b }` is `while true { b }`; without a `break` the code after it is unreachable
            brk = has_break(s[1])
            if not brk and rest:
                self.die("statements after a `loop` without `break`")
            return L.Gen.stmts(self, [["while", ["bool", True], s[1]]] + (list(rest) if brk else [["unreachable"]]), env, ctx, ind)
        if k == "assert":
            p, v, t = self.ex(s[1], env)
            L.unify(t, "bool", "assert! condition")
            body = self.stmts(rest, env, ctx, ind + 1)
            return (self.lines(p + ["if %s then (" % v], pad) + "\n" + body + "\n" + pad + ") else (\n" + pad
                    + "  Panicked (* assert! *)\n" + pad + ")")
        if k == "rngfill":
            _, rv, x = s
            if rv not in env or L.rs(env[rv].ty) != "rng":
                self.die("`%s.fill(..)`: %s is not the rng" % (rv, rv))
            if x not in env or self.kind_of(env[x].ty) != "digits" or L.rs(env[x].ty) != "digits" or not env[x].mut:
                self.die("rng.fill(&mut %s): only a `let mut` array [$Digit; N] is supported" % x)
            return pad + self.draw(x, rv, "rng_fill_digits w %s %s" % (x, rv)) + "\n" + self.stmts(rest, env, ctx, ind)
        if k == "rawfill":
            _, rv, e = s
            if rv not in env or L.rs(env[rv].ty) != "rng" or "self" not in env or L.rs(env["self"].ty) != "slice" or not env["self"].mut:
                self.die("`%s.try_fill_bytes(<raw bytes of self.0>)?`: only in a `&mut self` function of Slice<T> with the rng" % rv)
            p, v, t = self.ex(e, env)
            L.unify(t, "usize", "byte count of from_raw_parts_mut")
            return self.lines(p + [self.draw("self", rv, "rng_fill_raw w N self %s %s" % (v, rv))], pad) + "\n" + self.stmts(rest, env, ctx, ind)
        if k == "mapself":
            f = {("buint", "to_le"): "Endian.U_to_le", ("bint", "to_le"): "Endian.I_to_le"}.get((self.xty, s[1]))
            if f is None or "self" not in env or L.rs(env["self"].ty) != "slice" or not env["self"].mut:
                self.die("`for x in &mut self.0 { *x = x.%s(); }`: only to_le on the elements of Slice<T> is supported" % s[1])
            return pad + "let self := (map %s self) in\n" % f + self.stmts(rest, env, ctx, ind)
        if self.rng is not None and k in ("expr", "return") and s[1] is not None and s[1][0] not in ("ifx", "blockx", "match"):
            # the value of a function with an rng parameter: the value and what the generator has left
            if rest:
                self.die("statements after return / a value expression in the middle of a block")
            if k == "expr" and ctx["loop"] is not None:
                self.die("loop body ends in a value expression")
            p, v, t = self.ex(s[1], env)
            L.unify(t, self.ret[1], "returned value")
            val = "(Some (%s, %s))" % (v, self.rng)
            return self.lines(p + ["Done " + (val if ctx["loop"] is None else "(Return %s)" % val)], pad)
        return L.Gen.stmts(self, ss, env, ctx, ind)


# ---------------------------------------------------------------- extraction

def rtoks(text):
    return re.findall(r"\$?\w+!?|\S", text)


def rx(text):
    """regex matching the Rust token sequence `text` with arbitrary white space between tokens"""
    return r"\s*".join(re.escape(t) for t in rtoks(text))


def norm(text):
    return re.sub(r"\s+", "", text)


def braces(txt, start, what):
    b0 = txt.index("{", start)
    d, e = 0, b0
    while True:
        if e >= len(txt):
            die("%s: unbalanced braces in %s" % (PATH, what))
        d += {"{": 1, "}": -1}.get(txt[e], 0)
        e += 1
        if d == 0:
            break
    return txt[b0:e], e


def strip_strings(s):
    """string literals -> the identifier STRLIT (they only occur as assert! messages and attribute arguments)"""
    return re.sub(r'"(?:\\.|[^"\\])*"', " STRLIT ", s)


UNIFORM_HEAD = "($ty: ty, $u_large: ty $(, $as_unsigned: ident, $as_signed: ident)?)"
INSTANCES = [   # prefix, the invocation (white space removed), what `Self::X` is
    ("U_", "$BUint<N>,$BUint<N>", "buint"),
    ("I_", "$BInt<N>,$BUint<N>,to_bits,from_bits", "bint"),
]
UNIFORM_FNS = {"new_inclusive": "uniform_new_inclusive", "new": "uniform_new", "sample": "uniform_sample",
               "sample_single_inclusive": "sample_single_inclusive", "sample_single": "sample_single"}
ORDER = ["new_inclusive", "new", "sample", "sample_single_inclusive", "sample_single"]      # callees first


def expand(body, args):
    """one expansion of the transcriber of uniform_int_impl!: $ty, $u_large, and the optional group `$( .. )?` (kept, with
    $as_unsigned / $as_signed substituted, when the invocation passes them; dropped otherwise)"""
    ty, ul = args[0], args[1]
    opt = args[2:] if len(args) == 4 else None
    out, i = [], 0
    while True:
        j = body.find("$(", i)
        if j < 0:
            out.append(body[i:])
            break
        out.append(body[i:j])
        d, e = 1, j + 2
        while d:
            if e >= len(body):
                die("%s: unbalanced `$(` in uniform_int_impl!" % PATH)
            d += {"(": 1, ")": -1}.get(body[e], 0)
            e += 1
        inner = body[j + 2:e - 1]
        if body[e:e + 1] != "?":
            die("%s: uniform_int_impl!: a repetition `$( .. )` that is not `$( .. )?`: not supported" % PATH)
        if "$as_unsigned" not in inner and "$as_signed" not in inner:
            die("%s: uniform_int_impl!: an optional group that mentions neither $as_unsigned nor $as_signed" % PATH)
        if opt is not None:
            out.append(inner)
        i = e + 1
    txt = "".join(out)
    subst = {"$ty": ty, "$u_large": ul}
    if opt is not None:
        subst["$as_unsigned"], subst["$as_signed"] = opt

    def rep(m):
        name = m.group(0)
        if name in subst:
            return subst[name]
        if name in ("$BUint", "$BInt", "$Digit"):
            return name
        die("%s: uniform_int_impl!: unknown metavariable %s" % (PATH, name))
    return re.sub(r"\$\w+", rep, txt)


def global_checks(src):
    """everything the translation relies on outside the translated function bodies; a mismatch is a GLOBAL failure"""
    def need(path, pat, what, txt=None):
        if txt is None:
            p = os.path.join(REPO, path)
            if not os.path.exists(p):
                die("source file %s not found" % p)
            txt = L.strip_comments(open(p).read())
        if not re.search(pat, txt):
            die("%s: %s has changed / is missing" % (path, what))
    need(PATH, rx("use rand::distributions::uniform::{SampleBorrow, SampleUniform, UniformSampler};"), "the `use` of rand's uniform traits", src)
    need(PATH, rx("use rand::distributions::{Distribution, Standard};"), "the `use` of rand's Distribution / Standard", src)
    need(PATH, rx("use rand::{Error, Fill, Rng};"), "the `use` of rand's Error / Fill / Rng", src)
    need(PATH, r"pub\s+struct\s+UniformInt\s*<\s*X\s*>\s*\{\s*low\s*:\s*X\s*,\s*range\s*:\s*X\s*,\s*z\s*:\s*X\s*,?\s*\}",
         "`struct UniformInt<X> { low: X, range: X, z: X }` (Random.mkUniform)", src)
    need(PATH, rx("crate::macro_impl!(random);"), "`crate::macro_impl!(random);`", src)
    need(PATH, rx("#[repr(transparent)] pub struct Slice<T>(pub [T]);"), "`#[repr(transparent)] pub struct Slice<T>(pub [T]);`", src)
    need("src/buint/consts.rs", r"macro_rules!\s*pos_const\s*\{\s*\(\s*\$\(\s*\$name\s*:\s*ident\s+\$num\s*:\s*literal\s*\)\s*,\s*\*\s*\)\s*=>\s*\{\s*\$\(\s*"
         r"(#\[[^\]]*\]\s*)*pub\s+const\s+\$name\s*:\s*Self\s*=\s*Self\s*::\s*from_digit\s*\(\s*\$num\s*\)\s*;\s*\)\s*\*\s*\}",
         "macro pos_const (`pub const $name: Self = Self::from_digit($num);`)")
    need("src/buint/consts.rs", r"pos_const!\s*\(\s*ONE\s+1\s*,", "`pos_const!(ONE 1, ..)`")
    need("src/bint/consts.rs", r"pub\s+const\s+ONE\s*:\s*Self\s*=\s*Self\s*::\s*from_bits\s*\(\s*\$BUint\s*::\s*ONE\s*\)\s*;", "`ONE = Self::from_bits($BUint::ONE)`")
    need("src/bint/mod.rs", r"fn\s+from_bits\s*\(\s*bits\s*:\s*\$BUint\s*<\s*N\s*>\s*\)\s*->\s*Self\s*\{\s*Self\s*\{\s*bits\s*\}\s*\}", "`from_bits(bits) -> Self { Self { bits } }`")
    need("src/bint/mod.rs", r"fn\s+to_bits\s*\(\s*self\s*\)\s*->\s*\$BUint\s*<\s*N\s*>\s*\{\s*self\s*\.\s*bits\s*\}", "`to_bits(self) -> $BUint<N> { self.bits }`")
    need("src/bint/mod.rs", r"pub\s+struct\s+\$BInt\s*<\s*const\s+N\s*:\s*usize\s*>\s*\{\s*(pub\s*(\([^)]*\))?\s*)?bits\s*:\s*\$BUint\s*<\s*N\s*>\s*,?\s*\}",
         "`struct $BInt<const N: usize> { bits: $BUint<N> }`")
    need("src/buint/ops.rs", rx("impl<const N: usize> Add<$Digit> for $BUint<N>"), "`impl Add<$Digit> for $BUint<N>` (the `+ 1` of `MAX - range + 1`)")


def parse_sig(coq, rust, generics, params, ret, xty, selfty):
    """generics: `<R: Rng + ?Sized, B1, B2>`; `where B: SampleBorrow<Self::X> + Sized` clauses follow the return type"""
    sig = {"self": False, "params": [], "generics": [], "mut": set(), "selfty": selfty, "rust": rust, "callable": False,
           "mutref": False, "dbg": False, "prim": None, "coq": coq, "rng": None}
    rngty, borrows = None, []
    for g in (generics or "<>").strip()[1:-1].split(","):
        g = g.strip()
        if not g:
            continue
        if re.fullmatch(r"\w+\s*:\s*Rng\s*\+\s*\?\s*Sized", g):
            if rngty is not None:
                die("fn %s: two generator type parameters" % rust)
            rngty = g.split(":")[0].strip()
        elif re.fullmatch(r"\w+", g):
            borrows.append(g)
        else:
            die("fn %s: unsupported generic parameter %s" % (rust, g))
    where = ""
    if ret is not None and re.search(r"\bwhere\b", ret):
        ret, where = re.split(r"\bwhere\b", ret, 1)
    clauses = [norm(c) for c in where.split(",") if c.strip()]
    for b in borrows:
        if "%s:SampleBorrow<Self::X>+Sized" % b not in clauses:
            die("fn %s: no `where %s: SampleBorrow<Self::X> + Sized` clause for the type parameter %s" % (rust, b, b))
    if sorted(clauses) != sorted("%s:SampleBorrow<Self::X>+Sized" % b for b in borrows):
        die("fn %s: unsupported where clause" % rust)
    t = L.tokenize(params)
    i, first = 0, True

    def peek(k=0):
        return t[i + k] if i + k < len(t) else None
    while i < len(t):
        if first and peek() == "&" and peek(1) == "self":
            sig["self"] = True
            i += 2
        elif first and peek() == "&" and peek(1) == "mut" and peek(2) == "self" and selfty == "slice":
            sig["self"] = sig["mutref"] = True                 # the Gallina function returns the updated *self
            sig["mut"].add("self")
            i += 3
        else:
            pn = peek()
            if not L.IDENT.match(pn or "") or pn in L.KEYWORDS or peek(1) != ":":
                die("fn %s: cannot parse the parameter list" % rust)
            i += 2
            if peek() == "&" and peek(1) == "mut" and peek(2) == rngty and rngty is not None:
                if sig["rng"] is not None:
                    die("fn %s: two rng parameters" % rust)
                sig["rng"] = pn
                sig["params"].append((pn, "rng"))
                i += 3
            elif peek() in borrows:
                sig["params"].append((pn, ("borrow", xty)))
                i += 1
            else:
                die("fn %s: unsupported type of the parameter %s" % (rust, pn))
        first = False
        if peek() == ",":
            i += 1
        elif peek() is not None:
            die("fn %s: cannot parse the parameter list" % rust)
    if ret is None:
        die("fn %s: no return type" % rust)
    r = norm(ret)
    if r == "Self" and selfty == "uniform":
        sig["ret"] = "uniform"
    elif r == "Self::X" and selfty == "uniform":
        sig["ret"] = xty
    elif r == "$BUint<N>":
        sig["ret"] = "buint"
    elif r == "$BInt<N>":
        sig["ret"] = "bint"
    elif r == "Result<(),Error>" and sig["mutref"]:
        sig["ret"] = "slice"                                   # Ok(()) + the updated *self; Err(e) is the generator running dry (None)
    else:
        die("fn %s: unsupported return type %s" % (rust, ret.strip()))
    if rngty is not None and sig["rng"] is None:
        die("fn %s: generator type parameter without an rng parameter" % rust)
    return sig


def translate_one(tgt, fns, sigs, dsigs):
    coq = tgt["coq"]
    sig, body = sigs[coq], fns[coq]
    ast = mk_parser(body.replace("?", " QMARK "), tgt["xty"]).block()
    tvs, txt, g = {}, None, None
    for final in (False, True):
        g = RG(coq, sigs, dsigs, {}, tvs, final, tgt)
        env, ctx = {}, {"loop": None, "protected": set()}
        if sig["self"] and sig["selfty"] == "uniform":
            env["self"] = L.Var("uniform", False)
        if sig["self"] and sig["selfty"] == "slice":
            env["self"] = L.Var("slice", True)
        for pn, pt in sig["params"]:
            g.declare(env, pn, pt, pt == "rng", ctx)
        txt = g.stmts(ast, env, ctx, 1)
    if g.recursive:
        die("fn %s: recursion is not supported here" % tgt["fn"])
    sig["dbg"] = g.uses_dbg
    argl = " (self : Random.uniform)" if (sig["self"] and sig["selfty"] == "uniform") else ""
    argl = " (self : list (list Z))" if (sig["self"] and sig["selfty"] == "slice") else argl
    argl += "".join(" (%s : %s)" % (n, coq_ty(t)) for n, t in sig["params"])
    rty = coq_ty(("drawn", sig["ret"]) if sig["rng"] else sig["ret"])
    head = "(* %s: %s, fn %s *)\n" % (tgt["path"], tgt["where"], tgt["fn"])
    return head + "Definition %s %s(w N : Z) (fuel : nat)%s : res %s :=\n%s.\n" % (
        coq, "(dbg : bool) " if g.uses_dbg else "", argl, rty if rty.startswith("(") or " " not in rty else "(" + rty + ")", txt), g.calls


HEADER = ["(* GENERATED on every run by tools/rs2v_rand.py from /repo/src/random.rs (cargo feature `rand`).  Do not edit.",
          "   Proofs/RandGenTie*.v prove each function equal to the hand-written model Model/Random.v.",
          "   U_ functions: the expansion uniform_int_impl!($BUint<N>, $BUint<N>); I_ functions: uniform_int_impl!($BInt<N>, $BUint<N>, to_bits, from_bits).",
          "   The RNG is the byte stream of the hand model (Random.stream), threaded: a function with `rng: &mut R` takes it last and returns",
          "   `drawn T = option (T * stream)` in the res monad (Model/ImpRand.v: draw / draw_in_loop, of_rres, rng_fill_digits).",
          "   Vocabulary: Model/Imp.v (control flow), Model/ImpRand.v; by hand-model name (tied to their own source elsewhere):",
          "   Random.U_standard / I_standard (= rng.gen(), tied below), Random.U_add_digit (Add<$Digit>), Random.mkUniform / u_low / u_range / u_z,",
          "   AddSub.U_sub / I_sub / U_wrapping_add / .., Div.U_rem, Shift.U_shl, Bits.leading_zeros / bits_of, Mul.U_widening_mul, Core.is_zero / ucmp /",
          "   icmp / ONE / ZERO / UMAX, Cast.to_bits / from_bits, Convert.from_digits. *)",
          "From Bnum Require Import Base Prim.",
          "From Bnum.Model Require Import DigitPrims LoopPrims Core Imp ImpRand.",
          "From Bnum.Model Require AddSub Mul Div Bits Shift Cast Convert Endian Random.",
          "From Bnum.Generated Require Import DigitGen.", "", "Module RandGen.", ""]


def build_targets(src, failed):
    """the list of functions to translate with the text they are looked up in; fills `failed` for what cannot be located"""
    targets = []
    mm = re.search(r"macro_rules!\s*random\s*\{\s*" + rx("($BUint: ident, $BInt: ident, $Digit: ident)") + r"\s*=>", src)
    if not mm:
        die("%s: macro_rules! random with ($BUint, $BInt, $Digit) not found" % PATH)
    rbody, _ = braces(src, mm.end(), "macro_rules! random")
    # ---- Standard
    for coq, ty, xty in (("U_standard", "$BUint<N>", "buint"), ("I_standard", "$BInt<N>", "bint")):
        targets.append(dict(coq=coq, group="C20", path=PATH, where="macro random!, impl Distribution<%s> for Standard" % ty, fn="sample",
                            text=rbody, anchor=rx("impl<const N: usize> Distribution<%s> for Standard" % ty), xty=xty, selfty="standard",
                            prefix="", names={}))
    # ---- uniform_int_impl!: head, single rule, the two invocations
    um = re.search(r"macro_rules!\s*uniform_int_impl\s*\{\s*" + rx(UNIFORM_HEAD) + r"\s*=>", src)
    if not um:
        die("%s: macro_rules! uniform_int_impl with the parameter list %s not found" % (PATH, UNIFORM_HEAD))
    ubody, uend = braces(src, um.end(), "macro_rules! uniform_int_impl")
    if not re.match(r"\s*;?\s*\}", src[uend:]):
        die("%s: macro_rules! uniform_int_impl has more than one rule" % PATH)
    uses = [m for m in re.finditer(r"(?<![\w!$])uniform_int_impl!\s*\(([^()]*)\)\s*;", src)]
    inside = [m for m in re.finditer(r"(?<![\w!$])uniform_int_impl!\s*\(([^()]*)\)\s*;", rbody)]
    if sorted(norm(m.group(1)) for m in uses) != sorted(i[1] for i in INSTANCES) or len(inside) != len(uses):
        die("%s: the invocations of uniform_int_impl! are not exactly `($BUint<N>, $BUint<N>)` and `($BInt<N>, $BUint<N>, to_bits, from_bits)` inside macro random!" % PATH)
    for prefix, inv, xty in INSTANCES:
        tyname = inv.split(",")[0]
        try:
            text = expand(ubody, inv.split(","))
            hdr = rx("impl<const N: usize> UniformSampler for UniformInt<%s>" % tyname)
            im = re.search(hdr + r"\s*\{", text)
            if not im:
                die("%s: uniform_int_impl!: `impl<const N: usize> UniformSampler for UniformInt<$ty>` not found" % PATH)
            ibody, _ = braces(text, im.start(), "the UniformSampler impl")
            if not re.search(rx("type X = %s;" % tyname), ibody):
                die("%s: uniform_int_impl!: `type X = $ty;` not found in the UniformSampler impl" % PATH)
            err = None
        except SystemExit:
            ibody, err = "", LAST_MSG[0]
        for fn in ORDER:
            t = dict(coq=prefix + UNIFORM_FNS[fn], group="C20", path=PATH, where="uniform_int_impl!(%s)" % inv.replace(",", ", "), fn=fn,
                     text=ibody, anchor=None, xty=xty, selfty="uniform", prefix=prefix, names=UNIFORM_FNS)
            targets.append(t)
            if err:
                failed[t["coq"]] = err
    # ---- fill_impl!: head, single rule, the two invocations
    fm = re.search(r"macro_rules!\s*fill_impl\s*\{\s*" + rx("($ty: ty)") + r"\s*=>", src)
    if not fm:
        die("%s: macro_rules! fill_impl with the parameter list ($ty: ty) not found" % PATH)
    fbody, fend = braces(src, fm.end(), "macro_rules! fill_impl")
    if not re.match(r"\s*;?\s*\}", src[fend:]):
        die("%s: macro_rules! fill_impl has more than one rule" % PATH)
    fuses = [norm(m.group(1)) for m in re.finditer(r"(?<![\w!$])fill_impl!\s*\(([^()]*)\)\s*;", src)]
    finside = [m for m in re.finditer(r"(?<![\w!$])fill_impl!\s*\(([^()]*)\)\s*;", rbody)]
    if sorted(fuses) != ["$BInt<N>", "$BUint<N>"] or len(finside) != 2:
        die("%s: the invocations of fill_impl! are not exactly `($BUint<N>)` and `($BInt<N>)` inside macro random!" % PATH)
    for prefix, tyname, xty in (("U_", "$BUint<N>", "buint"), ("I_", "$BInt<N>", "bint")):
        if "$(" in fbody or re.search(r"\$(?!ty\b)\w+", fbody):
            die("%s: fill_impl!: a metavariable other than $ty / a repetition" % PATH)
        text = re.sub(r"\$ty\b", lambda m: tyname, fbody)
        targets.append(dict(coq=prefix + "try_fill", group="C20", path=PATH, where="fill_impl!(%s)" % tyname, fn="try_fill", text=text,
                            anchor=rx("impl<const N: usize> Fill for crate::random::Slice<%s>" % tyname), xty=xty, selfty="slice",
                            prefix=prefix, names={}))
    return targets


def fill_slice_wrappers(src, sigs, failed):
    """`pub fn try_fill_slice<T, ..>(slice: &mut [T], rng)`: its text is checked token by token (the `&mut [T]` is re-read as `&mut Slice<T>`,
    a repr(transparent) wrapper: the same list; then `Fill::try_fill`, i.e. the impl of fill_impl! at T); emitted at T = $BUint<N>, $BInt<N>"""
    out = []
    try:
        generics, params, ret, body = L.find_fn(src, None, "try_fill_slice", PATH)
        got = (norm(generics or ""), norm(params), norm(ret or ""), norm(body))
        want = ("<T,R:Rng+?Sized>", "slice:&mut[T],rng:&mutR", "Result<(),Error>whereSlice<T>:Fill,",
                "{letslice=unsafe{&mut*(sliceas*mut_as*mutSlice<T>)};Fill::try_fill(slice,rng)}")
        if got != want:
            die("%s: fn try_fill_slice is not the expected two-line wrapper around Fill::try_fill" % PATH)
        err = None
    except SystemExit:
        err = LAST_MSG[0]
    for prefix, ty in (("U_", "$BUint<N>"), ("I_", "$BInt<N>")):
        coq = prefix + "try_fill_slice"
        tgt = dict(coq=coq, path=PATH, where="T = %s" % ty, fn="try_fill_slice")
        why = err or (None if prefix + "try_fill" in sigs else "it calls %stry_fill, which is not translated" % prefix)
        if why:
            failed[coq] = why
            out.append(stub(tgt, why))
        else:
            out.append("(* %s: fn try_fill_slice at T = %s (text pattern-checked: `&mut [T]` re-read as `&mut Slice<T>`, then Fill::try_fill) *)\n"
                       "Definition %s (w N : Z) (fuel : nat) (slice : list (list Z)) (rng : Random.stream) : res (drawn (list (list Z))) :=\n"
                       "  draw slice rng <- %stry_fill w N fuel slice rng ;;\n  Done (Some (slice, rng)).\n" % (PATH, ty, coq, prefix))
    return out


WPATH = "src/buint/bigint_helpers.rs"
WIDE_TGT = dict(coq="widening_mul", group="C20", path=WPATH, where="macro bigint_helpers!", fn="widening_mul")


def translate_widening(dsigs):
    """`$BUint::widening_mul` (two nested `while` loops over the digit arrays): entirely inside the subset of tools/rs2v_loops.py;
    translated by ITS generator (L.Gen), unchanged"""
    p = os.path.join(REPO, WPATH)
    if not os.path.exists(p):
        die("source file %s not found" % p)
    txt = L.strip_comments(open(p).read())
    mm = re.search(r"macro_rules!\s*bigint_helpers\s*\{\s*" + rx("($BUint: ident, $BInt: ident, $Digit: ident)") + r"\s*=>", txt)
    if not mm:
        die("%s: macro_rules! bigint_helpers with ($BUint, $BInt, $Digit) not found" % WPATH)
    body, _ = braces(txt, mm.end(), "macro_rules! bigint_helpers")
    if not re.search(rx("impl<const N: usize> $BUint<N>") + r"\s*\{", body):
        die("%s: `impl<const N: usize> $BUint<N>` not found in bigint_helpers!" % WPATH)
    generics, params, ret, fbody = L.find_fn(body, None, "widening_mul", WPATH)
    sg = L.parse_sig("widening_mul", generics, params, ret, "buint", None)
    sg["coq"], sg["rng"] = "widening_mul", None
    return L.translate_one(WPATH, "widening_mul", "widening_mul", {"widening_mul": (WPATH, "widening_mul", fbody)},
                           {"widening_mul": sg}, dsigs, {WPATH: L.assoc_consts(body)})


def stub(tgt, why):
    return "(* %s: %s, fn %s  -- NOT TRANSLATED: %s *)\nDefinition %s : unit := tt.\n" % (
        tgt["path"], tgt["where"], tgt["fn"], why.replace("*)", "* )").replace("(*", "( *"), tgt["coq"])


ALL = (["widening_mul", "U_standard", "I_standard"] + [p + UNIFORM_FNS[f] for p, _, _ in INSTANCES for f in ORDER]
       + ["U_try_fill", "I_try_fill", "U_try_fill_slice", "I_try_fill_slice"])


def write(txt):
    p = os.path.join(ROOT, "coq", "Generated", "RandGen.v")
    if not os.path.exists(p) or open(p).read() != txt:
        open(p, "w").write(txt)


def main():
    group = sys.argv[sys.argv.index("--for") + 1] if "--for" in sys.argv else None
    failed, fns, sigs = {}, {}, {}
    try:
        p = os.path.join(REPO, PATH)
        if not os.path.exists(p):
            die("source file %s not found" % p)
        src = strip_strings(L.strip_comments(open(p).read()))
        global_checks(src)
        dsrc = L.strip_comments(open(os.path.join(REPO, "src/digit.rs")).read())
        L.check_digit_consts(dsrc)
        dsigs = L.digit_sigs(dsrc)
        targets = build_targets(src, failed)
    except SystemExit:
        # global failure: nothing of the generated file can be trusted - every function becomes a stub (no stale file is left behind)
        why = LAST_MSG[0]
        write("\n".join(HEADER + ["(* GLOBAL FAILURE of tools/rs2v_rand.py: %s *)" % why.replace("*)", "* )").replace("(*", "( *")]
                        + ["Definition %s : unit := tt." % c for c in ALL] + ["", "End RandGen."]) + "\n")
        return 1
    for tgt in targets:
        coq = tgt["coq"]
        if coq in failed:
            continue
        try:
            generics, params, ret, fbody = L.find_fn(tgt["text"], tgt["anchor"], tgt["fn"], PATH)
            sigs[coq] = parse_sig(coq, tgt["fn"], generics, params, ret, tgt["xty"], tgt["selfty"])
            fns[coq] = fbody
        except SystemExit:
            failed[coq] = LAST_MSG[0]
        except Exception as ex:                          # noqa: a bug in the translator must not look like success
            failed[coq] = repr(ex)
    texts, calls = {}, {}
    while True:
        again = False
        for tgt in targets:
            coq = tgt["coq"]
            if coq in failed:
                continue
            try:
                texts[coq], calls[coq] = translate_one(tgt, fns, sigs, dsigs)
            except SystemExit:
                failed[coq] = LAST_MSG[0]
            except Exception as ex:
                failed[coq] = repr(ex)
            if coq in failed:
                sigs.pop(coq, None)
                again = True
        if not again:
            break
    out = list(HEADER)
    try:
        out.append(translate_widening(dsigs))
    except SystemExit:
        failed["widening_mul"] = LAST_MSG[0]
    except Exception as ex:                              # noqa
        failed["widening_mul"] = repr(ex)
    if "widening_mul" in failed:
        out.append(stub(WIDE_TGT, failed["widening_mul"]))
    for tgt in targets:                                  # `targets` is in dependency order (callees first)
        coq = tgt["coq"]
        out.append(stub(tgt, failed[coq]) if coq in failed else texts[coq])
    out += fill_slice_wrappers(src, sigs, failed)
    out.append("End RandGen.")
    write("\n".join(out) + "\n")
    if failed:
        hit = [f for f in failed if group is None or group == "C20"]
        sys.stderr.write("rs2v_rand: not translated (stub emitted, its tie lemma will not check): %s\n" % ", ".join(sorted(failed)))
        return 1 if hit else 0
    return 0


if __name__ == "__main__":
    sys.exit(main())

#!/bin/sh
# merge an agent branch; generated Makefiles are untracked on main, so drop them from the merge
cd /verif
git merge --no-edit "$1" >/dev/null 2>&1
for f in coq/Makefile coq/Makefile.conf coq/.Makefile.d; do git rm -q -f $f 2>/dev/null; done
rm -f coq/Makefile coq/Makefile.conf coq/.Makefile.d
python3 /verif/tools/union_coqproject.py; git add coq/_CoqProject
git checkout --ours evidence 2>/dev/null; git add evidence 2>/dev/null
if git status --short | grep -q "^UU\|^AA\|^DU\|^UD"; then git status --short | grep "^UU\|^AA\|^DU\|^UD"; echo "CONFLICTS REMAIN"; exit 1; fi
git commit -qm "merge $1" 2>/dev/null
echo merged

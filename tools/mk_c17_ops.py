#!/usr/bin/env python3
"""Generates tools/ops/C17.ops (every std::ops / iterator-fold trait impl the bnum macros generate)
and tools/ops/C04.ops (the operations whose panic behaviour C04 constrains, collected from the other tables)."""
import os, re
ROOT = os.path.dirname(os.path.dirname(os.path.abspath(__file__)))
out = ["@coq_import Digit Core Shift AddSub Mul Div Bits Pow Ops",
       "@configs small", "@rust_use use core::ops::*;", "@rust_use use core::str::FromStr;"]

BIN = [  # trait, operator token, assign token, inherent method, coq U expr, coq I expr
    ("Add", "+", "+=", "add", "vRL (U_add dbg w a b)", "vRL (I_add dbg w a b)"),
    ("Sub", "-", "-=", "sub", "vRL (U_sub dbg w a b)", "vRL (I_sub dbg w a b)"),
    ("Mul", "*", "*=", "mul", "vRL (U_mul dbg w a b)", "vRL (I_mul dbg w a b)"),
    ("Div", "/", "/=", "div", "vRL (U_div w a b)", "vRL (I_div dbg w a b)"),
    ("Rem", "%", "%=", "rem", "vRL (U_rem w a b)", "vRL (I_rem dbg w a b)"),
    ("BitAnd", "&", "&=", "bitand", "vL (bitand a b)", "vL (bitand a b)"),
    ("BitOr", "|", "|=", "bitor", "vL (bitor a b)", "vL (bitor a b)"),
    ("BitXor", "^", "^=", "bitxor", "vL (bitxor a b)", "vL (bitxor a b)"),
]
for tr, op, aop, inh, cu, ci in BIN:
    for S, p, c in (("U", "u", cu), ("I", "s", ci)):
        x, y = "%s(0)" % p, "%s(1)" % p
        out.append("%s.%s.vv | LL | %s | (%s %s %s)" % (S, tr, c, x, op, y))
        out.append("%s.%s.vr | LL | %s | (%s %s &%s)" % (S, tr, c, x, op, y))
        out.append("%s.%s.rv | LL | %s | (&%s %s %s)" % (S, tr, c, x, op, y))
        out.append("%s.%s.rr | LL | %s | (&%s %s &%s)" % (S, tr, c, x, op, y))
        out.append("%s.%s.av | LL | %s | { let mut x = %s; x %s %s; x }" % (S, tr, c, x, aop, y))
        out.append("%s.%s.ar | LL | %s | { let mut x = %s; x %s &%s; x }" % (S, tr, c, x, aop, y))
        out.append("%s.%s.inh | LL | %s | %s.%s(%s)" % (S, tr, c, x, inh, y))
        out.append("%s.%s.ufcs | LL | %s | <%s as %s>::%s(%s, %s)" % (S, tr, c, S, tr, inh, x, y))
out.append("I.Neg.v | L | vRL (I_neg dbg w a) | (-s(0))")
out.append("I.Neg.r | L | vRL (I_neg dbg w a) | (-&s(0))")
out.append("I.Neg.inh | L | vRL (I_neg dbg w a) | s(0).neg()")
for S, p in (("U", "u"), ("I", "s")):
    out.append("%s.Not.v | L | vL (bitnot w a) | (!%s(0))" % (S, p))
    out.append("%s.Not.r | L | vL (bitnot w a) | (!&%s(0))" % (S, p))
    out.append("%s.Not.inh | L | vL (bitnot w a) | %s(0).not()" % (S, p))

TYS = [("u8", "AU8"), ("u16", "AU16"), ("u32", "AU32"), ("u64", "AU64"), ("u128", "AU128"), ("usize", "AUsize"),
       ("i8", "AI8"), ("i16", "AI16"), ("i32", "AI32"), ("i64", "AI64"), ("i128", "AI128"), ("isize", "AIsize")]
for S, p in (("U", "u"), ("I", "s")):
    for tr, op, aop in (("Shl", "<<", "<<="), ("Shr", ">>", ">>=")):
        for ty, code in TYS:
            c = "vRL (%s_%s_prim dbg w %s a z)" % (S, tr, code)
            x = "%s(0)" % p
            y = "(zi(1) as %s)" % ty
            out.append("%s.%s.%s.vv | LZ | %s | (%s %s %s)" % (S, tr, ty, c, x, op, y))
            out.append("%s.%s.%s.vr | LZ | %s | (%s %s &%s)" % (S, tr, ty, c, x, op, y))
            out.append("%s.%s.%s.rv | LZ | %s | (&%s %s %s)" % (S, tr, ty, c, x, op, y))
            out.append("%s.%s.%s.rr | LZ | %s | (&%s %s &%s)" % (S, tr, ty, c, x, op, y))
            out.append("%s.%s.%s.av | LZ | %s | { let mut x = %s; x %s %s; x }" % (S, tr, ty, c, x, aop, y))
            out.append("%s.%s.%s.ar | LZ | %s | { let mut x = %s; x %s &%s; x }" % (S, tr, ty, c, x, aop, y))
        # the inherent const fn shl/shr take ExpType
        out.append("%s.%s.inh | LZ | vRL (%s_%s dbg w a z) | %s(0).%s(z32(1))" % (S, tr, S, tr.lower(), p, tr.lower()))
        for amt, q, sg in (("bu", "u", "false"), ("bi", "s", "true")):
            c = "vRL (%s_bnum dbg w %s %s a b)" % (tr, "true" if S == "I" else "false", sg)
            x = "%s(0)" % p
            y = "%s(1)" % q
            out.append("%s.%s.%s.vv | LL | %s | (%s %s %s)" % (S, tr, amt, c, x, op, y))
            out.append("%s.%s.%s.vr | LL | %s | (%s %s &%s)" % (S, tr, amt, c, x, op, y))
            out.append("%s.%s.%s.rv | LL | %s | (&%s %s %s)" % (S, tr, amt, c, x, op, y))
            out.append("%s.%s.%s.rr | LL | %s | (&%s %s &%s)" % (S, tr, amt, c, x, op, y))
            out.append("%s.%s.%s.av | LL | %s | { let mut x = %s; x %s %s; x }" % (S, tr, amt, c, x, aop, y))
            out.append("%s.%s.%s.ar | LL | %s | { let mut x = %s; x %s &%s; x }" % (S, tr, amt, c, x, aop, y))
out.append("U.AddDigit | LZ | vL (U_Add_digit w a z) | (u(0) + (zu(1) as D))")
out.append("U.DivDigit | LZ | vRL (U_Div_digit w a z) | (u(0) / (zu(1) as D))")
out.append("U.RemDigit | LZ | vout VZ (U_Rem_digit w a z) | (u(0) % (zu(1) as D))")
for S, p in (("U", "u"), ("I", "s")):
    out.append("%s.Sum0 | - | vRL (%s_Sum dbg w n []) | Vec::<%s>::new().into_iter().sum::<%s>()" % (S, S, S, S))
    out.append("%s.Sum1 | L | vRL (%s_Sum dbg w n [a]) | vec![%s(0)].into_iter().sum::<%s>()" % (S, S, p, S))
    out.append("%s.Sum3 | LLL | vRL (%s_Sum dbg w n [a; b; c]) | vec![%s(0), %s(1), %s(2)].into_iter().sum::<%s>()" % (S, S, p, p, p, S))
    out.append("%s.SumRef3 | LLL | vRL (%s_Sum dbg w n [a; b; c]) | vec![%s(0), %s(1), %s(2)].iter().sum::<%s>()" % (S, S, p, p, p, S))
    out.append("%s.Product0 | - | vRL (%s_Product dbg w n []) | Vec::<%s>::new().into_iter().product::<%s>()" % (S, S, S, S))
    out.append("%s.Product1 | L | vRL (%s_Product dbg w n [a]) | vec![%s(0)].into_iter().product::<%s>()" % (S, S, p, S))
    out.append("%s.Product3 | LLL | vRL (%s_Product dbg w n [a; b; c]) | vec![%s(0), %s(1), %s(2)].into_iter().product::<%s>()" % (S, S, p, p, p, S))
    out.append("%s.ProductRef3 | LLL | vRL (%s_Product dbg w n [a; b; c]) | vec![%s(0), %s(1), %s(2)].iter().product::<%s>()" % (S, S, p, p, p, S))
    out.append("%s.Default | - | vL (Default n) | <%s as Default>::default()" % (S, S))
    # FromStr agrees with from_str_radix(_, 10): compared on the Rust side (the parser itself is property C10)
    out.append("%s.FromStr | R | VB true | { let v = raw(0); let t = std::str::from_utf8(&v).unwrap(); "
               "<%s as FromStr>::from_str(t).map_err(|e| e.kind().clone()) == <%s>::from_str_radix(t, 10).map_err(|e| e.kind().clone()) }" % (S, S, S))
open(os.path.join(ROOT, "tools", "ops", "C17.ops"), "w").write("\n".join(out) + "\n")

# ---- C04: operations with a panic contract, from the other tables
want = {
    "C01": r"\.(add|sub|neg|abs|strict_\w+|checked_\w+|wrapping_\w+|overflowing_\w+|saturating_\w+|midpoint|abs_diff|unsigned_abs|carrying_add|borrowing_sub)$",
    "C02": r".*",
    "C03": r".*",
    "C05": r"\.(shl|shr|strict_sh\w|checked_sh\w|wrapping_sh\w|overflowing_sh\w|unbounded_sh\w)$",
    "C06": r"\.(next_power_of_two|checked_next_power_of_two|wrapping_next_power_of_two|bit|set_bit|power_of_two)$",
    "C08": r".*",
}
c04 = ["@coq_import Digit Core Shift AddSub Mul Div Bits Pow Ops", "@configs small", "@rust_use use core::ops::*;"]
seen = set()
for pid, pat in want.items():
    for ln in open(os.path.join(ROOT, "tools", "ops", pid + ".ops")):
        s = ln.strip()
        if not s or s.startswith("@") or s.startswith("#"):
            continue
        name = s.split(" | ")[0].strip()
        if re.search(pat, name) and name not in seen:
            seen.add(name)
            c04.append(s)
for ln in out:
    if ln.startswith("@"):
        continue
    name = ln.split(" | ")[0].strip()
    if re.search(r"\.(Add|Sub|Mul|Div|Rem|Neg)\.(vv|v)$|\.(Shl|Shr)\.\w+\.vv$|Digit$", name):
        c04.append(ln)
open(os.path.join(ROOT, "tools", "ops", "C04.ops"), "w").write("\n".join(c04) + "\n")
print(len(out), "C17 lines;", len(c04), "C04 lines")

#!/usr/bin/env python3
"""tools/rs2v_glue.py — TRANSLATOR: the non-loop ("glue") functions of /repo/src  ->  coq/Generated/Glue.v

Round 1: the one-line projection functions of bnum (checked_* = tuple_to_option(overflowing_*), wrapping_* =
overflowing_*.0, saturating_*, strict_* = option_expect!(checked_*), the inherent add/sub/mul/shl/shr that switch on
cfg(debug_assertions), max/min/clamp/lt/le/gt/ge, carrying_add/borrowing_sub, the non-loop overflowing_* forms).
Round 2: every other function without a loop of buint/mod.rs, bint/mod.rs (rotate, unbounded shifts, bits, abs, signum,
midpoint, abs_diff, div_floor/ceil, next_multiple_of, pow, ilog2 ..), const_trait_fillers.rs (div rem neg ne, BInt bit
operations / eq / cmp), the functions of checked.rs / overflowing.rs with nested early returns or `let mut`
(bint div_rem_unchecked, overflowing_div(_euclid), overflowing_rem_euclid, overflowing_pow, checked_pow,
checked_next_multiple_of, checked_next_power_of_two, checked_ilog2), int/unchecked.rs, the operator trait impls of
int/ops.rs / buint/ops.rs / bint/ops.rs (including Shl / Shr for the twelve primitive amount types) and the num_traits
forwarders of int/numtraits.rs.
Round 3 (C17, tie Proofs/GlueTieC17.v, details and mutation table in tools/OPREF_TRANSLATOR.md): the OTHER FORMS of every
operator, which src/int/ops.rs generates from the by-value impl through nested macros - op_ref_impl! (T op &R, &T op &R, &T op R),
assign_op_impl! / shift_assign_ops! (op= R, op= &R), shift_self_impl! (Shl / Shr / ShlAssign / ShrAssign with a BUint<M> / BInt<M>
amount: u32::try_from + expect, then the five other forms), all_shift_impls! - and Default / Sum / Product of buint/mod.rs, bint/mod.rs.
The macros are EXPANDED BY PATTERN MATCHING from the invocations found in the body of impls! (and recursively in their own bodies),
with the arguments found there, so a wrong pairing in an invocation list (an assign trait built on the wrong operator, a missing or
extra amount type) changes what is generated; each impl is named from its header (auto_name) and must be one of EXPECT17.  A call
`Tr::<R>::m(a, b)` / `Tr::m(a, b)` / `self.m_assign(x)` / `a + &b` is resolved the way rustc resolves it - Self = the type of the first
argument INCLUDING whether it is a reference, R = the type argument or the type of the second argument - to the impl GENERATED from
the source for exactly that (trait, Self, R) (registry IMPLS; calls go to the generated definition, e.g. Glue.U_Add_add, whose own
tie is in GlueTieC04.v); no such impl yet (a form calling itself: infinite recursion in Rust) or a stub: the caller is a stub too.
`&mut self` methods return the final value of *self; `iter.fold(init, |a, b| e)` is the hand model's Ops.fold_out; `u32::try_from`
of a bnum is the hand model of that impl (Convert.U_try_to_prim / I_try_to_uprim at pb = 32: tied to the source in ConvGenTieC13.v).
Each function of the files in FILES / INSTANCES below is re-translated FROM /repo's CURRENT SOURCE ON EVERY RUN into a
Gallina definition over the hand-written model functions (coq/Model/*.v): a call `x.f(args)` becomes the model function
`U_f` / `I_f` (by the static type of the receiver) applied to the translated arguments.  coq/Proofs/GlueTieC*.v prove
every generated definition equal, for all arguments, to the hand-written model function the property theorems are about
(one tie file per property: `group_of` finds the property of a function by searching them for `Glue.<name>`) — so an edit
of the Rust source that changes what a function computes or delegates to changes the generated definition and breaks a
proof obligation, while a behaviour-preserving rewrite inside the supported subset still goes through.

Supported subset (anything else in an in-scope function: that function becomes a stub and the translator exits 1 for its
property; never a silent skip, never a guess):
  statements   let x = e;   let (a, b) = e;   let mut x = e;  x = e;  (straight-line reassignment = shadowing)
               assert!(c);   use path;   panic!(..); / div_zero!(); / rem_zero!();
               if c { return e; } / if c { panic } / nested statement-level if .. else if .. whose branches return, panic or
               fall through (the rest of the function is the continuation of every branch that falls through)
               if c { x = e1; .. } else { x = e2; .. }  with assignments to `let mut` variables (nested allowed, no return
               inside)  ->  let x = if c { e1 } else { e2 }  (several variables: a tuple)
               return e;   #[cfg(debug_assertions)] return e1;  #[cfg(not(debug_assertions))] e2      ->  if dbg then e1 else e2
               #[cfg(debug_assertions)] let x = e1;  #[cfg(not(debug_assertions))] let x = e2;         ->  let x = if dbg ..
  expressions  x.f(args)  x.f::<true>(args)  Self::f(args) / $BUint::f::<B>(args)   x.0 x.1 x.bits x.bits.digits[0]   (a, b)
               Some(e) None true false 123   Ordering::Less/Equal/Greater
               tuple_to_option(e)   option_expect!(e, msg)   result_expect!(e, msg)   Self::CONST / $BUint::CONST / $BInt::CONST
               if c { a } else { b }   if let P = e { a } else { b }   match e { P | Q => a, _ => b }
               ! == != < <= > >= || && ^ | & + -   `% Self::BITS`   a * b, a + b, a - b on Self (= the inherent mul add sub)
               &e *e (transparent)   unsafe { .. } / { .. } blocks
               x.to_bits() / Self::from_bits(x) (identity on the digit list; they only change the static type)
               e as ExpType (identity on ExpType, u8, u16; `mod 2^32` on the other primitive integers)
               ExpType::try_from(prim) (Some exactly when 0 <= x <= u32::MAX)   u32::checked_sub
               o.unwrap_unchecked() as the whole body: the function is generated at type option (None = undefined behaviour)
               (round 3)  `*self = e;`  self.op_assign(x); / (*self).op_assign(x);  in a `&mut self` method (assignments to self)
               Tr::<R>::m(a, b)  Tr::m(a, b)  (Tr one of the std::ops operator / assign traits)   a + b, a * b, a - b with reference
               operands or inside a closure (dispatched to the generated impl)   iter.fold(init, |a, b| e)
               ExpType::try_from(bnum)   result_expect! on its Result   `Self::Output` (the impl's `type Output = T;`)
  patterns     Some(x)  None  Ordering::Less|Equal|Greater  true false  _  (true, false) ..
  functions    inherent / free `fn`s by name; functions of trait impls by `<Trait> for <Type>::<name>`; functions produced by
               single-arm helper macros (ilog!, checked_ilog!, num_trait_impl!, shift_impl!, try_shift_impl!) by expanding the
               macro body once per listed invocation (a repetition group is expanded once or dropped), every invocation of
               such a macro in its file being either expanded or listed as skipped with a reason
Rust panics are `outcome` (Ret / Panic): an expression that contains a call of an outcome-valued model function is
sequenced left to right with obind, the last bind being omap when the continuation is pure (so `f(x).0` is
`omap (fun r => fst r) (F x)` and `(g(x), false)` is `omap (fun r => (r, false)) (G x)`, as in the hand model).
Functions that are out of scope are listed in the SKIP tables below with the reason; a function of an in-scope macro
body that is neither wanted nor skipped makes the translator fail (the source grew something the tie does not cover).
Writes coq/Generated/Glue.v only when the content changes; deterministic.  BNUM_REPO overrides /repo (mutation
experiments), RS2V_GLUE_OUT the output path (development)."""
import re, sys, os

REPO = os.environ.get("BNUM_REPO", "/repo")
ROOT = os.path.dirname(os.path.dirname(os.path.abspath(__file__)))
CUR = ["?"]          # function being translated (for error messages)


LAST_MSG = [""]


def group_of(gname):
    """the property whose tie file (Proofs/GlueTie<Cxx>.v) states the lemma about Glue.<gname>"""
    import glob
    for f in sorted(glob.glob(os.path.join(ROOT, "coq", "Proofs", "GlueTieC*.v"))):
        if re.search(r"\bGlue\.%s\b" % re.escape(gname), open(f).read()):
            return os.path.basename(f)[len("GlueTie"):-2]
    return None


DEFER = [False]      # translating a function that may be retried after the impls it calls (no message for that failure yet)


def die(msg):
    LAST_MSG[0] = "%s: %s" % (CUR[0], msg)
    if not (DEFER[0] and msg.startswith("no generated impl of")):
        sys.stderr.write("rs2v_glue: %s: %s\n" % (CUR[0], msg))
    sys.exit(1)


# ------------------------------------------------------------------------------------------------------------------
# scope: (file, macro whose body holds the functions, Self types to instantiate, wanted functions, SKIP table)
LOOP = "contains a loop (`while`); modelled by hand as a recursion with its own proofs"
HAND = "not glue: multi-branch algorithm modelled by hand (branch by branch) with its own proofs"
LOOP2 = "contains a loop (`while`): translated by tools/rs2v_loops.py (Generated/Loops.v, Proofs/LoopsTie*.v)"
FUEL = "calls the recursive iilog, which the model runs on explicit fuel (result type option (outcome _)): outside the glue vocabulary;"
REPR = "representation accessor (struct field / struct literal): the identity on the model's digit list, nothing to tie"
ITER = "Default / Sum / Product: translated in the second pass (FILES2), after the operator forms their closures call"
FILES = [
    ("src/buint/checked.rs", "checked", "U",
     ["checked_add", "checked_add_signed", "checked_sub", "checked_mul", "div_rem", "checked_div", "checked_div_euclid",
      "checked_rem", "checked_rem_euclid", "checked_neg", "checked_shl", "checked_shr", "checked_next_multiple_of",
      "checked_ilog2", "checked_next_power_of_two"],
     {"div_rem_digit": LOOP2,
      "div_rem_unchecked": HAND + " (Model/Div.v U_div_rem_unchecked; usize index arithmetic, digits[0], div_rem_digit on a digit)",
      "checked_pow": LOOP, "iilog": "recursive; " + HAND + " (Model/Pow.v iilog, on explicit fuel)",
      "checked_ilog10": FUEL + " (Model/Pow.v U_checked_ilog10)", "checked_ilog": FUEL + " (Model/Pow.v U_checked_ilog)"}),
    ("src/buint/wrapping.rs", "wrapping", "U",
     ["wrapping_add", "wrapping_add_signed", "wrapping_sub", "wrapping_mul", "wrapping_div", "wrapping_div_euclid",
      "wrapping_rem", "wrapping_rem_euclid", "wrapping_neg", "wrapping_shl", "wrapping_shr", "wrapping_next_power_of_two"],
     {"wrapping_pow": LOOP}),
    ("src/buint/saturating.rs", "saturating", "U",
     ["saturate_up", "saturate_down", "saturating_add", "saturating_add_signed", "saturating_sub", "saturating_mul",
      "saturating_div", "saturating_pow"], {}),
    ("src/int/strict.rs", "impls", "UI",
     ["strict_add", "strict_sub", "strict_mul", "strict_div", "strict_div_euclid", "strict_rem", "strict_rem_euclid",
      "strict_neg", "strict_shl", "strict_shr", "strict_pow"], {}),
    ("src/buint/strict.rs", "strict", "U", ["strict_add_signed"], {}),
    ("src/bint/strict.rs", "strict", "I", ["strict_abs", "strict_add_unsigned", "strict_sub_unsigned"], {}),
    ("src/int/ops.rs", "trait_fillers", "UI", ["add", "mul", "shl", "shr", "sub"], {}),
    ("src/int/cmp.rs", "impls", "UI", ["max", "min", "clamp", "lt", "le", "gt", "ge"], {}),
    ("src/int/bigint_helpers.rs", "impls", "UI", ["carrying_add", "borrowing_sub"], {}),
    ("src/bint/checked.rs", "checked", "I",
     ["checked_add", "checked_add_unsigned", "checked_sub", "checked_sub_unsigned", "checked_mul", "checked_div",
      "checked_div_euclid", "checked_rem", "checked_rem_euclid", "checked_neg", "checked_shl", "checked_shr", "checked_abs",
      "checked_pow", "checked_next_multiple_of"],
     {"checked_ilog": FUEL + " (Model/Pow.v I_checked_ilog)"}),
    ("src/bint/wrapping.rs", "wrapping", "I",
     ["wrapping_add", "wrapping_add_unsigned", "wrapping_sub", "wrapping_sub_unsigned", "wrapping_mul", "wrapping_div",
      "wrapping_div_euclid", "wrapping_rem", "wrapping_rem_euclid", "wrapping_neg", "wrapping_shl", "wrapping_shr",
      "wrapping_abs", "wrapping_pow"], {}),
    ("src/bint/saturating.rs", "saturating", "I",
     ["saturating_add", "saturating_add_unsigned", "saturating_sub", "saturating_sub_unsigned", "saturating_mul",
      "saturating_div", "saturating_neg", "saturating_abs", "saturating_pow"], {}),
    ("src/buint/overflowing.rs", "overflowing", "U",
     ["overflowing_add_signed", "overflowing_mul", "overflowing_div", "overflowing_div_euclid", "overflowing_rem",
      "overflowing_rem_euclid", "overflowing_neg", "overflowing_shl", "overflowing_shr"],
     {"overflowing_add": LOOP, "overflowing_sub": LOOP, "overflowing_pow": LOOP}),
    ("src/bint/overflowing.rs", "overflowing", "I",
     ["overflowing_add_unsigned", "overflowing_sub_unsigned", "overflowing_mul", "div_rem_unchecked", "overflowing_div",
      "overflowing_div_euclid", "overflowing_rem", "overflowing_rem_euclid", "overflowing_shl", "overflowing_shr",
      "overflowing_abs", "overflowing_pow"],
     {"overflowing_add": LOOP, "overflowing_sub": LOOP, "overflowing_neg": LOOP}),
    ("src/buint/const_trait_fillers.rs", "const_trait_fillers", "U", ["ne", "div", "rem"],
     {"bitand": LOOP2, "bitor": LOOP2, "bitxor": LOOP2, "not": LOOP2, "eq": LOOP2, "cmp": LOOP2}),
    ("src/bint/const_trait_fillers.rs", "const_trait_fillers", "I",
     ["bitand", "bitor", "bitxor", "not", "eq", "ne", "cmp", "neg", "div", "rem"], {}),
    ("src/int/ops.rs", "impls", "UI",
     [("Add<Self> for $Struct<N>::add", "Add_add"), ("Mul for $Struct<N>::mul", "Mul_mul"), ("Not for &$Struct<N>::not", "Not_ref_not"),
      ("Shl<ExpType> for $Struct<N>::shl", "Shl_ExpType_shl"), ("Shr<ExpType> for $Struct<N>::shr", "Shr_ExpType_shr"),
      ("Sub for $Struct<N>::sub", "Sub_sub")], {}),
    ("src/buint/ops.rs", "ops", "U",
     [("BitAnd for $BUint<N>::bitand", "BitAnd_bitand"), ("BitOr for $BUint<N>::bitor", "BitOr_bitor"),
      ("BitXor for $BUint<N>::bitxor", "BitXor_bitxor"), ("Div for $BUint<N>::div", "Div_div"),
      ("Div<$Digit> for $BUint<N>::div", "Div_digit_div"), ("Not for $BUint<N>::not", "Not_not"),
      ("Rem for $BUint<N>::rem", "Rem_rem"), ("Rem<$Digit> for $BUint<N>::rem", "Rem_digit_rem")],
     {"Add<$Digit> for $BUint<N>::add": LOOP2, "add_digit": "test-only (a quickcheck property under cfg(test))"}),
    ("src/bint/ops.rs", "ops", "I",
     [("Neg for $BInt<N>::neg", "Neg_neg"), ("Neg for &$BInt<N>::neg", "Neg_ref_neg"), ("BitAnd for $BInt<N>::bitand", "BitAnd_bitand"),
      ("BitOr for $BInt<N>::bitor", "BitOr_bitor"), ("BitXor for $BInt<N>::bitxor", "BitXor_bitxor"), ("Div for $BInt<N>::div", "Div_div"),
      ("Not for $BInt<N>::not", "Not_not"), ("Rem for $BInt<N>::rem", "Rem_rem")], {}),
    ("src/int/numtraits.rs", "impls", "UI",
     [("Bounded for $Int<N>::min_value", "Bounded_min_value"), ("Bounded for $Int<N>::max_value", "Bounded_max_value"),
      ("CheckedNeg for $Int<N>::checked_neg", "CheckedNeg_checked_neg"), ("CheckedShl for $Int<N>::checked_shl", "CheckedShl_checked_shl"),
      ("CheckedShr for $Int<N>::checked_shr", "CheckedShr_checked_shr"),
      ("CheckedEuclid for $Int<N>::checked_div_euclid", "CheckedEuclid_checked_div_euclid"),
      ("CheckedEuclid for $Int<N>::checked_rem_euclid", "CheckedEuclid_checked_rem_euclid"),
      ("Euclid for $Int<N>::div_euclid", "Euclid_div_euclid"), ("Euclid for $Int<N>::rem_euclid", "Euclid_rem_euclid"),
      ("WrappingNeg for $Int<N>::wrapping_neg", "WrappingNeg_wrapping_neg"), ("WrappingShl for $Int<N>::wrapping_shl", "WrappingShl_wrapping_shl"),
      ("WrappingShr for $Int<N>::wrapping_shr", "WrappingShr_wrapping_shr"), ("Pow<ExpType> for $Int<N>::pow", "Pow_pow"),
      ("Saturating for $Int<N>::saturating_add", "Saturating_saturating_add"), ("Saturating for $Int<N>::saturating_sub", "Saturating_saturating_sub"),
      ("MulAdd for $Int<N>::mul_add", "MulAdd_mul_add"), ("One for $Int<N>::one", "One_one"), ("One for $Int<N>::is_one", "One_is_one"),
      ("Zero for $Int<N>::zero", "Zero_zero"), ("Zero for $Int<N>::is_zero", "Zero_is_zero")],
     {"AsPrimitive<$BUint<M>> for $Int<N>::as_": "cast (CastFrom): modelled by hand in Model/Cast.v (C09)",
      "AsPrimitive<$BInt<M>> for $Int<N>::as_": "cast (CastFrom): modelled by hand in Model/Cast.v (C09)",
      "MulAddAssign for $Int<N>::mul_add_assign": "`&mut self` store of mul_add (tied above); C18 runs it against TU_mul_add / TI_mul_add",
      "Num for $Int<N>::from_str_radix": "forwards to the inherent parser (C10); strings are outside the glue vocabulary",
      "num_traits::NumCast for $Int<N>::from": "generic over T: ToPrimitive; panics unconditionally"}),
    ("src/int/unchecked.rs", "impls", "UI", ["unchecked_add", "unchecked_sub", "unchecked_mul", "unchecked_shl", "unchecked_shr"], {}),
    ("src/buint/mod.rs", "mod_impl", "U",
     ["cast_signed", "rotate_left", "rotate_right", "unbounded_shl", "unbounded_shr", "pow", "div_euclid", "rem_euclid",
      "next_power_of_two", "midpoint", "ilog2", "abs_diff", "next_multiple_of", "div_floor", "div_ceil",
      "unchecked_shr_internal", "bits"],
     {"count_ones": LOOP2, "count_zeros": LOOP2, "leading_zeros": LOOP2, "trailing_zeros": LOOP2, "leading_ones": LOOP2,
      "trailing_ones": LOOP2, "rotate_digits_left": LOOP2, "unchecked_rotate_left": LOOP2, "swap_bytes": LOOP2,
      "reverse_bits": LOOP2, "is_power_of_two": LOOP2, "unchecked_shl_internal": LOOP2, "unchecked_shr_pad_internal": LOOP2,
      "is_zero": LOOP2, "is_one": LOOP2, "last_digit_index": LOOP2,
      "ilog10": FUEL + " (Model/Pow.v U_ilog10 = expect_log (U_checked_ilog10 ..))",
      "ilog": FUEL + " (Model/Pow.v U_ilog; the `base <= 1` panic is subsumed by checked_ilog = None in the model)",
      "bit": HAND + " (Model/Bits.v bit; indexes a digit, shifts on the digit type)",
      "set_bit": "`&mut self`, indexes a digit; " + HAND + " (Model/Bits.v set_bit)",
      "power_of_two": "`let mut` + indexed store; " + HAND + " (Model/Bits.v power_of_two)",
      "digits": REPR, "digits_mut": REPR, "from_digits": REPR,
      "from_digit": "`let mut` + indexed store; " + HAND + " (Model/Core.v from_digit)",
      "square": "`self * self` (operator on Self), private and unused (#[allow(unused)])",
      "Default for $BUint<N>::default": ITER, "Product<Self> for $BUint<N>::product": ITER,
      "Product<&'aSelf> for $BUint<N>::product": ITER, "Sum<Self> for $BUint<N>::sum": ITER,
      "Sum<&'aSelf> for $BUint<N>::sum": ITER,
      "quickcheck::Arbitrary for $BUint<N>::arbitrary": "test-only (cfg(any(test, feature = \"quickcheck\")))"}),
    ("src/bint/mod.rs", "mod_impl", "I",
     ["count_ones", "count_zeros", "leading_zeros", "trailing_zeros", "leading_ones", "trailing_ones", "cast_unsigned",
      "rotate_left", "rotate_right", "unbounded_shl", "unbounded_shr", "swap_bytes", "reverse_bits", "unsigned_abs", "pow",
      "div_euclid", "rem_euclid", "abs", "signum", "is_positive", "is_negative", "is_power_of_two", "midpoint", "abs_diff",
      "next_multiple_of", "div_floor", "div_ceil", "bits", "bit", "is_zero", "is_one"],
     {"signed_digit": HAND + " (Model/Core.v signed_digit: `digits[N - 1] as SignedDigit`, an indexed load and a digit cast)",
      "from_bits": REPR, "to_bits": REPR, "as_bits": REPR, "as_bits_mut": REPR,
      "Default for $BInt<N>::default": ITER, "Product<Self> for $BInt<N>::product": ITER,
      "Product<&'aSelf> for $BInt<N>::product": ITER, "Sum<Self> for $BInt<N>::sum": ITER,
      "Sum<&'aSelf> for $BInt<N>::sum": ITER,
      "quickcheck::Arbitrary for $BInt<N>::arbitrary": "test-only (cfg(any(test, feature = \"quickcheck\")))"}),
]
# associated constants whose defining expression the translation relies on (checked textually, like rs2v_config.py)
CONST_SHAPES = [
    ("src/bint/overflowing.rs", r"const BITS_MINUS_1:\s*ExpType\s*=\s*\(Self::BITS - 1\) as ExpType;", "BInt::BITS_MINUS_1 = BITS - 1"),
]

# where the macros above are expanded (checked textually: the translated bodies must be the ones the types really get)
USES = [("src/buint/strict.rs", "crate::int::strict::impls!(U);"), ("src/bint/strict.rs", "crate::int::strict::impls!(I);"),
        ("src/buint/const_trait_fillers.rs", "crate::int::cmp::impls!();"), ("src/bint/const_trait_fillers.rs", "crate::int::cmp::impls!();"),
        ("src/buint/const_trait_fillers.rs", "crate::int::ops::trait_fillers!();"), ("src/bint/const_trait_fillers.rs", "crate::int::ops::trait_fillers!();"),
        ("src/buint/bigint_helpers.rs", "crate::int::bigint_helpers::impls!(U);"), ("src/bint/bigint_helpers.rs", "crate::int::bigint_helpers::impls!(I);"),
        ("src/buint/ops.rs", "crate::int::ops::impls!($BUint, $BUint, $BInt);"), ("src/bint/ops.rs", "crate::int::ops::impls!($BInt, $BUint, $BInt);"),
        ("src/buint/unchecked.rs", "crate::int::unchecked::impls!($BUint, U);"), ("src/bint/unchecked.rs", "crate::int::unchecked::impls!($BInt, I);"),
        ("src/buint/unchecked.rs", "crate::macro_impl!(unchecked);"), ("src/bint/unchecked.rs", "crate::macro_impl!(unchecked);")]
USES += [(f[0], "crate::macro_impl!(%s);" % f[1]) for f in FILES if f[1] and not f[0].startswith("src/int/")]

# functions produced by helper macros: (file defining the macro, macro, file with the invocations, Self types,
#   [(invocation, metavariable assignment, {function key in the expansion: generated name})], {skipped invocation: reason})
# every invocation of the macro in the invocation file must be listed (expanded or skipped).
NT = lambda tr, m, ret: ("num_trait_impl!($Int, %s, %s, %s)" % (tr, m, ret), {"$Int": "$Int", "$tr": tr, "$method": m, "$ret": ret},
                         {"%s for $Int<N>::%s" % (tr, m): "%s_%s" % (tr, m)})
INSTANCES = [
    ("src/bint/mod.rs", "ilog", "src/bint/mod.rs", "I", [("ilog!(ilog2)", {"$method": "ilog2"}, {"ilog2": "ilog2"})],
     {"ilog!(ilog, base: Self)": FUEL + " (Model/Pow.v I_ilog)", "ilog!(ilog10)": FUEL + " (Model/Pow.v I_ilog10)"}),
    ("src/bint/checked.rs", "checked_ilog", "src/bint/checked.rs", "I",
     [("checked_ilog!(checked_ilog2)", {"$method": "checked_ilog2"}, {"checked_ilog2": "checked_ilog2"})],
     {"checked_ilog!(checked_ilog10)": FUEL + " (Model/Pow.v I_checked_ilog10)"}),
    ("src/int/numtraits.rs", "num_trait_impl", "src/int/numtraits.rs", "UI",
     [NT("CheckedAdd", "checked_add", "Option<Self>"), NT("CheckedDiv", "checked_div", "Option<Self>"),
      NT("CheckedMul", "checked_mul", "Option<Self>"), NT("CheckedRem", "checked_rem", "Option<Self>"),
      NT("CheckedSub", "checked_sub", "Option<Self>"), NT("SaturatingAdd", "saturating_add", "Self"),
      NT("SaturatingMul", "saturating_mul", "Self"), NT("SaturatingSub", "saturating_sub", "Self"),
      NT("WrappingAdd", "wrapping_add", "Self"), NT("WrappingMul", "wrapping_mul", "Self"), NT("WrappingSub", "wrapping_sub", "Self"),
      NT("OverflowingAdd", "overflowing_add", "(Self, bool)"), NT("OverflowingSub", "overflowing_sub", "(Self, bool)")], {}),
] + [
    ("src/int/ops.rs", mac, "src/int/ops.rs", "UI",
     [(inv(tr, m, tys), dict({"$Struct": "$Struct", "$tr": tr, "$method": m, "$rhs": ty}, **({"$err": "\"\""} if mac == "try_shift_impl" else {})),
       {"%s<%s> for $Struct<N>::%s" % (tr, ty, m): "%s_%s_%s" % (tr, ty, m)})
      for tr, m in (("Shl", "shl"), ("Shr", "shr")) for tys in tyss for ty in tys], {})
    for mac, tyss, inv in (
        ("shift_impl", [["u8", "u16"]],
         lambda tr, m, tys: "crate::int::ops::shift_impl!($Struct, %s, %s, %sAssign, %s_assign, %s)" % (tr, m, tr, m, ", ".join(tys))),
        ("try_shift_impl", [["i8", "i16", "i32", "isize", "i64", "i128"], ["usize", "u64", "u128"]],
         lambda tr, m, tys: "crate::int::ops::try_shift_impl!($Struct, $BUint, $BInt; %s, %s, %sAssign, %s_assign, \"attempt to shift %s with overflow\", %s)" % (
             tr, m, tr, m, {"shl": "left", "shr": "right"}[m], ", ".join(tys))))
]
USES += [("src/int/ops.rs", "crate::int::ops::all_shift_impls!($Struct, $BUint, $BInt);"),
         ("src/bint/mod.rs", "ilog!(ilog2);"), ("src/bint/checked.rs", "checked_ilog!(checked_ilog2);"),
         ("src/buint/numtraits.rs", "crate::int::numtraits::impls!($BUint, $BUint, $BInt, $Digit);"),
         ("src/bint/numtraits.rs", "crate::int::numtraits::impls!($BInt, $BUint, $BInt, $Digit);"),
         ("src/buint/numtraits.rs", "crate::macro_impl!(numtraits);"), ("src/bint/numtraits.rs", "crate::macro_impl!(numtraits);")]

# ---- C17: the reference / assign / bnum-amount operator forms.  The macros below (all defined in src/int/ops.rs) are expanded,
# by pattern matching, from the invocations found in the body of impls! (and, recursively, in their own bodies); every impl of an
# operator trait that the expansion produces beyond the by-value ones of FILES / INSTANCES is translated, named from its header
#   <Trait>[_<type argument>][_vr|_rr|_rv  |  _ref]_<method>        (vr: T op &R, rr: &T op &R, rv: &T op R; _ref: op= &R)
# and must be one of EXPECT17 (the impls Proofs/GlueTieC17.v has a lemma for): a missing one is a stub, an extra one a failure of C17.
MACROS17 = ["all_shift_impls", "assign_op_impl", "shift_assign_ops", "op_ref_impl", "shift_self_impl"]
PRIMS17 = ["u8", "u16", "u32", "u64", "u128", "usize", "i8", "i16", "i32", "i64", "i128", "isize"]


def expect17():
    res = []
    for tr, m in BIN_TRAITS.items():
        for ty in ([""] if tr not in ("Shl", "Shr") else PRIMS17 + ["BUint", "BInt"]):
            mid = "_" + ty if ty else ""
            if ty in ("BUint", "BInt"):
                res.append("%s%s_%s" % (tr, mid, m))                      # the by-value impl of shift_self_impl!
            res += ["%s%s_%s_%s" % (tr, mid, form, m) for form in ("vr", "rr", "rv")]
            res += ["%sAssign%s_%s_assign" % (tr, mid, m), "%sAssign%s_ref_%s_assign" % (tr, mid, m)]
    return res

# second pass over mod_impl (after the operator forms their closures call): Default / Sum / Product
FILES2 = [
    (path, "mod_impl", S,
     [("Default for %s<N>::default" % B, "Default_default"), ("Sum<Self> for %s<N>::sum" % B, "Sum_sum"),
      ("Sum<&'aSelf> for %s<N>::sum" % B, "Sum_ref_sum"), ("Product<Self> for %s<N>::product" % B, "Product_product"),
      ("Product<&'aSelf> for %s<N>::product" % B, "Product_ref_product")])
    for path, S, B in (("src/buint/mod.rs", "U", "$BUint"), ("src/bint/mod.rs", "I", "$BInt"))]


def auto_name(key, S):
    """generated name (without the U_ / I_ prefix) of an operator-trait impl, from its header; None: not such an impl"""
    ik = impl_key(key, S)
    if ik is None:
        return None
    (trait, _, sref, _, rref), meth = ik
    raw = re.match(r"^\w+(?:<(.*)>)? for ", key).group(1)
    raw = (raw or "Self").lstrip("&")
    if raw in ("Self", "$Struct<N>"):
        ty = ""
    elif raw in ("$BUint<M>", "$BInt<M>"):
        ty = raw[1:-3]
    elif raw in PRIM_INTS or raw in ("u32", "ExpType"):
        ty = raw
    else:
        return None
    if trait.endswith("Assign"):
        form = "ref" if rref else ""
        if sref:
            return None
    else:
        form = {(False, False): "", (False, True): "vr", (True, True): "rr", (True, False): "rv"}[(sref, rref)]
    return "_".join(x for x in (trait, ty, form, meth) if x)


# ------------------------------------------------------------------------------------------------------------------
# types:  "U" (BUint digit list)  "I" (BInt digit list)  "bool"  "Z" (ExpType/u32)  "ord"  ("opt", T)  ("tup", [T..])
# None is the unknown type of `None` / a diverging expression


# the std::ops traits whose impls the macros of src/int/ops.rs generate (C17): operator trait -> method, assign trait -> method
BIN_TRAITS = {"Add": "add", "Sub": "sub", "Mul": "mul", "Div": "div", "Rem": "rem", "BitAnd": "bitand", "BitOr": "bitor",
              "BitXor": "bitxor", "Shl": "shl", "Shr": "shr"}
OP_TRAITS = dict(BIN_TRAITS)
OP_TRAITS.update({t + "Assign": m + "_assign" for t, m in BIN_TRAITS.items()})
ASSIGN_METHODS = {m + "_assign": t + "Assign" for t, m in BIN_TRAITS.items()}
PRIM_INTS = ("u8", "u16", "u64", "u128", "usize", "i8", "i16", "i32", "i64", "i128", "isize")
INTS = ("Z", "SD", "D", "lit")     # ExpType / signed digit / digit / integer literal (all Coq Z)


def teq(a, b):
    if a is None or b is None:
        return True
    if a == "lit" or b == "lit":
        return a in INTS and b in INTS
    if isinstance(a, tuple) and isinstance(b, tuple):
        if a[0] != b[0] or a[0] == "ub":
            return False
        if a[0] in ("opt", "res"):
            return teq(a[1], b[1])
        if a[0] == "iter":
            return a == b
        return len(a[1]) == len(b[1]) and all(teq(x, y) for x, y in zip(a[1], b[1]))
    return a == b


def tjoin(a, b):
    if a is None or a == "lit":
        return b if b is not None else a
    if b is None or b == "lit":
        return a
    if isinstance(a, tuple) and isinstance(b, tuple) and a[0] == b[0]:
        if a[0] in ("opt", "res"):
            return (a[0], tjoin(a[1], b[1]))
        if a[0] == "iter":
            return a
        return ("tup", [tjoin(x, y) for x, y in zip(a[1], b[1])])
    return a


def tshow(t):
    if t is None:
        return "_"
    if isinstance(t, tuple) and t[0] == "ub":
        return "(unwrap_unchecked of option %s)" % tshow(t[1])
    if isinstance(t, tuple) and t[0] == "res":
        return "Convert.result (%s)" % tshow(t[1])
    if isinstance(t, tuple) and t[0] == "iter":
        return "list (%s)" % tshow(t[1])
    if isinstance(t, tuple):
        return "option (%s)" % tshow(t[1]) if t[0] == "opt" else "(" + " * ".join(tshow(x) for x in t[1]) + ")"
    if isinstance(t, str) and t.startswith("P:"):
        return "Z"
    return {"U": "list Z", "I": "list Z", "bool": "bool", "Z": "Z", "ord": "comparison", "SD": "Z", "D": "Z", "lit": "Z"}[t]


def tup(*ts):
    return ("tup", list(ts))


def opt(t):
    return ("opt", t)


# ------------------------------------------------------------------------------------------------------------------
# the vocabulary: Rust method (by receiver type) -> model function.   entry = (template, [arg types], result type, outcome?, uses dbg?)
# {0} is the receiver (or first argument of a static call), {1}.. the other arguments.
CALLEES = {}


def reg(s, name, args, ret, eff=False, dbg=False, w=True, head=None):
    h = head or ("%s_%s" % (s, name))
    tmpl = h + (" dbg" if dbg else "") + (" w" if w else "") + "".join(" {%d}" % i for i in range(len(args) + 1))
    CALLEES[(s, name)] = (tmpl, args, ret, eff, dbg)


def raw(s, name, tmpl, args, ret, eff=False, dbg=False):
    CALLEES[(s, name)] = (tmpl, args, ret, eff, dbg)


for S in ("U", "I"):
    sg = S == "I"
    for op in ("add", "sub", "mul"):
        reg(S, "overflowing_" + op, [S], tup(S, "bool"))
        reg(S, "checked_" + op, [S], opt(S))
        reg(S, "wrapping_" + op, [S], S)
        reg(S, "saturating_" + op, [S], S)
        reg(S, "strict_" + op, [S], S, eff=True)
        reg(S, op, [S], S, eff=True, dbg=True)
    for op in ("div", "rem", "div_euclid", "rem_euclid"):
        reg(S, "overflowing_" + op, [S], tup(S, "bool"), eff=True, dbg=sg)
        reg(S, "checked_" + op, [S], opt(S), eff=sg, dbg=sg)
        reg(S, "wrapping_" + op, [S], S, eff=True, dbg=sg)
        reg(S, op, [S], S, eff=True, dbg=sg)
    reg(S, "saturating_div", [S], S, eff=True, dbg=sg)
    reg(S, "div_rem_unchecked", [S], tup(S, S), eff=sg, dbg=sg)
    reg(S, "carrying_add", [S, "bool"], tup(S, "bool"))
    reg(S, "borrowing_sub", [S, "bool"], tup(S, "bool"))
    reg(S, "overflowing_neg", [], tup(S, "bool"))
    reg(S, "checked_neg", [], opt(S), w=sg)            # U_checked_neg takes no digit width
    reg(S, "wrapping_neg", [], S)
    reg(S, "strict_neg", [], S, eff=True, w=sg)        # U_strict_neg takes no digit width
    for op in ("shl", "shr"):
        reg(S, "overflowing_" + op, ["Z"], tup(S, "bool"))
        reg(S, "checked_" + op, ["Z"], opt(S))
        reg(S, "wrapping_" + op, ["Z"], S)
        reg(S, "strict_" + op, ["Z"], S, eff=True)
        reg(S, op, ["Z"], S, eff=True, dbg=True)
    reg(S, "overflowing_pow", ["Z"], tup(S, "bool"))
    reg(S, "checked_pow", ["Z"], opt(S))
    reg(S, "wrapping_pow", ["Z"], S)
    reg(S, "saturating_pow", ["Z"], S)
    reg(S, "strict_pow", ["Z"], S, eff=True)
    reg(S, "pow", ["Z"], S, eff=True, dbg=True)
    raw(S, "is_zero", "is_zero {0}", [], "bool")
    raw(S, "is_one", "is_one {0}", [], "bool")
    raw(S, "eq", "eq_digits {0} {1}", [S], "bool")
    raw(S, "not", "bitnot w {0}", [], S)
    cmpf = "icmp w" if sg else "ucmp"
    raw(S, "cmp", cmpf + " {0} {1}", [S], "ord")
    for c in ("lt", "le", "gt", "ge"):
        raw(S, c, "cmp_%s (%s {0} {1})" % (c, cmpf), [S], "bool")
reg("U", "overflowing_add_signed", ["I"], tup("U", "bool"))
reg("U", "checked_add_signed", ["I"], opt("U"))
reg("U", "wrapping_add_signed", ["I"], "U")
reg("U", "saturating_add_signed", ["I"], "U")
raw("U", "long_mul", "long_mul w {0} {1}", ["U"], tup("U", "bool"))
reg("U", "checked_next_power_of_two", [], opt("U"), eff=True)
raw("U", "saturate_up", "saturate_up w {0}", [], "U")                   # static: Self::saturate_up(pair)
raw("U", "saturate_down", "saturate_down {0}", [], "U")
raw("U", "unchecked_shl_internal", "shl_internal w {0} {1}", ["Z"], "U")
raw("U", "unchecked_shr_internal", "shr_pad_internal w false {0} {1}", ["Z"], "U")
raw("U", "unchecked_shr_pad_internal", "shr_pad_internal w {G} {0} {1}", ["Z"], "U")   # {G} = the const generic NEG
for op in ("add", "sub"):
    reg("I", "overflowing_%s_unsigned" % op, ["U"], tup("I", "bool"))
    reg("I", "checked_%s_unsigned" % op, ["U"], opt("I"))
    reg("I", "wrapping_%s_unsigned" % op, ["U"], "I")
    reg("I", "saturating_%s_unsigned" % op, ["U"], "I")
reg("I", "overflowing_abs", [], tup("I", "bool"))
reg("I", "checked_abs", [], opt("I"))
reg("I", "wrapping_abs", [], "I")
reg("I", "saturating_abs", [], "I")
reg("I", "saturating_neg", [], "I")
reg("I", "strict_abs", [], "I", eff=True)
reg("I", "neg", [], "I", eff=True, dbg=True)
reg("I", "abs", [], "I", eff=True, dbg=True)
reg("I", "unsigned_abs", [], "U")
raw("I", "is_negative", "is_negative w {0}", [], "bool")
# ---- vocabulary of the second round (mod.rs, const_trait_fillers.rs, the rest of checked / overflowing)
for S in ("U", "I"):
    sg = S == "I"
    raw(S, "count_ones", "count_ones {0}", [], "Z")
    for f_ in ("count_zeros", "leading_zeros", "trailing_zeros", "leading_ones", "trailing_ones"):
        raw(S, f_, f_ + " w {0}", [], "Z")
    raw(S, "bits", "bits_of w {0}", [], "Z")
    raw(S, "bit", "bit w {0} {1}", ["Z"], "bool", eff=True)
    raw(S, "rotate_left", "rotate_left w {0} {1}", ["Z"], S)
    raw(S, "rotate_right", "rotate_right w {0} {1}", ["Z"], S)
    reg(S, "unbounded_shl", ["Z"], S)
    reg(S, "unbounded_shr", ["Z"], S)
    raw(S, "swap_bytes", "swap_bytes w {0}", [], S)
    raw(S, "reverse_bits", "reverse_bits w {0}", [], S)
    raw(S, "bitand", "bitand {0} {1}", [S], S)
    raw(S, "bitor", "bitor {0} {1}", [S], S)
    raw(S, "bitxor", "bitxor {0} {1}", [S], S)
    raw(S, "ne", "negb (eq_digits {0} {1})", [S], "bool")
    reg(S, "checked_ilog2", [], opt("Z"))
    reg(S, "ilog2", [], "Z", eff=True)
    reg(S, "abs_diff", [S], "U")
    reg(S, "midpoint", [S], S, eff=True, dbg=True)
    reg(S, "div_floor", [S], S, eff=True, dbg=sg)
    reg(S, "div_ceil", [S], S, eff=True, dbg=True)
    reg(S, "next_multiple_of", [S], S, eff=True, dbg=True)
    reg(S, "checked_next_multiple_of", [S], opt(S), eff=True, dbg=True)
raw("U", "unchecked_rotate_left", "unchecked_rotate_left w {0} {1}", ["Z"], "U")
raw("U", "is_power_of_two", "U_is_power_of_two {0}", [], "bool")
raw("I", "is_power_of_two", "I_is_power_of_two w {0}", [], "bool")
reg("U", "wrapping_next_power_of_two", [], "U", eff=True)
reg("U", "next_power_of_two", [], "U", eff=True, dbg=True)
raw("U", "power_of_two", "power_of_two w {n} {0}", [], "U", eff=True)      # static: Self::power_of_two(bits)
reg("U", "div_rem", ["U"], tup("U", "U"), eff=True)
raw("I", "signed_digit", "signed_digit w {0}", [], "SD")
raw("I", "is_positive", "is_positive w {0}", [], "bool")
raw("I", "signum", "signum w {0}", [], "I")
raw("SD", "is_positive", "Z.ltb 0 {0}", [], "bool")
raw("SD", "is_negative", "Z.ltb {0} 0", [], "bool")
# div_rem_digit on an arbitrary digit: digit::div_rem_wide divides by it (debug_assert!(high < rhs) / the primitive division), so
# a zero digit panics in both build modes; Model/Div.v div_rem_digit itself is total (see Model/Ops.v U_Div_digit)
raw("U", "div_rem_digit", "if Z.eqb {1} 0 then Panic else Ret (div_rem_digit w {0} {1})", ["D"], tup("U", "D"), eff=True)
# u32::checked_sub on ExpType values
raw("Z", "checked_sub", "if Z.ltb {0} {1} then None else Some (Z.sub {0} {1})", ["Z"], opt("Z"))
# the receiver type of saturate_up/down's argument is a pair: handled in static calls by the declared first-argument type
STATIC_FIRST = {("U", "saturate_up"): tup("U", "bool"), ("U", "saturate_down"): tup("U", "bool"), ("U", "power_of_two"): "Z"}

CONSTS = {("U", "MAX"): ("UMAX w {n}", "U"), ("U", "MIN"): ("ZERO {n}", "U"), ("U", "ZERO"): ("ZERO {n}", "U"),
          ("U", "ONE"): ("ONE {n}", "U"), ("U", "BITS"): ("bits w {n}", "Z"),
          ("I", "MAX"): ("IMAX w {n}", "I"), ("I", "MIN"): ("IMIN w {n}", "I"), ("I", "ZERO"): ("ZERO {n}", "I"),
          ("I", "ONE"): ("ONE {n}", "I"), ("I", "NEG_ONE"): ("NEG_ONE w {n}", "I"), ("I", "BITS"): ("bits w {n}", "Z"),
          ("I", "BITS_MINUS_1"): ("Z.sub (bits w {n}) 1", "Z")}

COQ_RESERVED = {"as", "at", "cofix", "else", "end", "exists", "exists2", "fix", "for", "forall", "fun", "if", "IF", "in",
                "let", "match", "mod", "Prop", "return", "Set", "then", "Type", "using", "where", "with", "w", "dbg",
                "fst", "snd", "length", "Some", "None", "true", "false", "Ret", "Panic", "Lt", "Eq", "Gt", "negb", "orb",
                "andb", "xorb", "omap", "obind", "bits", "Z", "bool", "list", "option", "outcome", "comparison"}


MODEL_FILES = ["Digit", "Core", "Shift", "AddSub", "Mul", "Div", "Bits", "Pow"]      # coq/Model/<X>.v, in import order
MODEL_DEFS = {}


def load_model_defs():
    """name -> module of every Definition / Fixpoint of the hand-written model files: generated code refers to the
    model by qualified name (AddSub.U_checked_add), so a generated Glue.U_checked_add never shadows its own target"""
    for mod in MODEL_FILES:
        src = open(os.path.join(ROOT, "coq", "Model", mod + ".v")).read()
        for m in re.finditer(r"^\s*(?:Definition|Fixpoint)\s+([A-Za-z_][\w']*)", src, re.M):
            MODEL_DEFS.setdefault(m.group(1), []).append(mod)


QUAL_SKIP = {"w", "dbg", "n", "G", "false", "true", "Z"}


def qual(tmpl):
    """qualify every model identifier of a template; an identifier that is not a Base/Prim/stdlib name and not in the
    model makes the translator fail (the vocabulary table is out of date)"""
    def f(m):
        x = m.group(0)
        if m.start() > 0 and tmpl[m.start() - 1] in ".{":
            return x
        if x in MODEL_DEFS:
            if len(MODEL_DEFS[x]) != 1:
                die("model name %s is defined in several model files: %s" % (x, MODEL_DEFS[x]))
            return MODEL_DEFS[x][0] + "." + x
        if x in QUAL_SKIP or x in ("bits", "sub", "land", "ltb", "eqb", "negb", "if", "then", "else", "None", "Some", "Panic", "Ret") or x == "Z":
            return x
        die("vocabulary names %s, which is not defined in coq/Model/{%s}.v" % (x, ",".join(MODEL_FILES)))
    return re.sub(r"[A-Za-z_][\w']*", f, tmpl)


def cname(x):
    return x + "_" if x in COQ_RESERVED else x


# ------------------------------------------------------------------------------------------------------------------
# source extraction
def strip_comments(s):
    s = re.sub(r"/\*.*?\*/", "", s, flags=re.S)
    return re.sub(r"//[^\n]*", "", s)


def balanced(src, i, op, cl):
    """src[i] == op; returns the index just after the matching cl"""
    assert src[i] == op
    d = 0
    while True:
        if i >= len(src):
            die("unbalanced %s" % op)
        d += {op: 1, cl: -1}.get(src[i], 0)
        i += 1
        if d == 0:
            return i


def macro_region(src, name, path):
    m = re.search(r"macro_rules!\s*%s\s*\{" % re.escape(name), src)
    if not m:
        die("macro_rules! %s not found in %s" % (name, path))
    return src[m.end() - 1:balanced(src, m.end() - 1, "{", "}")]


def macro_arm_body(region, name, path):
    """region = the `{ (pattern) => { body } }` of a single-arm macro_rules!: returns the body (without its braces)"""
    i = 1
    while region[i].isspace():
        i += 1
    if region[i] not in "([{":
        die("macro %s: cannot find the pattern of its arm" % name)
    j = balanced(region, i, region[i], {"(": ")", "[": "]", "{": "}"}[region[i]])
    m = re.match(r"\s*=>\s*", region[j:])
    if not m:
        die("macro %s: no `=>` after the pattern" % name)
    k = j + m.end()
    if region[k] not in "{(":
        die("macro %s: cannot find the body of its arm" % name)
    e = balanced(region, k, region[k], {"{": "}", "(": ")"}[region[k]])
    if region[e:].strip(" \t\n;") != "}":
        die("macro %s has more than one arm: outside the supported subset of macro instantiation" % name)
    return region[k + 1:e - 1]


def instantiate(body, subst, name):
    """one expansion of a macro body for the metavariable assignment `subst` ($x -> text).  A repetition group
    `$( .. ) sep? [*+?]` is expanded exactly once when every metavariable inside it is assigned and dropped when none is
    (a mixture is an error); no other form of repetition is supported"""
    while True:
        i = body.find("$(")
        if i < 0:
            break
        j = balanced(body, i + 1, "(", ")")
        m = re.match(r"\s*([^\s*+?$(){}\[\]])?\s*([*+?])", body[j:])
        if not m:
            die("macro %s: cannot parse the repetition operator after a `$( .. )` group" % name)
        inner = body[i + 2:j - 1]
        vs = set(re.findall(r"\$[A-Za-z_]\w*", inner))
        have = [v for v in vs if v in subst]
        if vs and len(have) == len(vs):
            rep = inner
        elif not have:
            rep = ""
        else:
            die("macro %s: a repetition group mixes assigned and unassigned metavariables (%s)" % (name, ", ".join(sorted(vs))))
        body = body[:i] + rep + body[j + m.end():]
    def sub(m):
        if m.group(0) not in subst:
            die("macro %s: metavariable %s is not assigned by the instance table" % (name, m.group(0)))
        return subst[m.group(0)]
    keep = {"$BUint", "$BInt", "$Digit", "$Struct", "$Int"}
    return re.sub(r"\$[A-Za-z_]\w*", lambda m: m.group(0) if (m.group(0) in keep and m.group(0) not in subst) else sub(m), body)


FN_RE = re.compile(r"(?:pub(?:\(\w+\))?\s+)?(?:const\s+)?(?:unsafe\s+)?\bfn\s+(\$?\w+)\s*(?=[<(])")
IMPL_RE = re.compile(r"\bimpl\b")


def impl_blocks(region):
    """[(start, end, header)] of every `impl ... { ... }` of the region; header = the text between `impl<..>` and `{`"""
    res = []
    for m in IMPL_RE.finditer(region):
        i = m.end()
        j = i
        while j < len(region) and region[j].isspace():
            j += 1
        if j < len(region) and region[j] == "<":
            j = balanced(region, j, "<", ">")
        k = region.find("{", j)
        semi = region.find(";", j)
        if k < 0 or (0 <= semi < k):
            continue
        res.append((k, balanced(region, k, "{", "}"), re.sub(r"\s+", " ", region[j:k]).strip()))
    return res


def find_fns(region, path):
    """[(key, params, return type, body)]; key = the function name for a free / inherent function, and
    `<Trait> for <Type>::<name>` (blanks removed) for a function of a trait impl"""
    res = []
    impls = impl_blocks(region)
    for m in FN_RE.finditer(region):
        name = m.group(1)
        inner = None
        for (a, b, h) in impls:
            if a < m.start() < b and (inner is None or a > inner[0]):
                inner = (a, b, h)
        if inner is not None and re.search(r"\bfor\b", inner[2]):
            tr_, ty_ = re.split(r"\bfor\b", inner[2], 1)
            name = "%s for %s::%s" % (re.sub(r"\s+", "", tr_), re.sub(r"\s+", "", ty_), name)
        i = m.end()
        if region[i] == "<":
            i = balanced(region, i, "<", ">")
            while region[i].isspace():
                i += 1
            if region[i] != "(":
                die("cannot find the parameter list of fn %s" % name)
        j = balanced(region, i, "(", ")")
        rm = re.match(r"\s*(?:->\s*([^{;]+))?\{", region[j:])
        if not rm:
            res.append((name, region[i + 1:j - 1], None, None))     # a declaration without body
            continue
        k = j + rm.end() - 1
        e = balanced(region, k, "{", "}")
        ret = (rm.group(1) or "()").strip()
        if re.sub(r"\s+", "", ret) == "Self::Output" and inner is not None:
            # the associated type of the enclosing impl: `type Output = T;`
            om = re.findall(r"\btype\s+Output\s*=\s*([^;]+);", region[inner[0]:inner[1]])
            if len(om) == 1:
                ret = om[0].strip()
        res.append((name, region[i + 1:j - 1], ret, region[k:e]))
    return res


# ------------------------------------------------------------------------------------------------------------------
# macro_rules! expansion by pattern matching (C17: the nested helper macros of src/int/ops.rs - assign_op_impl!,
# shift_assign_ops!, op_ref_impl!, shift_self_impl!, all_shift_impls! - are expanded from the invocations found in the source,
# with the arguments found there; nothing about which operator is paired with which assign trait is assumed here)
MTOK = re.compile(r'"(?:[^"\\]|\\.)*"|\$?[A-Za-z_]\w*|\d+|::|=>|->|\S')
MWS = re.compile(r"\s*")


class MacroMismatch(Exception):
    pass


def mtokens(text):
    """[(token, preceded by white space?)]; `<` `>` are always single tokens, `$(` is `$` `(`"""
    out, i = [], 0
    while True:
        j = MWS.match(text, i).end()
        if j >= len(text):
            return out
        m = MTOK.match(text, j)
        out.append((m.group(0), j > i))
        i = m.end()


def mtext(toks):
    return "".join((" " if ws else "") + t for t, ws in toks)


MCLOSE = {"(": ")", "[": "]", "{": "}"}


def mclose(toks, i):
    """toks[i] opens a group: index of the matching closing delimiter"""
    d = 0
    for j in range(i, len(toks)):
        if toks[j][0] in MCLOSE:
            d += 1
        elif toks[j][0] in MCLOSE.values():
            d -= 1
            if d == 0:
                return j
    die("macro expansion: unbalanced delimiters")


def mparse_pattern(toks):
    """pattern items: ('lit', tok) | ('var', $name, fragment) | ('rep', items, separator or None, operator)"""
    items, i = [], 0
    while i < len(toks):
        t = toks[i][0]
        if t == "$" and i + 1 < len(toks) and toks[i + 1][0] == "(":
            j = mclose(toks, i + 1)
            k, sep = j + 1, None
            if toks[k][0] not in "*+?":
                sep, k = toks[k][0], k + 1
            if toks[k][0] not in "*+?":
                die("macro pattern: cannot parse the repetition operator")
            items.append(("rep", mparse_pattern(toks[i + 2:j]), sep, toks[k][0]))
            i = k + 1
        elif t.startswith("$") and len(t) > 1 and i + 2 < len(toks) and toks[i + 1][0] == ":":
            items.append(("var", t, toks[i + 2][0]))
            i += 3
        else:
            items.append(("lit", t))
            i += 1
    return items


def pattern_vars(items):
    vs = []
    for it in items:
        if it[0] == "var":
            vs.append(it[1])
        elif it[0] == "rep":
            vs += pattern_vars(it[1])
    return vs


MIDENT = re.compile(r"^\$?[A-Za-z_]\w*$")


def mfragment(kind, toks, i):
    """index after the fragment of the given kind starting at toks[i]"""
    def tok(k):
        return toks[k][0] if k < len(toks) else None
    if kind == "ident":
        if tok(i) is None or not MIDENT.match(tok(i)):
            raise MacroMismatch()
        return i + 1
    if kind == "tt":
        if tok(i) is None:
            raise MacroMismatch()
        return mclose(toks, i) + 1 if tok(i) in MCLOSE else i + 1
    if kind == "ty":
        if tok(i) == "&":
            i += 1
            if tok(i) == "'":
                i += 2
            if tok(i) == "mut":
                i += 1
        if tok(i) in ("(", "["):
            return mclose(toks, i) + 1
        if tok(i) is None or not MIDENT.match(tok(i)):
            raise MacroMismatch()
        i += 1
        while True:
            if tok(i) == "::" and tok(i + 1) is not None and MIDENT.match(tok(i + 1)):
                i += 2
            elif tok(i) == "<":
                d = 0
                while True:
                    if tok(i) is None:
                        raise MacroMismatch()
                    d += {"<": 1, ">": -1}.get(tok(i), 0)
                    i = mclose(toks, i) + 1 if tok(i) in MCLOSE else i + 1
                    if d == 0:
                        break
            else:
                return i
    if kind == "expr":
        j = i
        while tok(j) is not None and tok(j) not in (",", ";"):
            j = mclose(toks, j) + 1 if tok(j) in MCLOSE else j + 1
        if j == i:
            raise MacroMismatch()
        return j
    die("macro pattern: fragment specifier `%s` is outside the supported subset" % kind)


def mmatch(items, toks, i, binds):
    for it in items:
        if it[0] == "lit":
            if i >= len(toks) or toks[i][0] != it[1]:
                raise MacroMismatch()
            i += 1
        elif it[0] == "var":
            j = mfragment(it[2], toks, i)
            binds[it[1]] = toks[i:j]
            i = j
        else:
            reps = []
            while True:
                b = {}
                try:
                    j = mmatch(it[1], toks, i, b)
                except MacroMismatch:
                    break
                reps.append(b)
                i = j
                if it[2] is None:
                    continue
                if i < len(toks) and toks[i][0] == it[2]:
                    i += 1
                else:
                    break
            if it[3] == "+" and not reps:
                raise MacroMismatch()
            for v in pattern_vars(it[1]):
                binds[v] = ("rep", [b[v] for b in reps])
    return i


def mtranscribe(body, binds, name):
    out, i = [], 0
    while i < len(body):
        t, ws = body[i]
        if t == "$" and i + 1 < len(body) and body[i + 1][0] == "(":
            j = mclose(body, i + 1)
            k, sep = j + 1, None
            if body[k][0] not in "*+?":
                sep, k = body[k], k + 1
            inner = body[i + 2:j]
            vs = sorted(set(x[0] for x in inner if isinstance(binds.get(x[0]), tuple)))
            if not vs:
                die("macro %s: a repetition group of the body uses no repetition variable" % name)
            n = len(binds[vs[0]][1])
            if any(len(binds[v][1]) != n for v in vs):
                die("macro %s: repetition variables of different lengths in one group" % name)
            for r in range(n):
                b2 = dict(binds)
                for v in vs:
                    b2[v] = binds[v][1][r]
                if r and sep is not None:
                    out.append(sep)
                out += mtranscribe(inner, b2, name)
            i = k + 1
        elif t in binds:
            if isinstance(binds[t], tuple):
                die("macro %s: repetition variable %s used outside a repetition group" % (name, t))
            for q, (vt, vws) in enumerate(binds[t]):
                out.append((vt, vws if q else ws))
            i += 1
        else:
            out.append((t, ws))
            i += 1
    return out


def macro_arm(region, name):
    """(pattern tokens, body tokens) of a single-arm macro_rules! (region = its `{ (pattern) => { body } }`)"""
    i = 1
    while region[i].isspace():
        i += 1
    if region[i] not in "([{":
        die("macro %s: cannot find the pattern of its arm" % name)
    j = balanced(region, i, region[i], MCLOSE[region[i]])
    body = macro_arm_body(region, name, "")
    return mtokens(region[i + 1:j - 1]), mtokens(body)


def mexpand(toks, macros, depth=0):
    """expand, recursively, every invocation `path::name!( .. );` of a macro of `macros` (name -> (pattern items, body tokens))"""
    if depth > 8:
        die("macro expansion: nesting deeper than 8")
    out, i = [], 0
    while i < len(toks):
        t = toks[i][0]
        if t in macros and i + 2 < len(toks) and toks[i + 1][0] == "!" and toks[i + 2][0] in MCLOSE:
            while len(out) >= 2 and out[-1][0] == "::" and MIDENT.match(out[-2][0]):
                del out[-2:]                                      # the path prefix `crate::int::ops::`
            j = mclose(toks, i + 2)
            binds = {}
            pat, body = macros[t]
            try:
                if mmatch(pat, toks[i + 3:j], 0, binds) != j - i - 3:
                    raise MacroMismatch()
            except MacroMismatch:
                die("the invocation `%s!(%s)` does not match the macro's pattern" % (t, mtext(toks[i + 3:j]).strip()))
            out += mexpand(mtranscribe(body, binds, t), macros, depth + 1)
            i = j + 1
            if i < len(toks) and toks[i][0] == ";":
                i += 1
        else:
            out.append(toks[i])
            i += 1
    return out


# ------------------------------------------------------------------------------------------------------------------
# tokenizer / parser
TOK = re.compile(r"\s*(?:(#\s*\[)|(\d+)|(\"(?:[^\"\\]|\\.)*\")|(\$?[A-Za-z_][A-Za-z0-9_]*)|(::|=>|->|<<|>>|\|\||&&|==|!=|<=|>=|[-+*/%|&^<>!=(){}\[\],;:.]))")


def tokenize(s):
    out, i = [], 0
    while i < len(s):
        m = TOK.match(s, i)
        if not m:
            if s[i:].strip() == "":
                break
            die("cannot tokenize near: " + s[i:i + 40].strip())
        if m.group(1):
            k = m.end() - 1
            e = balanced(s, k, "[", "]")
            out.append("#" + re.sub(r"\s+", "", s[k + 1:e - 1]))
            i = e
            continue
        i = m.end()
        if m.group(4):
            mm = re.match(r"!\s*(?=[(\[{])", s[i:])
            if mm and m.group(4) not in ("if", "match", "return", "while"):
                out.append(m.group(4) + "!")
                i += 1
                continue
        out.append(m.group(2) or m.group(3) or m.group(4) or m.group(5))
    return out


IDENT = re.compile(r"^\$?[A-Za-z_]\w*$")
KEYWORDS = {"if", "else", "match", "let", "return", "unsafe", "true", "false", "mut", "while", "loop", "for", "as", "in", "ref", "move", "use"}


class P:
    def __init__(self, toks, tyvars=None):
        self.t, self.i = toks, 0
        self.tyvars = tyvars or {}         # generic type parameters of the function: name -> type (`I: Iterator<Item = T>`)

    def peek(self, k=0):
        return self.t[self.i + k] if self.i + k < len(self.t) else None

    def eat(self, x=None):
        v = self.peek()
        if v is None:
            die("unexpected end of function body" + (" (expected %r)" % x if x else ""))
        if x is not None and v != x:
            die("expected %r, got %r (near: %s)" % (x, v, " ".join(self.t[max(0, self.i - 6):self.i + 4])))
        self.i += 1
        return v

    def ident(self):
        v = self.eat()
        if not IDENT.match(v) or v in KEYWORDS:
            die("expected an identifier, got %r" % v)
        return v

    # ---- types
    def eat_gt(self):
        """the `>` closing a generic argument list; a `>>` token closes two nested lists"""
        if self.peek() == ">>":
            self.t[self.i:self.i + 1] = [">", ">"]
        self.eat(">")

    def type_ref(self):
        """-> (is a reference `&T`?, T)"""
        if self.peek() == "&":
            self.eat()
            if self.peek() == "mut":
                die("`&mut` type is outside the supported subset")
            return True, self.type_()
        return False, self.type_()

    def type_(self):
        v = self.peek()
        if v == "&":
            self.eat()
            return self.type_()
        if v == "(":
            self.eat("(")
            ts = [self.type_()]
            while self.peek() == ",":
                self.eat(",")
                ts.append(self.type_())
            self.eat(")")
            return ("tup", ts)
        segs = [self.ident()]
        while self.peek() == "::":
            self.eat("::")
            segs.append(self.ident())
        name = segs[-1]
        if name == "Option":
            self.eat("<")
            t = self.type_()
            self.eat_gt()
            return ("opt", t)
        if name in self.tyvars:
            return self.tyvars[name]
        if name in ("$BUint", "$BInt", "$Struct", "$Int"):
            if self.peek() == "<":
                self.eat("<")
                if self.peek() not in ("N", "M"):         # M: the digit count of a bnum-typed shift amount (shift_self_impl!)
                    die("const generic argument %r of %s (only N / M)" % (self.peek(), name))
                self.eat()
                self.eat_gt()
            return {"$BUint": "U", "$BInt": "I"}.get(name, "Self")      # $Struct / $Int: the type the macro is expanded for
        if name == "$Digit":
            return "D"
        if name == "Self":
            return "Self"
        if name in ("ExpType", "u32"):
            return "Z"
        if name in PRIM_INTS:
            return "P:" + name          # a primitive integer other than ExpType = u32 (shift amounts): its value as a Coq Z
        if name == "bool":
            return "bool"
        if name == "Ordering":
            return "ord"
        die("unsupported type %s" % "::".join(segs))

    # ---- blocks and statements
    def block(self):
        """'{' stmt* [tail] '}'  ->  ('block', [stmt], tail)
        stmt = ('let', pat, e, mutable names) | ('assign', x, e) | ('assert', c) | ('sif', c, block, block-or-None)
        tail = expr | ('return', e) | ('dbgif', e1, e2) | ('panic',) | None (the block falls through: statement blocks only)"""
        self.eat("{")
        stmts = []
        while True:
            v = self.peek()
            if v == "}":
                self.eat("}")
                return ("block", stmts, None)
            if v == "let":
                self.eat("let")
                pat, muts = self.let_pattern()
                if self.peek() == ":":
                    self.eat(":")
                    self.type_()
                self.eat("=")
                e = self.expr()
                self.eat(";")
                stmts.append(("let", pat, e, muts))
            elif v == "assert!":
                self.eat()
                self.eat("(")
                c = self.expr()
                if self.peek() == ",":
                    self.skip_to_close()
                else:
                    self.eat(")")
                self.eat(";")
                stmts.append(("assert", c))
            elif v == "use":
                while self.eat() != ";":
                    pass
            elif v == "#cfg(debug_assertions)" and self.peek(1) == "let":
                # #[cfg(debug_assertions)] let x = e1;  #[cfg(not(debug_assertions))] let x = e2;
                def one_let():
                    self.eat("let")
                    x = self.ident()
                    if self.peek() == ":":
                        self.eat(":")
                        self.type_()
                    self.eat("=")
                    e_ = self.expr()
                    self.eat(";")
                    return x, e_
                self.eat()
                x1, e1 = one_let()
                if self.peek() != "#cfg(not(debug_assertions))" or self.peek(1) != "let":
                    die("expected #[cfg(not(debug_assertions))] let after the debug-assertions let")
                self.eat()
                x2, e2 = one_let()
                if x1 != x2:
                    die("the two cfg(debug_assertions) lets bind different names")
                stmts.append(("let", x1, ("dbgsel", e1, e2), set()))
            elif v is not None and v.startswith("#"):
                if v == "#allow(clippy::comparison_chain)":
                    self.eat()
                    continue
                if v != "#cfg(debug_assertions)":
                    die("unsupported attribute %s inside a function body" % v)
                self.eat()
                self.eat("return")
                e1 = self.expr()
                self.eat(";")
                if self.peek() != "#cfg(not(debug_assertions))":
                    die("expected #[cfg(not(debug_assertions))] after the debug-assertions return")
                self.eat()
                e2 = self.expr()
                self.eat("}")
                return ("block", stmts, ("dbgif", e1, e2))
            elif v == "return":
                self.eat("return")
                e = self.expr()
                if self.peek() == ";":
                    self.eat(";")
                self.eat("}")
                return ("block", stmts, ("return", e))
            elif v in ("while", "loop", "for"):
                die("loop (`%s`) is outside the supported subset" % v)
            elif v == "*" and self.peek(1) == "self" and self.peek(2) == "=":
                # `*self = e;` in a `&mut self` method: the function returns the final value of *self
                self.eat()
                self.eat()
                self.eat("=")
                e = self.expr()
                self.eat(";")
                stmts.append(("assign", "self", e))
            elif v is not None and IDENT.match(v) and v not in KEYWORDS and self.peek(1) == "=":
                x = self.ident()
                self.eat("=")
                e = self.expr()
                self.eat(";")
                stmts.append(("assign", x, e))
            else:
                e = self.expr()
                if (e[0] == "mcall" and e[2] in ASSIGN_METHODS and e[1] in (("var", "self"), ("deref", ("var", "self")))
                        and e[4] is None and self.peek() == ";"):
                    # `self.add_assign(x);` / `(*self).shl_assign(x);` in a `&mut self` method: *self = <that impl>(*self, x)
                    self.eat(";")
                    stmts.append(("assign", "self", ("acall", e[2], e[3])))
                    continue
                if e[0] == "panic" and self.peek() == ";":         # `div_zero!();` / `panic!(..);`
                    self.eat(";")
                    self.eat("}")                                    # nothing may follow a panic
                    return ("block", stmts, e)
                if self.peek() == "}":
                    self.eat("}")
                    if e[0] == "if" and self.is_stmt_if(e):
                        stmts.append(("sif", e[1], e[2], e[3]))
                        return ("block", stmts, None)
                    return ("block", stmts, e)
                # a statement-level `if` (no value) followed by more code
                if e[0] == "if" and self.is_stmt_if(e):
                    if self.peek() == ";":
                        self.eat(";")
                    stmts.append(("sif", e[1], e[2], e[3]))
                    continue
                die("expression statement is outside the supported subset (near %r)" % self.peek())

    @staticmethod
    def branch_kind(b):
        """'value' | 'diverge' (return / panic) | 'fall' (no value: control may reach the end of the block)"""
        t = b[2]
        if t is None:
            return "fall"
        if t[0] in ("return", "panic"):
            return "diverge"
        if t[0] == "if":
            return "fall" if P.is_stmt_if(t) else "value"
        return "value"

    @staticmethod
    def is_stmt_if(e):
        """an `if` used as a statement (no value): no `else`, or no branch has a value"""
        if e[3] is None:
            return True
        ks = [P.branch_kind(e[2]), P.branch_kind(e[3])]
        if "value" in ks:
            if "fall" in ks:
                die("`if` with a value in one branch and none in the other")
            return False
        return True

    def skip_to_close(self):
        d = 1
        while d:
            v = self.eat()
            if v in ("(", "[", "{"):
                d += 1
            elif v in (")", "]", "}"):
                d -= 1

    def let_pattern(self):
        """-> (name | [names], set of the names declared `mut`)"""
        muts = set()

        def one():
            m = self.peek() == "mut"
            if m:
                self.eat()
            x = self.ident()
            if m:
                muts.add(x)
            return x
        if self.peek() == "(":
            self.eat("(")
            ns = [one()]
            while self.peek() == ",":
                self.eat(",")
                ns.append(one())
            self.eat(")")
            return ns, muts
        return one(), muts

    def match_pattern(self):
        alts = [self.pat1()]
        while self.peek() == "|":
            self.eat("|")
            alts.append(self.pat1())
        return alts

    def pat1(self):
        v = self.peek()
        if v == "(":
            self.eat("(")
            ps = [self.pat1()]
            while self.peek() == ",":
                self.eat(",")
                ps.append(self.pat1())
            self.eat(")")
            if len(ps) < 2 or any(q[0] not in ("pbool", "wild") for q in ps):
                die("tuple pattern other than a tuple of true / false / _")
            return ("ptup", ps)
        if v == "_":
            self.eat()
            return ("wild",)
        if v in ("true", "false"):
            self.eat()
            return ("pbool", v)
        segs = [self.ident()]
        while self.peek() == "::":
            self.eat("::")
            segs.append(self.ident())
        if segs[-1] == "Some":
            self.eat("(")
            x = "_" if self.peek() == "_" else None
            if x:
                self.eat()
            else:
                x = self.ident()
            self.eat(")")
            return ("psome", x)
        if segs[-1] == "None":
            return ("pnone",)
        if len(segs) >= 2 and segs[-2] == "Ordering" and segs[-1] in ("Less", "Equal", "Greater"):
            return ("pord", {"Less": "Lt", "Equal": "Eq", "Greater": "Gt"}[segs[-1]])
        die("unsupported pattern %s" % "::".join(segs))

    # ---- expressions
    LEVELS = [["||"], ["&&"], ["==", "!=", "<", ">", "<=", ">="], ["|"], ["^"], ["&"], ["<<", ">>"], ["+", "-"], ["*", "/", "%"]]

    def expr(self, lvl=0, nostruct=False):
        if lvl == len(self.LEVELS):
            return self.unary(nostruct)
        e = self.expr(lvl + 1, nostruct)
        while self.peek() in self.LEVELS[lvl]:
            op = self.eat()
            r = self.expr(lvl + 1, nostruct)
            e = ("bin", op, e, r)
        return e

    def unary(self, nostruct):
        v = self.peek()
        if v == "!":
            self.eat()
            return ("not", self.unary(nostruct))
        if v == "&":
            self.eat()
            if self.peek() == "mut":
                die("`&mut` is outside the supported subset")
            return ("ref", self.unary(nostruct))
        if v == "*":
            self.eat()
            return ("deref", self.unary(nostruct))
        if v == "-":
            die("unary minus is outside the supported subset")
        e = self.postfix()
        while self.peek() == "as":
            self.eat("as")
            segs = [self.eat()]
            while self.peek() == "::":
                self.eat("::")
                segs.append(self.eat())
            if segs[-1] not in ("ExpType", "u32"):
                die("`as %s` cast is outside the supported subset (only `as ExpType`)" % "::".join(segs))
            e = ("as_exptype", e)
        return e

    def args(self):
        self.eat("(")
        a = []
        while self.peek() != ")":
            a.append(self.expr())
            if self.peek() == ",":
                self.eat(",")
            elif self.peek() != ")":
                die("expected , or ) in argument list, got %r" % self.peek())
        self.eat(")")
        return a

    def postfix(self):
        e = self.primary()
        while True:
            if self.peek() == ".":
                self.eat(".")
                name = self.eat()
                generic = None
                if self.peek() == "::" and self.peek(1) == "<":
                    self.eat("::")
                    self.eat("<")
                    generic = self.eat()
                    self.eat(">")
                    if self.peek() != "(":
                        die("turbofish without a call")
                if self.peek() == "(":
                    e = ("mcall", e, name, self.args(), generic)
                else:
                    e = ("field", e, name)
            elif self.peek() == "[":
                if not (e[0] == "field" and e[2] == "digits" and self.peek(1) == "0" and self.peek(2) == "]"):
                    die("indexing is outside the supported subset (only `.digits[0]`)")
                self.eat("[")
                self.eat("0")
                self.eat("]")
                e = ("digit0", e[1])
            elif self.peek() == "?":
                die("`?` is outside the supported subset")
            else:
                return e

    def if_(self):
        self.eat("if")
        if self.peek() == "let":
            self.eat("let")
            pat = self.match_pattern()
            self.eat("=")
            c = ("iflet", pat, self.expr(0, True))
        else:
            c = self.expr(0, True)
        a = self.block()
        b = None
        if self.peek() == "else":
            self.eat("else")
            if self.peek() == "if":
                b = ("block", [], self.if_())
            else:
                b = self.block()
        return ("if", c, a, b)

    def primary(self):
        v = self.peek()
        if v is None:
            die("unexpected end of body")
        if v == "(":
            self.eat("(")
            es = [self.expr()]
            trailing = False
            while self.peek() == ",":
                self.eat(",")
                trailing = True
                if self.peek() == ")":
                    break
                es.append(self.expr())
            self.eat(")")
            if len(es) == 1:
                if trailing:
                    die("1-tuple is outside the supported subset")
                return es[0]
            return ("tuple", es)
        if v == "if":
            return self.if_()
        if v == "match":
            self.eat("match")
            s = self.expr(0, True)
            self.eat("{")
            arms = []
            while self.peek() != "}":
                pat = self.match_pattern()
                if self.peek() == "if":
                    die("match guard is outside the supported subset")
                self.eat("=>")
                if self.peek() == "{":
                    body = self.block()
                    if self.peek() == ",":
                        self.eat(",")
                else:
                    body = self.expr()
                    if self.peek() != "}":
                        self.eat(",")
                arms.append((pat, body))
            self.eat("}")
            return ("match", s, arms)
        if v == "unsafe":
            self.eat()
            return self.block()
        if v == "{":
            return self.block()
        if v in ("true", "false"):
            self.eat()
            return ("bool", v)
        if re.match(r"^\d+$", v):
            self.eat()
            return ("lit", int(v))
        if v in ("while", "loop", "for"):
            die("loop (`%s`) is outside the supported subset" % v)
        if v.endswith("!") and len(v) > 1:
            return self.macro([self.eat()])
        if v == "|":
            # closure `|a, b| e` (only as the second argument of Iterator::fold, see Gen.tr_fold)
            self.eat("|")
            ps = []
            while self.peek() != "|":
                ps.append(self.ident())
                if self.peek() == ":":
                    die("closure parameter with a type annotation is outside the supported subset")
                if self.peek() == ",":
                    self.eat(",")
            self.eat("|")
            if self.peek() == "{":
                die("closure with a block body is outside the supported subset")
            return ("closure", ps, self.expr())
        if IDENT.match(v) and v not in KEYWORDS:
            segs = [self.eat()]
            generic = None
            while self.peek() == "::":
                self.eat("::")
                if self.peek() == "<":
                    self.eat("<")
                    if segs[0] in OP_TRAITS and len(segs) == 1:
                        generic = ("ty",) + self.type_ref()         # `Add::<&T>::add`: the trait's type argument
                        self.eat_gt()
                        continue
                    generic = self.eat()
                    self.eat(">")
                    continue
                nx = self.eat()
                if nx.endswith("!"):
                    return self.macro(segs + [nx])
                if not IDENT.match(nx):
                    die("bad path segment %r" % nx)
                segs.append(nx)
            if self.peek() == "(" and segs[0] in OP_TRAITS and len(segs) == 2:
                # `Tr::<R>::m(a, b)` / `Tr::m(a, b)`: the method of the impl of Tr<R> for the type of the first argument
                if generic is not None and not isinstance(generic, tuple):
                    die("unexpected const generic on the trait call %s" % "::".join(segs))
                return ("tcall", segs[0], generic[1:] if generic else None, segs[1], self.args())
            if isinstance(generic, tuple):
                die("type argument on %s, which is not a call of an operator-trait method" % "::".join(segs))
            if self.peek() == "(":
                return ("scall", segs, generic, self.args())
            if len(segs) == 1:
                return ("var", segs[0])
            return ("path", segs)
        die("unexpected token %r" % v)

    def macro(self, segs):
        name = segs[-1]
        if name == "option_expect!":
            self.eat("(")
            e = self.expr()
            self.eat(",")
            self.skip_to_close()          # the panic message does not matter to the model
            return ("expect", e)
        if name == "result_expect!":
            self.eat("(")
            e = self.expr()
            self.eat(",")
            self.skip_to_close()
            return ("expect", e)            # Results are translated as options (Err = None)
        if name in ("div_zero!", "rem_zero!"):
            self.eat("(")
            self.eat(")")
            return ("panic",)
        if name == "panic!":
            self.eat("(")
            self.skip_to_close()          # the panic message does not matter to the model
            return ("panic",)
        die("unsupported macro %s" % "::".join(segs))


# ------------------------------------------------------------------------------------------------------------------
# translation
class Gen:
    def __init__(self, selfty, nvar):
        self.S = selfty            # "U" / "I"
        self.nvar = nvar           # Coq name of the first digit-list parameter: N = length of it
        self.k = 0
        self.uses_dbg = False
        self.uses_n = False
        self.in_closure = 0        # > 0 while translating the body of a closure
        self.nontail = 0           # > 0 while translating an operand / condition / let right-hand side (no `return` there)

    def fresh(self):
        self.k += 1
        return "r%d" % self.k

    def n(self):
        if self.nvar is None:
            # an associated function without a BUint/BInt parameter (Bounded::min_value, Zero::zero ..): N is a parameter
            self.uses_n = True
            return "n"
        return "(length %s)" % self.nvar

    def rty(self, t):
        """resolve Self inside a parsed type"""
        if t == "Self":
            return self.S
        if isinstance(t, tuple) and t[0] == "iter":
            return ("iter", self.rty(t[1]), t[2])
        if isinstance(t, tuple):
            return (t[0], self.rty(t[1])) if t[0] in ("opt", "res") else ("tup", [self.rty(x) for x in t[1]])
        return t

    @staticmethod
    def lift(term, eff):
        return term if eff else "(Ret %s)" % term

    @staticmethod
    def wrap(binds, term, ty, eff):
        for x, xt, t in reversed(binds):
            x0 = x
            if xt is not None and "_" not in tshow(xt):           # annotate the binder (needed for tuple patterns)
                x = ("'(%s : %s)" % (x[1:], tshow(xt))) if x.startswith("'") else "(%s : %s)" % (x, tshow(xt))
            if term == x0 and not x0.startswith("'"):
                term, eff = t, True                               # `let x = <outcome>; x`: the outcome itself
            elif eff:
                term = "(obind %s (fun %s => %s))" % (t, x, term)
            else:
                term = "(omap (fun %s => %s) %s)" % (x, term, t)
                eff = True
        return term, ty, eff

    def close(self, r):
        """(binds, term, ty, eff) -> (term, ty, eff): the pending binds are wrapped around the term"""
        binds, term, ty, eff = r
        return self.wrap(binds, term, ty, eff)

    def trc(self, e, env):
        return self.close(self.tr(e, env))

    def seq(self, parts, env, build):
        """translate `parts` left to right; the outcome-valued ones are bound to fresh names (pending binds, wrapped by
        `close` at the enclosing branch / function body); build(list of (pure term, type)) -> (term, ty, eff)"""
        binds, pure = [], []
        for p in parts:
            self.nontail += 1
            b, t, ty, eff = self.tr(p, env)
            self.nontail -= 1
            binds += b
            if eff:
                x = self.fresh()
                binds.append((x, ty, t))
                pure.append((x, ty))
            else:
                pure.append((t, ty))
        term, ty, eff = build(pure)
        return binds, term, ty, eff

    def tyname(self, seg):
        return {"Self": self.S, "$BUint": "U", "$BInt": "I", "$Struct": self.S, "$Int": self.S}.get(seg)

    def call(self, rty, name, vals, generic=None):
        """vals = [(term, type)] receiver first"""
        if rty == "lit":
            rty = "Z"
        if name == "unwrap_unchecked" and isinstance(rty, tuple) and rty[0] == "opt" and len(vals) == 1:
            # undefined behaviour on None: the generated function returns the Option itself, None = "outside the contract"
            return vals[0][0], ("ub", rty[1]), False
        if rty not in ("U", "I", "SD", "Z"):
            die("method .%s() on a value of type %s is outside the vocabulary" % (name, tshow(rty)))
        if name == "to_bits" and rty == "I" and len(vals) == 1:
            return vals[0][0], "U", False
        ent = CALLEES.get((rty, name))
        if ent is None:
            die("no model function for %s::%s (not in the translator's vocabulary)" % (
                {"U": "BUint", "I": "BInt", "SD": "SignedDigit", "Z": "ExpType"}[rty], name))
        tmpl, argtys, ret, eff, dbg = ent
        first = STATIC_FIRST.get((rty, name), rty)
        want = [first] + argtys
        if len(vals) != len(want):
            die("%s: expected %d arguments, got %d" % (name, len(want) - 1, len(vals) - 1))
        for i, ((_, ty), wt) in enumerate(zip(vals, want)):
            if not teq(ty, wt):
                die("%s: argument %d has type %s, expected %s" % (name, i, tshow(ty), tshow(wt)))
        if "{G}" in tmpl:
            if generic not in ("true", "false"):
                die("%s needs a const generic ::<true> / ::<false>" % name)
            tmpl = tmpl.replace("{G}", generic)
        elif generic is not None:
            die("unexpected const generic on %s" % name)
        if dbg:
            self.uses_dbg = True
        if "{n}" in tmpl:
            tmpl = tmpl.replace("{n}", "{N}")
        return "(" + qual(tmpl).format(*[v[0] for v in vals], N=self.n() if "{N}" in tmpl else "") + ")", ret, eff

    def tr(self, e, env):
        """-> (pending binds, term, type, term is outcome-valued?)"""
        k = e[0]
        if k == "var":
            if e[1] == "None" and "None" not in env:
                return [], "None", ("opt", None), False
            if e[1] not in env:
                die("unbound variable %s" % e[1])
            return [], env[e[1]][0], env[e[1]][1], False
        if k == "lit":
            return [], str(e[1]), "lit", False
        if k in ("ref", "deref"):
            return self.tr(e[1], env)                  # values only; reference-ness matters for trait dispatch alone (isref)
        if k == "tcall":
            return self.tr_tcall(e, env)
        if k == "acall":
            # `self.add_assign(x)` on `&mut self`: the impl of AddAssign<type of x> for Self, applied to the current *self
            return self.tr_tcall(("tcall", ASSIGN_METHODS[e[1]], None, e[1], [("var", "self")] + e[2]), env, selfref=False)
        if k == "closure":
            die("closure anywhere but as the second argument of Iterator::fold is outside the supported subset")
        if k == "mcall" and e[2] == "fold":
            return self.tr_fold(e, env)
        if k == "as_exptype":
            def bc(vs):
                t0 = vs[0][1]
                if t0 in ("Z", "lit", "P:u8", "P:u16"):
                    return vs[0][0], "Z", False                   # ExpType -> ExpType, or a widening cast: the value is unchanged
                if isinstance(t0, str) and t0.startswith("P:"):
                    return "(Z.modulo %s (2 ^ 32))" % vs[0][0], "Z", False        # truncating / sign-reinterpreting `as u32`
                die("`as ExpType` on a value of type %s" % tshow(t0))
            return self.seq([e[1]], env, bc)
        if k == "digit0":
            def bd(vs):
                if vs[0][1] not in ("U", "I"):
                    die(".digits[0] on %s" % tshow(vs[0][1]))
                return "(hd 0 %s)" % vs[0][0], "D", False          # N = 0 (where Rust's [0] would not compile) is outside the model
            return self.seq([e[1]], env, bd)
        if k == "bool":
            return [], e[1], "bool", False
        if k == "panic":
            return [], "Panic", None, True
        if k == "path":
            segs = e[1]
            if len(segs) >= 2 and segs[-2] == "Ordering" and segs[-1] in ("Less", "Equal", "Greater"):
                return [], {"Less": "Lt", "Equal": "Eq", "Greater": "Gt"}[segs[-1]], "ord", False
            t = self.tyname(segs[-2]) if len(segs) >= 2 else None
            if t is None or (t, segs[-1]) not in CONSTS:
                die("unknown constant %s" % "::".join(segs))
            tmpl, ty = CONSTS[(t, segs[-1])]
            return [], "(" + qual(tmpl).replace("{n}", self.n()) + ")", ty, False
        if k == "tuple":
            return self.seq(e[1], env, lambda vs: ("(" + ", ".join(v[0] for v in vs) + ")", ("tup", [v[1] for v in vs]), False))
        if k == "field":
            def bf(vs):
                t, ty = vs[0]
                if e[2] == "bits" and ty == "I":
                    return t, "U", False
                if e[2] in ("0", "1") and isinstance(ty, tuple) and ty[0] == "tup" and len(ty[1]) == 2:
                    return "(%s %s)" % ("fst" if e[2] == "0" else "snd", t), ty[1][int(e[2])], False
                die("unsupported field .%s on %s" % (e[2], tshow(ty)))
            return self.seq([e[1]], env, bf)
        if k == "not":
            def bn(vs):
                if vs[0][1] != "bool":
                    die("`!` on a non-bool (%s) is outside the supported subset" % tshow(vs[0][1]))
                return "(negb %s)" % vs[0][0], "bool", False
            return self.seq([e[1]], env, bn)
        if k == "bin":
            op = e[1]
            if op in ("*", "+", "-"):
                # on BUint / BInt operands: std::ops Mul / Add / Sub, i.e. (int/ops.rs impls!, tied in GlueTieC04) the inherent mul / add / sub
                k0 = self.k
                self.nontail += 1
                _, _, tl, _ = self.tr(e[2], env)
                self.nontail -= 1
                self.k = k0
                if tl in ("U", "I") and (self.in_closure or self.isref(e[2], env) or self.isref(e[3], env)):
                    # `a + &b` .. (and every operator of a closure body): the impl generated from the source for these operand types
                    tname = {"*": "Mul", "+": "Add", "-": "Sub"}[op]
                    return self.tr_tcall(("tcall", tname, None, OP_TRAITS[tname], [e[2], e[3]]), env)
                if tl in ("U", "I"):
                    return self.seq([e[2], e[3]], env, lambda vs: self.call(vs[0][1], {"*": "mul", "+": "add", "-": "sub"}[op], vs))

            def bb(vs):
                (a, ta), (b, tb) = vs
                if not teq(ta, tb):
                    die("operator %s on %s and %s" % (op, tshow(ta), tshow(tb)))
                if ta == "bool":
                    f = {"||": "orb %s %s", "&&": "andb %s %s", "|": "orb %s %s", "&": "andb %s %s", "^": "xorb %s %s",
                         "==": "Bool.eqb %s %s", "!=": "negb (Bool.eqb %s %s)"}.get(op)
                    if f is None:
                        die("unsupported boolean operator %s" % op)
                    return "(" + f % (a, b) + ")", "bool", False
                tj = tjoin(ta, tb)
                if tj in INTS:
                    if op in ("+", "-", "%") and tj not in ("Z", "lit"):
                        die("arithmetic operator %s on %s" % (op, tj))
                    if op in ("&", "|", "^") and tj == "SD":
                        die("bitwise operator %s on a signed digit" % op)
                    if op == "%":
                        if not (e[3][0] == "path" and e[3][1][-1] == "BITS"):
                            die("`%` by anything but the constant BITS is outside the supported subset")
                        return "(Z.modulo %s %s)" % (a, b), "Z", False
                    if op in (">", ">="):
                        a, b = b, a
                    f = {"==": "Z.eqb %s %s", "!=": "negb (Z.eqb %s %s)", "<": "Z.ltb %s %s", ">": "Z.ltb %s %s",
                         "<=": "Z.leb %s %s", ">=": "Z.leb %s %s"}.get(op)
                    if f is not None:
                        return "(" + f % (a, b) + ")", "bool", False
                    f = {"&": "Z.land %s %s", "|": "Z.lor %s %s", "^": "Z.lxor %s %s", "+": "Z.add %s %s", "-": "Z.sub %s %s"}.get(op)
                    if f is None:
                        die("unsupported integer operator %s" % op)
                    return "(" + f % (a, b) + ")", ("Z" if tj == "lit" else tj), False
                die("operator %s on %s is outside the supported subset" % (op, tshow(ta)))
            r = self.seq([e[2], e[3]], env, bb)
            if op in ("||", "&&"):
                # the right operand is evaluated lazily in Rust: it must not be able to panic
                k0 = self.k
                br, _, _, effr = self.tr(e[3], env)
                self.k = k0
                if br or effr:
                    die("panicking right operand of %s is outside the supported subset" % op)
            return r
        if k == "expect":
            def be(vs):
                t, ty = vs[0]
                if isinstance(ty, tuple) and ty[0] == "res":
                    return "(match %s with Convert.Ok x => Ret x | Convert.Err => Panic end)" % t, ty[1], True
                if not (isinstance(ty, tuple) and ty[0] == "opt"):
                    die("option_expect! on a non-Option (%s)" % tshow(ty))
                return "(Core.option_expect %s)" % t, ty[1], True
            return self.seq([e[1]], env, be)
        if k == "mcall":
            def bm(vs):
                return self.call(vs[0][1], e[2], vs, e[4])
            return self.seq([e[1]] + e[3], env, bm)
        if k == "scall":
            segs, generic, args = e[1], e[2], e[3]
            name = segs[-1]
            if len(segs) == 1 or self.tyname(segs[-2]) is None:
                if name == "tuple_to_option" and len(args) == 1:
                    def bt(vs):
                        t, ty = vs[0]
                        if not (isinstance(ty, tuple) and ty[0] == "tup" and len(ty[1]) == 2 and ty[1][1] == "bool"):
                            die("tuple_to_option on %s" % tshow(ty))
                        return "(Core.tuple_to_option %s)" % t, ("opt", ty[1][0]), False
                    return self.seq(args, env, bt)
                if segs[-2:] == ["ExpType", "try_from"] and segs[:-2] in ([], ["crate"]) and len(args) == 1:
                    # u32::try_from(x) for a primitive integer x: Ok exactly when 0 <= x <= u32::MAX (a Result, translated as an option)
                    def btf(vs):
                        if vs[0][1] in ("U", "I"):
                            # TryFrom<BUint<M>> / TryFrom<BInt<M>> for u32 (try_from_buint! / uint_try_from_bint!, tied to the
                            # source in Proofs/ConvGenTieC13.v): the hand model of those impls, at pb = 32, unsigned
                            self.uses_dbg = True
                            f_ = "Convert.U_try_to_prim dbg 32 false w" if vs[0][1] == "U" else "Convert.I_try_to_uprim dbg 32 w"
                            return "(%s %s)" % (f_, vs[0][0]), ("res", "Z"), True
                        if not (isinstance(vs[0][1], str) and vs[0][1].startswith("P:")):
                            die("ExpType::try_from on %s" % tshow(vs[0][1]))
                        v_ = vs[0][0]
                        return "(if andb (Z.leb 0 %s) (Z.leb %s u32_max) then Some %s else None)" % (v_, v_, v_), ("opt", "Z"), False
                    return self.seq(args, env, btf)
                if name == "Some" and len(args) == 1:
                    return self.seq(args, env, lambda vs: ("(Some %s)" % vs[0][0], ("opt", vs[0][1]), False))
                die("call of unknown function %s" % "::".join(segs))
            t = self.tyname(segs[-2])
            if name == "from_bits" and t == "I" and len(args) == 1:
                def bfb(vs):
                    if vs[0][1] != "U":
                        die("from_bits on %s" % tshow(vs[0][1]))
                    return vs[0][0], "I", False
                return self.seq(args, env, bfb)
            if not args:
                die("static call %s without arguments" % "::".join(segs))
            return self.seq(args, env, lambda vs: self.call(t, name, vs, generic))
        if k == "if":
            return self.tr_if(e, env)
        if k == "match":
            return self.seq([e[1]], env, lambda vs: self.tr_match(vs[0], e[2], env))
        if k == "block":
            return self.tr_stmts(e[1], e[2], dict(env))
        if k in ("return", "dbgif"):
            return self.tr_tail(e, env)
        if k == "dbgsel":
            self.uses_dbg = True
            (ta, tb), ty, eff = self.branches([self.trc(e[1], env), self.trc(e[2], env)])
            return [], "(if dbg then %s else %s)" % (ta, tb), ty, eff
        die("cannot translate %r" % (e,))

    def isref(self, e, env):
        """is the Rust expression a reference (`&T` / `&mut T`)?  Only variables, `&e` and `*e` are tracked"""
        if e[0] == "ref":
            return True
        if e[0] == "var":
            v = env.get(e[1])
            return bool(v is not None and len(v) > 3 and v[3])
        if e[0] == "deref":
            if not self.isref(e[1], env):
                die("`*` applied to something that is not a tracked reference")
            return False
        return False

    def gcall(self, gname, vals):
        """call of a function generated earlier in this file; vals = [(term, type)]"""
        if gname not in SIGS:
            die("calls %s, which is not generated (yet): outside the supported subset" % gname)
        sg = SIGS[gname]
        if sg is None:
            die("calls %s, which could not be translated (stub)" % gname)
        if sg["n"]:
            die("calls %s, which takes N as a parameter" % gname)
        if len(vals) != len(sg["params"]):
            die("%s: expected %d arguments, got %d" % (gname, len(sg["params"]), len(vals)))
        for i, ((_, ty), wt) in enumerate(zip(vals, sg["params"])):
            if not teq(ty, wt):
                die("%s: argument %d has type %s, expected %s" % (gname, i, tshow(ty), tshow(wt)))
        if sg["dbg"]:
            self.uses_dbg = True
        return "(%s%s w %s)" % (gname, " dbg" if sg["dbg"] else "", " ".join(v[0] for v in vals)), sg["ret"], sg["eff"]

    def tr_tcall(self, e, env, selfref=None):
        """`Tr::<R>::m(a, b)` / `Tr::m(a, b)` / `a + &b`: resolved like rustc does - Self is the type of the first argument
        (reference or not), the trait's type argument is R when given and the type of the second argument otherwise - to the
        impl generated from the source for exactly that (trait, Self, R); no impl, or a stub: this function fails"""
        _, trait, targ, meth, args = e
        if OP_TRAITS.get(trait) != meth:
            die("%s::%s is not the method of that trait" % (trait, meth))
        if len(args) != 2:
            die("%s::%s with %d arguments" % (trait, meth, len(args)))
        sref = self.isref(args[0], env) if selfref is None else selfref
        aref = self.isref(args[1], env)

        def bt(vs):
            sty = vs[0][1]
            if sty not in ("U", "I"):
                die("%s::%s on a first argument of type %s" % (trait, meth, tshow(sty)))
            aty = "Z" if vs[1][1] == "lit" else vs[1][1]
            rref, rty = (aref, aty) if targ is None else (targ[0], self.rty(targ[1]))
            if (rref, rty) != (aref, aty):
                die("%s::<%s%s>::%s applied to a second argument of type %s%s" % (trait, "&" if rref else "", tshow(rty), meth,
                                                                               "&" if aref else "", tshow(aty)))
            key = (trait, sty, sref, rty, rref)
            if key not in IMPLS:
                die(NOT_YET + " %s<%s%s> for %s%s" % (trait, "&" if rref else "", rty, "&" if sref else "", sty))
            return self.gcall(IMPLS[key], vs)
        return self.seq(args, env, bt)

    def tr_fold(self, e, env):
        """`iter.fold(init, |a, b| body)` on an `I: Iterator<Item = T>` parameter (a `list T`): the hand model's left fold over
        outcomes, Ops.fold_out (fun a b => body) iter init (the first panicking step is the result)"""
        if len(e[3]) != 2 or e[3][1][0] != "closure" or len(e[3][1][1]) != 2 or e[4] is not None:
            die("Iterator::fold with anything but (init, |a, b| e)")
        rb, rt, rty, reff = self.tr(e[1], env)
        if rb or reff or not (isinstance(rty, tuple) and rty[0] == "iter"):
            die(".fold on something that is not an Iterator parameter")
        self.nontail += 1
        ib, it, ity, ieff = self.tr(e[3][0], env)
        if ib or ieff or ity not in ("U", "I"):
            die("Iterator::fold: initial value of type %s (or panicking)" % tshow(ity))
        if rty[1] != ity:
            die("Iterator::fold: accumulator %s, items %s" % (tshow(ity), tshow(rty[1])))
        xa, xb = e[3][1][1]
        ca, cb = cname(xa), cname(xb)
        if ca == cb or ca in (v[0] for v in env.values()) or cb in (v[0] for v in env.values()):
            die("closure parameters shadow / repeat a variable")
        env2 = dict(env)
        env2[xa] = (ca, ity, False, False)
        env2[xb] = (cb, rty[1], False, rty[2])
        self.in_closure += 1
        bt_, bty, beff = self.trc(e[3][1][2], env2)
        self.in_closure -= 1
        self.nontail -= 1
        if not teq(bty, ity):
            die("Iterator::fold: the closure returns %s" % tshow(bty))
        return [], "(Ops.fold_out (fun %s %s => %s) %s %s)" % (ca, cb, self.lift(bt_, beff), rt, it), ity, True

    def branches(self, parts):
        """parts = [(term, ty, eff)] (closed) -> lifted terms, joint type, joint eff"""
        ty = None
        for _, t, _ in parts:
            if not teq(ty, t):
                die("branches have different types: %s / %s" % (tshow(ty), tshow(t)))
            ty = tjoin(ty, t)
        eff = any(p[2] for p in parts)
        return [self.lift(p[0], p[2]) if eff else p[0] for p in parts], ty, eff

    def tr_if(self, e, env):
        c, a, b = e[1], e[2], e[3]
        if b is None:
            die("`if` without `else` in expression position")
        if c[0] == "iflet":
            return self.seq([c[2]], env, lambda vs: self.tr_match(vs[0], [(c[1], a), ([("wild",)], b)], env))

        def bi(vs):
            if vs[0][1] != "bool":
                die("`if` condition of type %s" % tshow(vs[0][1]))
            (ta, tb), ty, eff = self.branches([self.trc(a, env), self.trc(b, env)])
            return "(if %s then %s else %s)" % (vs[0][0], ta, tb), ty, eff
        return self.seq([c], env, bi)

    def tr_match(self, scrut, arms, env):
        s, sty = scrut
        parts, pats = [], []
        for alts, body in arms:
            env2 = dict(env)
            ps = []
            for p in alts:
                if p[0] == "wild":
                    ps.append("_")
                elif p[0] == "psome":
                    if not (isinstance(sty, tuple) and sty[0] == "opt"):
                        die("pattern Some(..) against %s" % tshow(sty))
                    if len(alts) > 1:
                        die("Some(..) in an or-pattern")
                    if p[1] == "_":
                        ps.append("Some _")
                    else:
                        x = cname(p[1])
                        self.noshadow(x)
                        env2[p[1]] = (x, sty[1])
                        ps.append("Some %s" % x)
                elif p[0] == "pnone":
                    if not (isinstance(sty, tuple) and sty[0] == "opt"):
                        die("pattern None against %s" % tshow(sty))
                    ps.append("None")
                elif p[0] == "pord":
                    if sty != "ord":
                        die("pattern Ordering::.. against %s" % tshow(sty))
                    ps.append(p[1])
                elif p[0] == "pbool":
                    if sty != "bool":
                        die("pattern %s against %s" % (p[1], tshow(sty)))
                    ps.append(p[1])
                elif p[0] == "ptup":
                    if not (isinstance(sty, tuple) and sty[0] == "tup" and len(sty[1]) == len(p[1]) and all(t == "bool" for t in sty[1])):
                        die("tuple pattern against %s" % tshow(sty))
                    ps.append("(" + ", ".join("_" if q[0] == "wild" else q[1] for q in p[1]) + ")")
                else:
                    die("unsupported pattern %r" % (p,))
            pats.append(" | ".join(ps))
            parts.append(self.trc(body, env2))
        terms, ty, eff = self.branches(parts)
        return "(match %s with %s end)" % (s, " | ".join("%s => %s" % (p, t) for p, t in zip(pats, terms))), ty, eff

    def noshadow(self, x):
        if x == self.nvar:
            die("rebinding %s (the parameter N is read from) is outside the supported subset" % x)

    def tr_tail(self, tail, env):
        if tail[0] == "return":
            if self.nontail:
                die("`return` inside an operand / condition / let right-hand side is outside the supported subset")
            return self.tr(tail[1], env)
        if tail[0] == "dbgif":
            if self.nontail:
                die("debug-assertions split inside an operand is outside the supported subset")
            self.uses_dbg = True
            (ta, tb), ty, eff = self.branches([self.trc(tail[1], env), self.trc(tail[2], env)])
            return [], "(if dbg then %s else %s)" % (ta, tb), ty, eff
        return self.tr(tail, env)

    # ---- statement blocks: assignments and statement-level `if`
    @staticmethod
    def has_assign(blk):
        if blk is None:
            return False
        for st in blk[1]:
            if st[0] == "assign" or (st[0] == "sif" and (Gen.has_assign(st[2]) or Gen.has_assign(st[3]))):
                return True
        t = blk[2]
        return t is not None and t[0] == "if" and P.is_stmt_if(t) and (Gen.has_assign(t[2]) or Gen.has_assign(t[3]))

    @staticmethod
    def assigned(blk, outer, acc):
        """the variables of `outer` assigned somewhere in the statement block, in order of first assignment; dies on
        anything but let / assign / nested assigning `if` (an early return or panic cannot be mixed with assignments)"""
        if blk is None:
            return acc
        local = set()
        stmts = list(blk[1])
        t = blk[2]
        if t is not None:
            if t[0] == "if" and P.is_stmt_if(t):
                stmts.append(("sif", t[1], t[2], t[3]))
            else:
                die("a block that assigns to a `let mut` variable may only contain let / assignment / nested `if` statements")
        for st in stmts:
            if st[0] == "let":
                for x in (st[1] if isinstance(st[1], list) else [st[1]]):
                    local.add(x)
            elif st[0] == "assign":
                if st[1] not in local:
                    if st[1] not in outer:
                        die("assignment to undeclared variable %s" % st[1])
                    if st[1] not in acc:
                        acc.append(st[1])
            elif st[0] == "sif":
                sub = []
                Gen.assigned(st[2], outer, sub)
                Gen.assigned(st[3], outer, sub)
                for x in sub:
                    if x in local:
                        die("assignment in a nested block to a variable declared in the enclosing assigning block")
                    if x not in acc:
                        acc.append(x)
            else:
                die("a block that assigns to a `let mut` variable may only contain let / assignment / nested `if` statements")
        return acc

    def tr_stmts(self, stmts, tail, env, kont=None, frozen=None):
        """kont: what follows when control reaches the end of a block that has no value (a statement block); it returns a
        closed (term, type, eff).  frozen: names that must not be re-bound in this block (the continuation sees them)"""
        if tail is not None and tail[0] == "if" and P.is_stmt_if(tail):
            stmts = list(stmts) + [("sif", tail[1], tail[2], tail[3])]
            tail = None
        if not stmts:
            if tail is None:
                if kont is None:
                    die("a block without a value where a value is needed")
                t, ty, eff = kont()
                return [], t, ty, eff
            return self.tr_tail(tail, env)
        st, rest = stmts[0], stmts[1:]
        if st[0] == "assign":
            v = env.get(st[1])
            if v is None:
                die("assignment to undeclared variable %s" % st[1])
            if not (len(v) > 2 and v[2]):
                die("assignment to %s, which is not declared `let mut`" % st[1])
            st = ("let", st[1], st[2], {st[1]}, v[1])        # straight-line reassignment = shadowing (same type)
        if st[0] == "let":
            pat, ex, muts = st[1], st[2], st[3]
            self.nontail += 1
            binds, t, ty, eff = self.tr(ex, env)
            self.nontail -= 1
            if ty == "lit":
                ty = "Z"
            if len(st) > 4 and not teq(ty, st[4]):
                die("assignment changes the type of %s" % pat)
            env2 = dict(env)
            if isinstance(pat, list):
                if not (isinstance(ty, tuple) and ty[0] == "tup" and len(ty[1]) == len(pat)):
                    die("tuple pattern (%s) against %s" % (", ".join(pat), tshow(ty)))
                names = [cname(p) for p in pat]
                for p, x, pt in zip(pat, names, ty[1]):
                    self.noshadow(x)
                    if frozen is not None and p in frozen:
                        die("re-binding %s inside a block whose continuation is shared is outside the supported subset" % p)
                    env2[p] = (x, pt, p in muts)
                binder = "'(%s)" % ", ".join(names)
            else:
                x = cname(pat)
                if pat == "self" and len(st) > 4:
                    x = "self_new"                     # `*self = e` (a `&mut self` method): N is still read from the parameter
                self.noshadow(x)
                if frozen is not None and pat in frozen and len(st) <= 4:
                    die("re-binding %s inside a block whose continuation is shared is outside the supported subset" % pat)
                env2[pat] = (x, ty, pat in muts)
                if len(st) > 4 and len(env[pat]) > 3:
                    env2[pat] = env2[pat] + (env[pat][3],)          # an assignment through a reference keeps it a reference
                binder = x
            rt, rty, reff = self.close(self.tr_stmts(rest, tail, env2, kont, frozen))
            if eff:
                return binds + [(binder, ty, t)], rt, rty, reff
            return binds, "(let %s := %s in %s)" % (binder, t, rt), rty, reff
        if st[0] == "assert":
            def ba(vs):
                if vs[0][1] != "bool":
                    die("assert! on %s" % tshow(vs[0][1]))
                rt, rty, reff = self.close(self.tr_stmts(rest, tail, env, kont, frozen))
                return "(if %s then %s else Panic)" % (vs[0][0], self.lift(rt, reff)), rty, True
            return self.seq([st[1]], env, ba)
        if st[0] == "sif":
            c, blk_a, blk_b = st[1], st[2], st[3]
            if c[0] == "iflet":
                die("statement-level `if let` is outside the supported subset")
            if self.has_assign(blk_a) or self.has_assign(blk_b):
                # `if c { x = e1; } else { x = e2; }`  ->  let x = if c { e1 } else { e2 }   (several variables: a tuple)
                vs_ = []
                self.assigned(blk_a, env, vs_)
                self.assigned(blk_b, env, vs_)
                if frozen is not None:
                    die("assignment inside a block whose continuation is shared is outside the supported subset")
                val = ("var", vs_[0]) if len(vs_) == 1 else ("tuple", [("var", x) for x in vs_])

                def conv(blk):
                    if blk is None:
                        return ("block", [], val)
                    sts = list(blk[1])
                    if blk[2] is not None:
                        sts.append(("sif", blk[2][1], blk[2][2], blk[2][3]))
                    return ("block", sts, val)
                new = ("let", vs_[0] if len(vs_) == 1 else vs_, ("if", c, conv(blk_a), conv(blk_b)), set(vs_))
                return self.tr_stmts([new] + list(rest), tail, env, kont, frozen)

            def k2():
                return self.close(self.tr_stmts(rest, tail, env, kont, frozen))

            def bg(vs):
                if vs[0][1] != "bool":
                    die("`if` condition of type %s" % tshow(vs[0][1]))
                fz = set(env) | (frozen or set())
                pa = self.close(self.tr_stmts(blk_a[1], blk_a[2], dict(env), k2, fz))
                pb = k2() if blk_b is None else self.close(self.tr_stmts(blk_b[1], blk_b[2], dict(env), k2, fz))
                (ta, tb), ty, eff = self.branches([pa, pb])
                return "(if %s then %s else %s)" % (vs[0][0], ta, tb), ty, eff
            return self.seq([c], env, bg)
        die("cannot translate statement %r" % (st,))


# ------------------------------------------------------------------------------------------------------------------
# calls between generated functions (C17): the registry of the operator-trait impls generated so far
NOT_YET = "no generated impl of"
SIGS = {}      # generated name -> {"dbg": bool, "n": bool, "params": [type], "ret": type, "eff": bool}   (None: a stub)
IMPLS = {}     # (trait, Self type "U"/"I", Self is a reference?, type argument, type argument is a reference?) -> generated name


def impl_key(key, S):
    """`Add<&$Struct<N>> for &$Struct<N>::add` -> (("Add", S, True, S, True), "add"); None when the key is not an impl of one
    of the operator traits for the bnum type itself"""
    m = re.match(r"^(\w+)(?:<(.*)>)? for (&?)(\$\w+)<N>::(\w+)$", key)
    if not m or m.group(1) not in OP_TRAITS or m.group(4) not in ("$Struct", "$BUint", "$BInt"):
        return None
    if m.group(4) != "$Struct" and {"$BUint": "U", "$BInt": "I"}[m.group(4)] != S:
        return None
    rref, rty = False, S
    if m.group(2) is not None:
        g = Gen(S, None)
        pp = P(tokenize(m.group(2)))
        rref, rty = pp.type_ref()
        if pp.peek() is not None:
            return None
        rty = g.rty(rty)
    return (m.group(1), S, m.group(3) == "&", rty, rref), m.group(5)


def split_params(toks, tyvars=None):
    """[(pattern, parsed type, is a reference?, `&mut`?)] from the tokens of a parameter list; pattern = name | [names]"""
    p = P(toks, tyvars)
    res = []
    while p.peek() is not None:
        ref = mut = False
        if p.peek() == "&":
            p.eat()
            ref = True
            if p.peek() == "mut":
                p.eat()
                mut = True
            if p.peek() != "self":
                die("reference pattern in a parameter list is outside the supported subset")
        if p.peek() == "mut":
            die("`mut` parameter is outside the supported subset")
        if p.peek() == "self":
            p.eat()
            res.append(("self", "Self", ref, mut))
        else:
            pat, muts = p.let_pattern()
            if muts:
                die("`mut` parameter is outside the supported subset")
            p.eat(":")
            ref, ty = p.type_ref()
            res.append((pat, ty, ref, False))
        if p.peek() == ",":
            p.eat(",")
        elif p.peek() is not None:
            die("bad parameter list near %r" % p.peek())
    return res


def translate_fn(path, S, name, params_src, ret_src, body_src, selfref=False, tyvars=None):
    """selfref: the impl is `for &Type` (so `self` is a reference); tyvars: the function's generic type parameters"""
    gname = "%s_%s" % (S, name)
    CUR[0] = "%s %s (as %s)" % (path, name, gname)
    if ret_src is None:
        die("no return type / body found")
    if re.search(r"\b(while|loop|for)\b", body_src):
        die("contains a loop; loops are outside the supported subset (list the function in SKIP with a reason if it is modelled by hand)")
    params = split_params(tokenize(params_src), tyvars)
    g0 = Gen(S, None)
    env, binders, prelude, nvar, ptys = {}, [], [], None, []
    mutself = False
    for idx, (pat, pty, pref, pmut) in enumerate(params):
        ty = g0.rty(pty)
        ptys.append(ty)
        if isinstance(pat, list):
            if not (isinstance(ty, tuple) and ty[0] == "tup" and len(ty[1]) == len(pat)):
                die("tuple parameter pattern against %s" % tshow(ty))
            pn = "p%d" % idx
            binders.append("(%s : %s)" % (pn, tshow(ty)))
            names = [cname(x) for x in pat]
            prelude.append("let '(%s) := %s in " % (", ".join(names), pn))
            for x, cx, t in zip(pat, names, ty[1]):
                env[x] = (cx, t)
                if nvar is None and t in ("U", "I"):
                    nvar = cx
        else:
            cx = cname(pat)
            binders.append("(%s : %s)" % (cx, tshow(ty)))
            if pat == "self":
                mutself = pmut
                env[pat] = (cx, ty, pmut, pref or selfref)
            else:
                env[pat] = (cx, ty, False, pref) if pref else (cx, ty)
            if nvar is None and ty in ("U", "I"):
                nvar = cx
    g = Gen(S, nvar)
    bp = P(tokenize(body_src))
    body = bp.block()
    if bp.peek() is not None:
        die("trailing tokens after the function body")
    if mutself:
        # `fn f(&mut self, ..)` without a result: the generated function returns the value *self has at the end
        if ret_src != "()":
            die("`&mut self` method with a result is outside the supported subset")
        if body[2] is not None:
            die("`&mut self` method whose body ends in an expression is outside the supported subset")
        body = ("block", body[1], ("var", "self"))
        ret = S
    else:
        rp = P(tokenize(ret_src))
        ret = g.rty(rp.type_())
        if rp.peek() is not None:
            die("cannot parse return type %s" % ret_src)
    term, ty, eff = g.trc(body, env)
    if isinstance(ty, tuple) and ty[0] == "ub":
        # the whole body is `<option>.unwrap_unchecked()`: the function is generated at type option (None = UB, unmodelled)
        if eff or not teq(ty[1], ret):
            die("unwrap_unchecked: body type %s against the declared return type %s" % (tshow(ty[1]), tshow(ret)))
        ret = ("opt", ret)
    elif not teq(ty, ret):
        die("body has type %s but the declared return type is %s" % (tshow(ty), tshow(ret)))
    coq_ret = ("outcome (%s)" % tshow(ret)) if eff else tshow(ret)
    if g.uses_n and "n" in env:
        die("needs N as a parameter but a variable is called n")
    sig = ("(dbg : bool) " if g.uses_dbg else "") + "(w : Z) " + ("(n : nat) " if g.uses_n else "") + " ".join(binders)
    if term.startswith("(") and term.endswith(")") and balanced(term, 0, "(", ")") == len(term):
        term = term[1:-1]
    text = "Definition %s %s : %s :=\n  %s%s.\n" % (gname, sig.rstrip(), coq_ret, "".join(prelude), term)
    SIGS[gname] = {"dbg": g.uses_dbg, "n": g.uses_n, "params": ptys, "ret": ret, "eff": eff}
    return gname, text


def main():
    load_model_defs()
    for path, pat, what in CONST_SHAPES:
        CUR[0] = path
        if not re.search(pat, strip_comments(open(os.path.join(REPO, path)).read())):
            die("the definition of %s changed" % what)
    for path, text in USES:
        CUR[0] = path
        if re.sub(r"\s+", "", text) not in re.sub(r"\s+", "", strip_comments(open(os.path.join(REPO, path)).read())):
            die("the macro expansion `%s` is no longer there" % text)
    out = ["(* GENERATED on every run by tools/rs2v_glue.py from /repo/src (the non-loop functions of buint/ bint/ int/ :",
           "   checked, wrapping, saturating, strict, overflowing, cmp, ops, bigint_helpers, mod, const_trait_fillers, unchecked,",
           "   numtraits).  Do not edit.  Proofs/GlueTieC*.v prove each definition equal to the hand-written model. *)",
           "From Bnum Require Import Base Prim.",
           "From Bnum.Model Require Import Digit Core Shift AddSub Mul Div Bits Pow.",
           "From Bnum.Model Require Ops Convert.", "", "Module Glue.", ""]
    count = {}
    seen = set()
    failed = {}
    group = sys.argv[sys.argv.index("--for") + 1] if "--for" in sys.argv else None
    forced = {}          # failure -> property, for failures that are not about a function named in a tie file

    def stub(gname, why):
        failed[gname] = why
        SIGS[gname] = None
        return "(* NOT TRANSLATED: %s *)\nDefinition %s : unit := tt.\n" % (why.replace("*)", "* )").replace("(*", "( *"), gname)

    def emit(path, selfs, fns, alias, any_order=False):
        """any_order (the C17 phase): a function that calls an impl generated LATER in the source is emitted after it (the order
        of the impls inside a macro body means nothing in Rust); a function that can never be resolved (it calls itself ..) is a stub"""
        for S in selfs:
            pending = [f for f in fns if f[0] in alias]
            while pending:
                deferred = []
                for f in pending:
                    gname = "%s_%s" % (S, alias[f[0]])
                    ik = impl_key(f[0], S)
                    sm = re.match(r"^(?:Sum|Product)<(&'a)?Self> for ", f[0])
                    DEFER[0] = any_order
                    try:
                        gname, text = translate_fn(path, S, alias[f[0]], *f[1:], selfref=bool(ik and ik[0][2]),
                                                   tyvars={"I": ("iter", "Self", bool(sm.group(1)))} if sm else None)
                    except (SystemExit, Exception) as ex:
                        DEFER[0] = False
                        why = LAST_MSG[0] if isinstance(ex, SystemExit) else repr(ex)
                        if any_order and isinstance(ex, SystemExit) and NOT_YET in why:
                            deferred.append((f, why))
                            continue
                        # this function only: a stub, so that only ITS tie lemma (and its property's check) breaks
                        text = stub(gname, why)
                    DEFER[0] = False
                    if gname in seen:
                        die("duplicate generated name " + gname)
                    seen.add(gname)
                    if ik is not None:
                        # an impl of an operator trait for the bnum type: later functions may call it (C17)
                        if ik[0] in IMPLS:
                            die("two impls of %s" % (ik[0],))
                        IMPLS[ik[0]] = gname
                    out.append(text)
                    count[path] = count.get(path, 0) + 1
                if len(deferred) == len(pending):
                    for f, why in deferred:                      # no progress: these call each other / themselves
                        gname = "%s_%s" % (S, alias[f[0]])
                        seen.add(gname)
                        sys.stderr.write("rs2v_glue: %s\n" % why)
                        out.append(stub(gname, why))
                    break
                pending = [f for f, _ in deferred]

    for path, macro, selfs, wanted, skip in FILES:
        CUR[0] = path
        src = strip_comments(open(os.path.join(REPO, path)).read())
        region = macro_region(src, macro, path) if macro else src
        fns = find_fns(region, path)
        names = [f[0] for f in fns]
        alias = dict((x, x) if isinstance(x, str) else x for x in wanted)       # source key -> name of the generated function
        wanted = list(alias)
        for wn in wanted:
            if names.count(wn) != 1:
                die("function %s found %d times in %s" % (wn, names.count(wn), "macro " + macro if macro else "the file"))
        if macro:
            for n_ in names:
                if n_ not in wanted and n_ not in skip:
                    CUR[0] = "%s %s" % (path, n_)
                    die("function in an in-scope macro body that the translator neither translates nor lists in SKIP")
            for n_ in skip:
                if n_ not in names:
                    CUR[0] = "%s %s" % (path, n_)
                    die("listed in SKIP but no longer in the source")
        out.append("(* ---- %s%s ---- *)" % (path, (" (macro %s)" % macro) if macro else ""))
        emit(path, selfs, fns, alias)
    # ---- functions produced by helper macros (one expansion per listed invocation)
    for dpath, mname, ipath, selfs, insts, skipped in INSTANCES:
        CUR[0] = "%s (macro %s)" % (dpath, mname)
        body = macro_arm_body(macro_region(strip_comments(open(os.path.join(REPO, dpath)).read()), mname, dpath), mname, dpath)
        isrc = strip_comments(open(os.path.join(REPO, ipath)).read())
        found = []
        for m in re.finditer(r"(?<![\w$:])((?:\w+::)*)%s!\s*\(" % re.escape(mname), isrc):
            if m.group(1).startswith("doc::"):                # the documentation macro of the same name
                continue
            found.append(re.sub(r"\s+", "", isrc[m.start():balanced(isrc, m.end() - 1, "(", ")")]))
        listed = sorted(set([re.sub(r"\s+", "", x[0]) for x in insts] + [re.sub(r"\s+", "", x) for x in skipped]))
        for f_ in found:
            if f_ not in listed:
                CUR[0] = "%s %s" % (ipath, f_)
                die("invocation of an in-scope helper macro that the translator neither expands nor lists as skipped")
        for l_ in listed:
            if found.count(l_) != 1:
                CUR[0] = "%s %s" % (ipath, l_)
                die("listed macro invocation found %d times in the source" % found.count(l_))
        out.append("(* ---- %s: expansions of %s! (defined in %s) ---- *)" % (ipath, mname, dpath))
        for inv, subst, alias in insts:
            CUR[0] = "%s %s" % (ipath, inv)
            text = instantiate(body, subst, mname)
            fns = find_fns(text, ipath)
            for f in fns:
                if f[0] not in alias:
                    die("the expansion defines %s, which the instance table does not name" % f[0])
            for k_ in alias:
                if [f[0] for f in fns].count(k_) != 1:
                    die("the expansion does not define %s exactly once" % k_)
            emit("%s %s" % (ipath, inv), selfs, fns, alias)
    # ---- C17: the reference / assign / bnum-amount operator forms (see MACROS17 above)
    path = "src/int/ops.rs"
    CUR[0] = path + " (expansion of impls!)"
    src = strip_comments(open(os.path.join(REPO, path)).read())
    macros = {}
    for mn in MACROS17:
        pat, body = macro_arm(macro_region(src, mn, path), mn)
        macros[mn] = (mparse_pattern(pat), body)
    text = mtext(mexpand(macro_arm(macro_region(src, "impls", path), "impls")[1], macros))
    fns = find_fns(text, path)
    byvalue = [x[0] for fl in FILES if fl[0] == path and fl[1] == "impls" for x in fl[3]]
    out.append("(* ---- %s: the impls produced by %s inside impls! ---- *)" % (path, ", ".join(m_ + "!" for m_ in MACROS17)))
    expect = expect17()
    for S in "UI":
        alias, sel = {}, []
        for f in fns:
            if f[0] in byvalue:
                continue
            an = auto_name(f[0], S)
            if an is None or an not in expect or an in alias.values():
                failed["%s (Self = %s)" % (f[0], S)] = ("an impl in the expansion of impls! that Proofs/GlueTieC17.v has no lemma for"
                                                        if an is None or an not in expect else "produced twice by the expansion of impls!")
                forced["%s (Self = %s)" % (f[0], S)] = "C17"
                continue
            alias[f[0]] = an
            sel.append(f)
        emit("%s impls!" % path, S, sel, alias, any_order=True)
        for an in expect:
            if an not in alias.values():
                CUR[0] = "%s impls! (%s_%s)" % (path, S, an)
                out.append(stub("%s_%s" % (S, an), "the expansion of impls! no longer produces this impl"))
                seen.add("%s_%s" % (S, an))
    # ---- second pass: Default / Sum / Product
    for path, macro, selfs, wanted in FILES2:
        CUR[0] = path
        fns = find_fns(macro_region(strip_comments(open(os.path.join(REPO, path)).read()), macro, path), path)
        alias = dict(wanted)
        out.append("(* ---- %s (macro %s), second pass ---- *)" % (path, macro))
        for wn in alias:
            if [f[0] for f in fns].count(wn) != 1:
                CUR[0] = "%s %s" % (path, wn)
                out.append(stub("%s_%s" % (selfs, alias[wn]), "found %d times in macro %s" % ([f[0] for f in fns].count(wn), macro)))
                seen.add("%s_%s" % (selfs, alias[wn]))
        emit(path, selfs, fns, alias)
    out.append("End Glue.")
    txt = "\n".join(out) + "\n"
    p = os.environ.get("RS2V_GLUE_OUT") or os.path.join(ROOT, "coq", "Generated", "Glue.v")
    if not os.path.exists(p) or open(p).read() != txt:
        open(p, "w").write(txt)
    if failed:
        sys.stderr.write("rs2v_glue: not translated (stub emitted, its tie lemma will not check): %s\n" % ", ".join(sorted(failed)))
        if group is None or any((forced.get(g) or group_of(g)) in (group, None) for g in failed):
            return 1
    if os.environ.get("RS2V_VERBOSE"):
        for k in count:
            print("%-28s %d" % (k, count[k]))
        print("total", sum(count.values()))
    return 0


if __name__ == "__main__":
    sys.exit(main())

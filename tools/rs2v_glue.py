#!/usr/bin/env python3
"""tools/rs2v_glue.py — TRANSLATOR: the "glue" layer of /repo/src  ->  coq/Generated/Glue.v

The glue layer is the set of one-line projection functions of bnum (checked_* = tuple_to_option(overflowing_*),
wrapping_* = overflowing_*.0, saturating_*, strict_* = option_expect!(checked_*), the inherent add/sub/mul/shl/shr that
switch on cfg(debug_assertions), max/min/clamp/lt/le/gt/ge, carrying_add/borrowing_sub, the non-loop overflowing_* forms).
Each such `const fn` of the files in FILES below is re-translated FROM /repo's CURRENT SOURCE ON EVERY RUN into a
Gallina definition over the hand-written model functions (coq/Model/*.v): a call `x.f(args)` becomes the model function
`U_f` / `I_f` (by the static type of the receiver) applied to the translated arguments.  coq/Proofs/GlueTie.v proves
every generated definition equal, for all arguments, to the hand-written model function of the same name — so an edit
of the Rust source that changes what a glue function delegates to changes the generated definition and breaks a proof
obligation, while a behaviour-preserving rewrite inside the supported subset still goes through.

Supported subset (anything else in an in-scope function: exit 1 with the function name; never a silent skip):
  statements   let x = e;   let (a, b) = e;   assert!(c);   if c { div_zero!() }   if c { return e; }   return e;
               #[cfg(debug_assertions)] return e1;  #[cfg(not(debug_assertions))] e2      ->  if dbg then e1 else e2
  expressions  x.f(args)   Self::f(args) / $BUint::f::<B>(args)   x.0 x.1 x.bits   (a, b)   Some(e) None true false 123
               tuple_to_option(e)   option_expect!(e, msg)   div_zero!()   Self::CONST / $BUint::CONST / $BInt::CONST
               if c { a } else { b }   if let P = e { a } else { b }   match e { P | Q => a, _ => b }
               ! == != < <= > >= || && ^ | & + -   &e (transparent)   unsafe { .. } / { .. } blocks
               x.to_bits() / Self::from_bits(x) (identity on the digit list; they only change the static type)
  patterns     Some(x)  None  Ordering::Less|Equal|Greater  true false  _
Rust panics are `outcome` (Ret / Panic): an expression that contains a call of an outcome-valued model function is
sequenced left to right with obind, the last bind being omap when the continuation is pure (so `f(x).0` is
`omap (fun r => fst r) (F x)` and `(g(x), false)` is `omap (fun r => (r, false)) (G x)`, as in the hand model).
Functions that are out of scope are listed in the SKIP tables below with the reason; a function of an in-scope macro
body that is neither wanted nor skipped makes the translator fail (the source grew something the tie does not cover).
Writes coq/Generated/Glue.v only when the content changes; deterministic."""
import re, sys, os

REPO = os.environ.get("BNUM_REPO", "/repo")
ROOT = os.path.dirname(os.path.dirname(os.path.abspath(__file__)))
CUR = ["?"]          # function being translated (for error messages)


LAST_MSG = [""]


def group_of(gname):
    """the property whose tie file (Proofs/GlueTie<Cxx>.v) states the lemma about Glue.<gname>"""
    import glob
    for f in sorted(glob.glob(os.path.join(ROOT, "coq", "Proofs", "GlueTieC*.v"))):
        if re.search(r"\bGlue\.%s\b" % re.escape(gname), open(f).read()):
            return os.path.basename(f)[len("GlueTie"):-2]
    return None


def die(msg):
    LAST_MSG[0] = "%s: %s" % (CUR[0], msg)
    sys.stderr.write("rs2v_glue: %s: %s\n" % (CUR[0], msg))
    sys.exit(1)


# ------------------------------------------------------------------------------------------------------------------
# scope: (file, macro whose body holds the functions, Self types to instantiate, wanted functions, SKIP table)
LOOP = "contains a loop (`while`); modelled by hand as a recursion with its own proofs"
HAND = "not glue: multi-branch algorithm modelled by hand (branch by branch) with its own proofs"
FILES = [
    ("src/buint/checked.rs", "checked", "U",
     ["checked_add", "checked_add_signed", "checked_sub", "checked_mul", "div_rem", "checked_div", "checked_div_euclid",
      "checked_rem", "checked_rem_euclid", "checked_neg", "checked_shl", "checked_shr"],
     {"div_rem_digit": LOOP, "div_rem_unchecked": HAND + " (Model/Div.v U_div_rem_unchecked; indexes digits)",
      "checked_pow": LOOP, "checked_next_multiple_of": HAND + " (U_checked_next_multiple_of)",
      "checked_ilog2": HAND + " (Model/Pow.v; calls bits())", "iilog": "recursive; " + HAND,
      "checked_ilog10": HAND + " (early returns, iilog)", "checked_ilog": HAND + " (early returns, iilog)",
      "checked_next_power_of_two": HAND + " (Model/Bits.v U_checked_next_power_of_two)"}),
    ("src/buint/wrapping.rs", "wrapping", "U",
     ["wrapping_add", "wrapping_add_signed", "wrapping_sub", "wrapping_mul", "wrapping_div", "wrapping_div_euclid",
      "wrapping_rem", "wrapping_rem_euclid", "wrapping_neg", "wrapping_shl", "wrapping_shr", "wrapping_next_power_of_two"],
     {"wrapping_pow": LOOP}),
    ("src/buint/saturating.rs", "saturating", "U",
     ["saturate_up", "saturate_down", "saturating_add", "saturating_add_signed", "saturating_sub", "saturating_mul",
      "saturating_div", "saturating_pow"], {}),
    ("src/int/strict.rs", "impls", "UI",
     ["strict_add", "strict_sub", "strict_mul", "strict_div", "strict_div_euclid", "strict_rem", "strict_rem_euclid",
      "strict_neg", "strict_shl", "strict_shr", "strict_pow"], {}),
    ("src/buint/strict.rs", "strict", "U", ["strict_add_signed"], {}),
    ("src/bint/strict.rs", "strict", "I", ["strict_abs", "strict_add_unsigned", "strict_sub_unsigned"], {}),
    ("src/int/ops.rs", "trait_fillers", "UI", ["add", "mul", "shl", "shr", "sub"], {}),
    ("src/int/cmp.rs", "impls", "UI", ["max", "min", "clamp", "lt", "le", "gt", "ge"], {}),
    ("src/int/bigint_helpers.rs", "impls", "UI", ["carrying_add", "borrowing_sub"], {}),
    ("src/bint/checked.rs", "checked", "I",
     ["checked_add", "checked_add_unsigned", "checked_sub", "checked_sub_unsigned", "checked_mul", "checked_div",
      "checked_div_euclid", "checked_rem", "checked_rem_euclid", "checked_neg", "checked_shl", "checked_shr", "checked_abs"],
     {"checked_pow": HAND + " (Model/Pow.v I_checked_pow)",
      "checked_next_multiple_of": HAND + " (early returns; I_checked_next_multiple_of)",
      "checked_ilog": HAND + " (Model/Pow.v I_checked_ilog)"}),
    ("src/bint/wrapping.rs", "wrapping", "I",
     ["wrapping_add", "wrapping_add_unsigned", "wrapping_sub", "wrapping_sub_unsigned", "wrapping_mul", "wrapping_div",
      "wrapping_div_euclid", "wrapping_rem", "wrapping_rem_euclid", "wrapping_neg", "wrapping_shl", "wrapping_shr",
      "wrapping_abs", "wrapping_pow"], {}),
    ("src/bint/saturating.rs", "saturating", "I",
     ["saturating_add", "saturating_add_unsigned", "saturating_sub", "saturating_sub_unsigned", "saturating_mul",
      "saturating_div", "saturating_neg", "saturating_abs", "saturating_pow"], {}),
    ("src/buint/overflowing.rs", "overflowing", "U",
     ["overflowing_add_signed", "overflowing_mul", "overflowing_div", "overflowing_div_euclid", "overflowing_rem",
      "overflowing_rem_euclid", "overflowing_neg", "overflowing_shl", "overflowing_shr"],
     {"overflowing_add": LOOP, "overflowing_sub": LOOP, "overflowing_pow": LOOP}),
    ("src/bint/overflowing.rs", "overflowing", "I",
     ["overflowing_add_unsigned", "overflowing_sub_unsigned", "overflowing_mul", "overflowing_rem", "overflowing_shl",
      "overflowing_shr", "overflowing_abs"],
     {"overflowing_add": LOOP, "overflowing_sub": LOOP, "overflowing_neg": LOOP,
      "div_rem_unchecked": HAND + " (Model/Div.v I_div_rem_unchecked; early return, match on a pair of bools)",
      "overflowing_div": HAND + " (I_overflowing_div; nested early returns)",
      "overflowing_div_euclid": HAND + " (I_overflowing_div_euclid; nested early returns)",
      "overflowing_rem_euclid": HAND + " (I_overflowing_rem_euclid; `let mut` with assignments)",
      "overflowing_pow": HAND + " (Model/Pow.v I_overflowing_pow; `let mut` with assignments)"}),
    # a single glue function out of a file that is otherwise loops: macro None = search the whole file, other functions ignored
    ("src/buint/mod.rs", None, "U", ["unchecked_shr_internal"], {}),
]
# associated constants whose defining expression the translation relies on (checked textually, like rs2v_config.py)
CONST_SHAPES = [
    ("src/bint/overflowing.rs", r"const BITS_MINUS_1:\s*ExpType\s*=\s*\(Self::BITS - 1\) as ExpType;", "BInt::BITS_MINUS_1 = BITS - 1"),
]

# where the macros above are expanded (checked textually: the translated bodies must be the ones the types really get)
USES = [("src/buint/strict.rs", "crate::int::strict::impls!(U);"), ("src/bint/strict.rs", "crate::int::strict::impls!(I);"),
        ("src/buint/const_trait_fillers.rs", "crate::int::cmp::impls!();"), ("src/bint/const_trait_fillers.rs", "crate::int::cmp::impls!();"),
        ("src/buint/const_trait_fillers.rs", "crate::int::ops::trait_fillers!();"), ("src/bint/const_trait_fillers.rs", "crate::int::ops::trait_fillers!();"),
        ("src/buint/bigint_helpers.rs", "crate::int::bigint_helpers::impls!(U);"), ("src/bint/bigint_helpers.rs", "crate::int::bigint_helpers::impls!(I);")]
USES += [(f[0], "crate::macro_impl!(%s);" % f[1]) for f in FILES if f[1] and not f[0].startswith("src/int/")]

# ------------------------------------------------------------------------------------------------------------------
# types:  "U" (BUint digit list)  "I" (BInt digit list)  "bool"  "Z" (ExpType/u32)  "ord"  ("opt", T)  ("tup", [T..])
# None is the unknown type of `None` / a diverging expression


def teq(a, b):
    if a is None or b is None:
        return True
    if isinstance(a, tuple) and isinstance(b, tuple):
        if a[0] != b[0]:
            return False
        if a[0] == "opt":
            return teq(a[1], b[1])
        return len(a[1]) == len(b[1]) and all(teq(x, y) for x, y in zip(a[1], b[1]))
    return a == b


def tjoin(a, b):
    if a is None:
        return b
    if b is None:
        return a
    if isinstance(a, tuple) and isinstance(b, tuple) and a[0] == b[0]:
        if a[0] == "opt":
            return ("opt", tjoin(a[1], b[1]))
        return ("tup", [tjoin(x, y) for x, y in zip(a[1], b[1])])
    return a


def tshow(t):
    if t is None:
        return "_"
    if isinstance(t, tuple):
        return "option (%s)" % tshow(t[1]) if t[0] == "opt" else "(" + " * ".join(tshow(x) for x in t[1]) + ")"
    return {"U": "list Z", "I": "list Z", "bool": "bool", "Z": "Z", "ord": "comparison"}[t]


def tup(*ts):
    return ("tup", list(ts))


def opt(t):
    return ("opt", t)


# ------------------------------------------------------------------------------------------------------------------
# the vocabulary: Rust method (by receiver type) -> model function.   entry = (template, [arg types], result type, outcome?, uses dbg?)
# {0} is the receiver (or first argument of a static call), {1}.. the other arguments.
CALLEES = {}


def reg(s, name, args, ret, eff=False, dbg=False, w=True, head=None):
    h = head or ("%s_%s" % (s, name))
    tmpl = h + (" dbg" if dbg else "") + (" w" if w else "") + "".join(" {%d}" % i for i in range(len(args) + 1))
    CALLEES[(s, name)] = (tmpl, args, ret, eff, dbg)


def raw(s, name, tmpl, args, ret, eff=False, dbg=False):
    CALLEES[(s, name)] = (tmpl, args, ret, eff, dbg)


for S in ("U", "I"):
    sg = S == "I"
    for op in ("add", "sub", "mul"):
        reg(S, "overflowing_" + op, [S], tup(S, "bool"))
        reg(S, "checked_" + op, [S], opt(S))
        reg(S, "wrapping_" + op, [S], S)
        reg(S, "saturating_" + op, [S], S)
        reg(S, "strict_" + op, [S], S, eff=True)
        reg(S, op, [S], S, eff=True, dbg=True)
    for op in ("div", "rem", "div_euclid", "rem_euclid"):
        reg(S, "overflowing_" + op, [S], tup(S, "bool"), eff=True, dbg=sg)
        reg(S, "checked_" + op, [S], opt(S), eff=sg, dbg=sg)
        reg(S, "wrapping_" + op, [S], S, eff=True, dbg=sg)
        reg(S, op, [S], S, eff=True, dbg=sg)
    reg(S, "saturating_div", [S], S, eff=True, dbg=sg)
    reg(S, "div_rem_unchecked", [S], tup(S, S), eff=sg, dbg=sg)
    reg(S, "carrying_add", [S, "bool"], tup(S, "bool"))
    reg(S, "borrowing_sub", [S, "bool"], tup(S, "bool"))
    reg(S, "overflowing_neg", [], tup(S, "bool"))
    reg(S, "checked_neg", [], opt(S), w=sg)            # U_checked_neg takes no digit width
    reg(S, "wrapping_neg", [], S)
    reg(S, "strict_neg", [], S, eff=True, w=sg)        # U_strict_neg takes no digit width
    for op in ("shl", "shr"):
        reg(S, "overflowing_" + op, ["Z"], tup(S, "bool"))
        reg(S, "checked_" + op, ["Z"], opt(S))
        reg(S, "wrapping_" + op, ["Z"], S)
        reg(S, "strict_" + op, ["Z"], S, eff=True)
        reg(S, op, ["Z"], S, eff=True, dbg=True)
    reg(S, "overflowing_pow", ["Z"], tup(S, "bool"))
    reg(S, "checked_pow", ["Z"], opt(S))
    reg(S, "wrapping_pow", ["Z"], S)
    reg(S, "saturating_pow", ["Z"], S)
    reg(S, "strict_pow", ["Z"], S, eff=True)
    reg(S, "pow", ["Z"], S, eff=True, dbg=True)
    raw(S, "is_zero", "is_zero {0}", [], "bool")
    raw(S, "is_one", "is_one {0}", [], "bool")
    raw(S, "eq", "eq_digits {0} {1}", [S], "bool")
    raw(S, "not", "bitnot w {0}", [], S)
    cmpf = "icmp w" if sg else "ucmp"
    raw(S, "cmp", cmpf + " {0} {1}", [S], "ord")
    for c in ("lt", "le", "gt", "ge"):
        raw(S, c, "cmp_%s (%s {0} {1})" % (c, cmpf), [S], "bool")
reg("U", "overflowing_add_signed", ["I"], tup("U", "bool"))
reg("U", "checked_add_signed", ["I"], opt("U"))
reg("U", "wrapping_add_signed", ["I"], "U")
reg("U", "saturating_add_signed", ["I"], "U")
raw("U", "long_mul", "long_mul w {0} {1}", ["U"], tup("U", "bool"))
reg("U", "checked_next_power_of_two", [], opt("U"), eff=True)
raw("U", "saturate_up", "saturate_up w {0}", [], "U")                   # static: Self::saturate_up(pair)
raw("U", "saturate_down", "saturate_down {0}", [], "U")
raw("U", "unchecked_shl_internal", "shl_internal w {0} {1}", ["Z"], "U")
raw("U", "unchecked_shr_internal", "shr_pad_internal w false {0} {1}", ["Z"], "U")
raw("U", "unchecked_shr_pad_internal", "shr_pad_internal w {G} {0} {1}", ["Z"], "U")   # {G} = the const generic NEG
for op in ("add", "sub"):
    reg("I", "overflowing_%s_unsigned" % op, ["U"], tup("I", "bool"))
    reg("I", "checked_%s_unsigned" % op, ["U"], opt("I"))
    reg("I", "wrapping_%s_unsigned" % op, ["U"], "I")
    reg("I", "saturating_%s_unsigned" % op, ["U"], "I")
reg("I", "overflowing_abs", [], tup("I", "bool"))
reg("I", "checked_abs", [], opt("I"))
reg("I", "wrapping_abs", [], "I")
reg("I", "saturating_abs", [], "I")
reg("I", "saturating_neg", [], "I")
reg("I", "strict_abs", [], "I", eff=True)
reg("I", "neg", [], "I", eff=True, dbg=True)
reg("I", "abs", [], "I", eff=True, dbg=True)
reg("I", "unsigned_abs", [], "U")
raw("I", "is_negative", "is_negative w {0}", [], "bool")
# the receiver type of saturate_up/down's argument is a pair: handled in static calls by the declared first-argument type
STATIC_FIRST = {("U", "saturate_up"): tup("U", "bool"), ("U", "saturate_down"): tup("U", "bool")}

CONSTS = {("U", "MAX"): ("UMAX w {n}", "U"), ("U", "MIN"): ("ZERO {n}", "U"), ("U", "ZERO"): ("ZERO {n}", "U"),
          ("U", "ONE"): ("ONE {n}", "U"), ("U", "BITS"): ("bits w {n}", "Z"),
          ("I", "MAX"): ("IMAX w {n}", "I"), ("I", "MIN"): ("IMIN w {n}", "I"), ("I", "ZERO"): ("ZERO {n}", "I"),
          ("I", "ONE"): ("ONE {n}", "I"), ("I", "NEG_ONE"): ("NEG_ONE w {n}", "I"), ("I", "BITS"): ("bits w {n}", "Z"),
          ("I", "BITS_MINUS_1"): ("Z.sub (bits w {n}) 1", "Z")}

COQ_RESERVED = {"as", "at", "cofix", "else", "end", "exists", "exists2", "fix", "for", "forall", "fun", "if", "IF", "in",
                "let", "match", "mod", "Prop", "return", "Set", "then", "Type", "using", "where", "with", "w", "dbg",
                "fst", "snd", "length", "Some", "None", "true", "false", "Ret", "Panic", "Lt", "Eq", "Gt", "negb", "orb",
                "andb", "xorb", "omap", "obind", "bits", "Z", "bool", "list", "option", "outcome", "comparison"}


MODEL_FILES = ["Digit", "Core", "Shift", "AddSub", "Mul", "Div", "Bits", "Pow"]      # coq/Model/<X>.v, in import order
MODEL_DEFS = {}


def load_model_defs():
    """name -> module of every Definition / Fixpoint of the hand-written model files: generated code refers to the
    model by qualified name (AddSub.U_checked_add), so a generated Glue.U_checked_add never shadows its own target"""
    for mod in MODEL_FILES:
        src = open(os.path.join(ROOT, "coq", "Model", mod + ".v")).read()
        for m in re.finditer(r"^\s*(?:Definition|Fixpoint)\s+([A-Za-z_][\w']*)", src, re.M):
            MODEL_DEFS.setdefault(m.group(1), []).append(mod)


QUAL_SKIP = {"w", "dbg", "n", "G", "false", "true", "Z"}


def qual(tmpl):
    """qualify every model identifier of a template; an identifier that is not a Base/Prim/stdlib name and not in the
    model makes the translator fail (the vocabulary table is out of date)"""
    def f(m):
        x = m.group(0)
        if m.start() > 0 and tmpl[m.start() - 1] in ".{":
            return x
        if x in MODEL_DEFS:
            if len(MODEL_DEFS[x]) != 1:
                die("model name %s is defined in several model files: %s" % (x, MODEL_DEFS[x]))
            return MODEL_DEFS[x][0] + "." + x
        if x in QUAL_SKIP or x in ("bits", "sub", "land") or x == "Z":
            return x
        die("vocabulary names %s, which is not defined in coq/Model/{%s}.v" % (x, ",".join(MODEL_FILES)))
    return re.sub(r"[A-Za-z_][\w']*", f, tmpl)


def cname(x):
    return x + "_" if x in COQ_RESERVED else x


# ------------------------------------------------------------------------------------------------------------------
# source extraction
def strip_comments(s):
    s = re.sub(r"/\*.*?\*/", "", s, flags=re.S)
    return re.sub(r"//[^\n]*", "", s)


def balanced(src, i, op, cl):
    """src[i] == op; returns the index just after the matching cl"""
    assert src[i] == op
    d = 0
    while True:
        if i >= len(src):
            die("unbalanced %s" % op)
        d += {op: 1, cl: -1}.get(src[i], 0)
        i += 1
        if d == 0:
            return i


def macro_region(src, name, path):
    m = re.search(r"macro_rules!\s*%s\s*\{" % re.escape(name), src)
    if not m:
        die("macro_rules! %s not found in %s" % (name, path))
    return src[m.end() - 1:balanced(src, m.end() - 1, "{", "}")]


FN_RE = re.compile(r"(?:pub(?:\(\w+\))?\s+)?const\s+(?:unsafe\s+)?fn\s+(\$?\w+)\s*(<[^>(]*>)?\s*\(")


def find_fns(region, path):
    res = []
    for m in FN_RE.finditer(region):
        name = m.group(1)
        i = m.end() - 1
        j = balanced(region, i, "(", ")")
        rm = re.match(r"\s*->\s*([^{;]+)\{", region[j:])
        if not rm:
            res.append((name, region[i + 1:j - 1], None, None))     # no return type: only translatable functions need one
            continue
        k = j + rm.end() - 1
        e = balanced(region, k, "{", "}")
        res.append((name, region[i + 1:j - 1], rm.group(1).strip(), region[k:e]))
    return res


# ------------------------------------------------------------------------------------------------------------------
# tokenizer / parser
TOK = re.compile(r"\s*(?:(#\s*\[)|(\d+)|(\"(?:[^\"\\]|\\.)*\")|(\$?[A-Za-z_][A-Za-z0-9_]*)|(::|=>|->|<<|>>|\|\||&&|==|!=|<=|>=|[-+*/%|&^<>!=(){}\[\],;:.]))")


def tokenize(s):
    out, i = [], 0
    while i < len(s):
        m = TOK.match(s, i)
        if not m:
            if s[i:].strip() == "":
                break
            die("cannot tokenize near: " + s[i:i + 40].strip())
        if m.group(1):
            k = m.end() - 1
            e = balanced(s, k, "[", "]")
            out.append("#" + re.sub(r"\s+", "", s[k + 1:e - 1]))
            i = e
            continue
        i = m.end()
        if m.group(4):
            mm = re.match(r"!\s*(?=[(\[{])", s[i:])
            if mm and m.group(4) not in ("if", "match", "return", "while"):
                out.append(m.group(4) + "!")
                i += 1
                continue
        out.append(m.group(2) or m.group(3) or m.group(4) or m.group(5))
    return out


IDENT = re.compile(r"^\$?[A-Za-z_]\w*$")
KEYWORDS = {"if", "else", "match", "let", "return", "unsafe", "true", "false", "mut", "while", "loop", "for", "as", "in", "ref", "move"}


class P:
    def __init__(self, toks):
        self.t, self.i = toks, 0

    def peek(self, k=0):
        return self.t[self.i + k] if self.i + k < len(self.t) else None

    def eat(self, x=None):
        v = self.peek()
        if v is None:
            die("unexpected end of function body" + (" (expected %r)" % x if x else ""))
        if x is not None and v != x:
            die("expected %r, got %r (near: %s)" % (x, v, " ".join(self.t[max(0, self.i - 6):self.i + 4])))
        self.i += 1
        return v

    def ident(self):
        v = self.eat()
        if not IDENT.match(v) or v in KEYWORDS:
            die("expected an identifier, got %r" % v)
        return v

    # ---- types
    def type_(self):
        v = self.peek()
        if v == "&":
            self.eat()
            return self.type_()
        if v == "(":
            self.eat("(")
            ts = [self.type_()]
            while self.peek() == ",":
                self.eat(",")
                ts.append(self.type_())
            self.eat(")")
            return ("tup", ts)
        segs = [self.ident()]
        while self.peek() == "::":
            self.eat("::")
            segs.append(self.ident())
        name = segs[-1]
        if name == "Option":
            self.eat("<")
            t = self.type_()
            self.eat(">")
            return ("opt", t)
        if name in ("$BUint", "$BInt"):
            if self.peek() == "<":
                self.eat("<")
                self.eat("N")
                self.eat(">")
            return "U" if name == "$BUint" else "I"
        if name == "Self":
            return "Self"
        if name in ("ExpType", "u32"):
            return "Z"
        if name == "bool":
            return "bool"
        if name == "Ordering":
            return "ord"
        die("unsupported type %s" % "::".join(segs))

    # ---- blocks and statements
    def block(self):
        """'{' stmt* tail '}'  ->  ('block', [stmt], tail)   stmt = ('let', pat, e) | ('assert', c) | ('guard', c, then-tail)
        tail = expr | ('return', e) | ('dbgif', e1, e2)"""
        self.eat("{")
        stmts = []
        while True:
            v = self.peek()
            if v == "let":
                self.eat("let")
                if self.peek() == "mut":
                    die("`let mut` is outside the supported subset")
                pat = self.let_pattern()
                if self.peek() == ":":
                    self.eat(":")
                    self.type_()
                self.eat("=")
                e = self.expr()
                self.eat(";")
                stmts.append(("let", pat, e))
            elif v == "assert!":
                self.eat()
                self.eat("(")
                c = self.expr()
                if self.peek() == ",":
                    self.skip_to_close()
                else:
                    self.eat(")")
                self.eat(";")
                stmts.append(("assert", c))
            elif v is not None and v.startswith("#"):
                if v != "#cfg(debug_assertions)":
                    die("unsupported attribute %s inside a function body" % v)
                self.eat()
                self.eat("return")
                e1 = self.expr()
                self.eat(";")
                if self.peek() != "#cfg(not(debug_assertions))":
                    die("expected #[cfg(not(debug_assertions))] after the debug-assertions return")
                self.eat()
                e2 = self.expr()
                self.eat("}")
                return ("block", stmts, ("dbgif", e1, e2))
            elif v == "return":
                self.eat("return")
                e = self.expr()
                if self.peek() == ";":
                    self.eat(";")
                self.eat("}")
                return ("block", stmts, ("return", e))
            elif v in ("while", "loop", "for"):
                die("loop (`%s`) is outside the supported subset" % v)
            else:
                e = self.expr()
                if self.peek() == "}":
                    self.eat("}")
                    return ("block", stmts, e)
                # a statement-level `if c { diverge }` (no else) followed by more code
                if e[0] == "if" and e[3] is None:
                    if self.peek() == ";":
                        self.eat(";")
                    stmts.append(("guard", e[1], e[2]))
                    continue
                die("expression statement is outside the supported subset (near %r)" % self.peek())

    def skip_to_close(self):
        d = 1
        while d:
            v = self.eat()
            if v in ("(", "[", "{"):
                d += 1
            elif v in (")", "]", "}"):
                d -= 1

    def let_pattern(self):
        if self.peek() == "(":
            self.eat("(")
            ns = [self.ident()]
            while self.peek() == ",":
                self.eat(",")
                ns.append(self.ident())
            self.eat(")")
            return ns
        return self.ident()

    def match_pattern(self):
        alts = [self.pat1()]
        while self.peek() == "|":
            self.eat("|")
            alts.append(self.pat1())
        return alts

    def pat1(self):
        v = self.peek()
        if v == "_":
            self.eat()
            return ("wild",)
        if v in ("true", "false"):
            self.eat()
            return ("pbool", v)
        segs = [self.ident()]
        while self.peek() == "::":
            self.eat("::")
            segs.append(self.ident())
        if segs[-1] == "Some":
            self.eat("(")
            x = "_" if self.peek() == "_" else None
            if x:
                self.eat()
            else:
                x = self.ident()
            self.eat(")")
            return ("psome", x)
        if segs[-1] == "None":
            return ("pnone",)
        if len(segs) >= 2 and segs[-2] == "Ordering" and segs[-1] in ("Less", "Equal", "Greater"):
            return ("pord", {"Less": "Lt", "Equal": "Eq", "Greater": "Gt"}[segs[-1]])
        die("unsupported pattern %s" % "::".join(segs))

    # ---- expressions
    LEVELS = [["||"], ["&&"], ["==", "!=", "<", ">", "<=", ">="], ["|"], ["^"], ["&"], ["<<", ">>"], ["+", "-"], ["*", "/", "%"]]

    def expr(self, lvl=0, nostruct=False):
        if lvl == len(self.LEVELS):
            return self.unary(nostruct)
        e = self.expr(lvl + 1, nostruct)
        while self.peek() in self.LEVELS[lvl]:
            op = self.eat()
            r = self.expr(lvl + 1, nostruct)
            e = ("bin", op, e, r)
        return e

    def unary(self, nostruct):
        v = self.peek()
        if v == "!":
            self.eat()
            return ("not", self.unary(nostruct))
        if v == "&":
            self.eat()
            if self.peek() == "mut":
                die("`&mut` is outside the supported subset")
            return self.unary(nostruct)
        if v == "*":
            self.eat()
            return self.unary(nostruct)
        if v == "-":
            die("unary minus is outside the supported subset")
        e = self.postfix()
        if self.peek() == "as":
            die("`as` cast is outside the supported subset")
        return e

    def args(self):
        self.eat("(")
        a = []
        while self.peek() != ")":
            a.append(self.expr())
            if self.peek() == ",":
                self.eat(",")
            elif self.peek() != ")":
                die("expected , or ) in argument list, got %r" % self.peek())
        self.eat(")")
        return a

    def postfix(self):
        e = self.primary()
        while True:
            if self.peek() == ".":
                self.eat(".")
                name = self.eat()
                if self.peek() == "(":
                    e = ("mcall", e, name, self.args())
                else:
                    e = ("field", e, name)
            elif self.peek() == "[":
                die("indexing is outside the supported subset")
            elif self.peek() == "?":
                die("`?` is outside the supported subset")
            else:
                return e

    def if_(self):
        self.eat("if")
        if self.peek() == "let":
            self.eat("let")
            pat = self.match_pattern()
            self.eat("=")
            c = ("iflet", pat, self.expr(0, True))
        else:
            c = self.expr(0, True)
        a = self.block()
        b = None
        if self.peek() == "else":
            self.eat("else")
            if self.peek() == "if":
                b = ("block", [], self.if_())
            else:
                b = self.block()
        return ("if", c, a, b)

    def primary(self):
        v = self.peek()
        if v is None:
            die("unexpected end of body")
        if v == "(":
            self.eat("(")
            es = [self.expr()]
            trailing = False
            while self.peek() == ",":
                self.eat(",")
                trailing = True
                if self.peek() == ")":
                    break
                es.append(self.expr())
            self.eat(")")
            if len(es) == 1:
                if trailing:
                    die("1-tuple is outside the supported subset")
                return es[0]
            return ("tuple", es)
        if v == "if":
            return self.if_()
        if v == "match":
            self.eat("match")
            s = self.expr(0, True)
            self.eat("{")
            arms = []
            while self.peek() != "}":
                pat = self.match_pattern()
                if self.peek() == "if":
                    die("match guard is outside the supported subset")
                self.eat("=>")
                if self.peek() == "{":
                    body = self.block()
                    if self.peek() == ",":
                        self.eat(",")
                else:
                    body = self.expr()
                    if self.peek() != "}":
                        self.eat(",")
                arms.append((pat, body))
            self.eat("}")
            return ("match", s, arms)
        if v == "unsafe":
            self.eat()
            return self.block()
        if v == "{":
            return self.block()
        if v in ("true", "false"):
            self.eat()
            return ("bool", v)
        if re.match(r"^\d+$", v):
            self.eat()
            return ("lit", int(v))
        if v in ("while", "loop", "for"):
            die("loop (`%s`) is outside the supported subset" % v)
        if v.endswith("!") and len(v) > 1:
            return self.macro([self.eat()])
        if IDENT.match(v) and v not in KEYWORDS:
            segs = [self.eat()]
            generic = None
            while self.peek() == "::":
                self.eat("::")
                if self.peek() == "<":
                    self.eat("<")
                    generic = self.eat()
                    self.eat(">")
                    continue
                nx = self.eat()
                if nx.endswith("!"):
                    return self.macro(segs + [nx])
                if not IDENT.match(nx):
                    die("bad path segment %r" % nx)
                segs.append(nx)
            if self.peek() == "(":
                return ("scall", segs, generic, self.args())
            if len(segs) == 1:
                return ("var", segs[0])
            return ("path", segs)
        die("unexpected token %r" % v)

    def macro(self, segs):
        name = segs[-1]
        if name == "option_expect!":
            self.eat("(")
            e = self.expr()
            self.eat(",")
            self.skip_to_close()          # the panic message does not matter to the model
            return ("expect", e)
        if name == "div_zero!":
            self.eat("(")
            self.eat(")")
            return ("panic",)
        die("unsupported macro %s" % "::".join(segs))


# ------------------------------------------------------------------------------------------------------------------
# translation
class Gen:
    def __init__(self, selfty, nvar):
        self.S = selfty            # "U" / "I"
        self.nvar = nvar           # Coq name of the first digit-list parameter: N = length of it
        self.k = 0
        self.uses_dbg = False

    def fresh(self):
        self.k += 1
        return "r%d" % self.k

    def n(self):
        if self.nvar is None:
            die("needs N (an associated constant) but the function has no BUint/BInt parameter")
        return "(length %s)" % self.nvar

    def rty(self, t):
        """resolve Self inside a parsed type"""
        if t == "Self":
            return self.S
        if isinstance(t, tuple):
            return ("opt", self.rty(t[1])) if t[0] == "opt" else ("tup", [self.rty(x) for x in t[1]])
        return t

    @staticmethod
    def lift(term, eff):
        return term if eff else "(Ret %s)" % term

    @staticmethod
    def wrap(binds, term, ty, eff):
        for x, xt, t in reversed(binds):
            if xt is not None and "_" not in tshow(xt):           # annotate the binder (needed for tuple patterns)
                x = ("'(%s : %s)" % (x[1:], tshow(xt))) if x.startswith("'") else "(%s : %s)" % (x, tshow(xt))
            if eff:
                term = "(obind %s (fun %s => %s))" % (t, x, term)
            else:
                term = "(omap (fun %s => %s) %s)" % (x, term, t)
                eff = True
        return term, ty, eff

    def close(self, r):
        """(binds, term, ty, eff) -> (term, ty, eff): the pending binds are wrapped around the term"""
        binds, term, ty, eff = r
        return self.wrap(binds, term, ty, eff)

    def trc(self, e, env):
        return self.close(self.tr(e, env))

    def seq(self, parts, env, build):
        """translate `parts` left to right; the outcome-valued ones are bound to fresh names (pending binds, wrapped by
        `close` at the enclosing branch / function body); build(list of (pure term, type)) -> (term, ty, eff)"""
        binds, pure = [], []
        for p in parts:
            b, t, ty, eff = self.tr(p, env)
            binds += b
            if eff:
                x = self.fresh()
                binds.append((x, ty, t))
                pure.append((x, ty))
            else:
                pure.append((t, ty))
        term, ty, eff = build(pure)
        return binds, term, ty, eff

    def tyname(self, seg):
        return {"Self": self.S, "$BUint": "U", "$BInt": "I"}.get(seg)

    def call(self, rty, name, vals, generic=None):
        """vals = [(term, type)] receiver first"""
        if rty not in ("U", "I"):
            die("method .%s() on a value of type %s is outside the vocabulary" % (name, tshow(rty)))
        if name == "to_bits" and rty == "I" and len(vals) == 1:
            return vals[0][0], "U", False
        ent = CALLEES.get((rty, name))
        if ent is None:
            die("no model function for %s::%s (not in the translator's vocabulary)" % ({"U": "BUint", "I": "BInt"}[rty], name))
        tmpl, argtys, ret, eff, dbg = ent
        first = STATIC_FIRST.get((rty, name), rty)
        want = [first] + argtys
        if len(vals) != len(want):
            die("%s: expected %d arguments, got %d" % (name, len(want) - 1, len(vals) - 1))
        for i, ((_, ty), wt) in enumerate(zip(vals, want)):
            if not teq(ty, wt):
                die("%s: argument %d has type %s, expected %s" % (name, i, tshow(ty), tshow(wt)))
        if "{G}" in tmpl:
            if generic not in ("true", "false"):
                die("%s needs a const generic ::<true> / ::<false>" % name)
            tmpl = tmpl.replace("{G}", generic)
        elif generic is not None:
            die("unexpected const generic on %s" % name)
        if dbg:
            self.uses_dbg = True
        return "(" + qual(tmpl).format(*[v[0] for v in vals]) + ")", ret, eff

    def tr(self, e, env):
        """-> (pending binds, term, type, term is outcome-valued?)"""
        k = e[0]
        if k == "var":
            if e[1] == "None" and "None" not in env:
                return [], "None", ("opt", None), False
            if e[1] not in env:
                die("unbound variable %s" % e[1])
            return [], env[e[1]][0], env[e[1]][1], False
        if k == "lit":
            return [], str(e[1]), "Z", False
        if k == "bool":
            return [], e[1], "bool", False
        if k == "panic":
            return [], "Panic", None, True
        if k == "path":
            segs = e[1]
            t = self.tyname(segs[-2]) if len(segs) >= 2 else None
            if t is None or (t, segs[-1]) not in CONSTS:
                die("unknown constant %s" % "::".join(segs))
            tmpl, ty = CONSTS[(t, segs[-1])]
            return [], "(" + qual(tmpl).replace("{n}", self.n()) + ")", ty, False
        if k == "tuple":
            return self.seq(e[1], env, lambda vs: ("(" + ", ".join(v[0] for v in vs) + ")", ("tup", [v[1] for v in vs]), False))
        if k == "field":
            def bf(vs):
                t, ty = vs[0]
                if e[2] == "bits" and ty == "I":
                    return t, "U", False
                if e[2] in ("0", "1") and isinstance(ty, tuple) and ty[0] == "tup" and len(ty[1]) == 2:
                    return "(%s %s)" % ("fst" if e[2] == "0" else "snd", t), ty[1][int(e[2])], False
                die("unsupported field .%s on %s" % (e[2], tshow(ty)))
            return self.seq([e[1]], env, bf)
        if k == "not":
            def bn(vs):
                if vs[0][1] != "bool":
                    die("`!` on a non-bool (%s) is outside the supported subset" % tshow(vs[0][1]))
                return "(negb %s)" % vs[0][0], "bool", False
            return self.seq([e[1]], env, bn)
        if k == "bin":
            op = e[1]

            def bb(vs):
                (a, ta), (b, tb) = vs
                if not teq(ta, tb):
                    die("operator %s on %s and %s" % (op, tshow(ta), tshow(tb)))
                if ta == "bool":
                    f = {"||": "orb %s %s", "&&": "andb %s %s", "|": "orb %s %s", "&": "andb %s %s", "^": "xorb %s %s",
                         "==": "Bool.eqb %s %s", "!=": "negb (Bool.eqb %s %s)"}.get(op)
                    if f is None:
                        die("unsupported boolean operator %s" % op)
                    return "(" + f % (a, b) + ")", "bool", False
                if ta == "Z":
                    if op in (">", ">="):
                        a, b = b, a
                    f = {"==": "Z.eqb %s %s", "!=": "negb (Z.eqb %s %s)", "<": "Z.ltb %s %s", ">": "Z.ltb %s %s",
                         "<=": "Z.leb %s %s", ">=": "Z.leb %s %s"}.get(op)
                    if f is not None:
                        return "(" + f % (a, b) + ")", "bool", False
                    f = {"&": "Z.land %s %s", "|": "Z.lor %s %s", "^": "Z.lxor %s %s", "+": "Z.add %s %s", "-": "Z.sub %s %s"}.get(op)
                    if f is None:
                        die("unsupported integer operator %s" % op)
                    return "(" + f % (a, b) + ")", "Z", False
                die("operator %s on %s is outside the supported subset" % (op, tshow(ta)))
            r = self.seq([e[2], e[3]], env, bb)
            if op in ("||", "&&"):
                # the right operand is evaluated lazily in Rust: it must not be able to panic
                k0 = self.k
                br, _, _, effr = self.tr(e[3], env)
                self.k = k0
                if br or effr:
                    die("panicking right operand of %s is outside the supported subset" % op)
            return r
        if k == "expect":
            def be(vs):
                t, ty = vs[0]
                if not (isinstance(ty, tuple) and ty[0] == "opt"):
                    die("option_expect! on a non-Option (%s)" % tshow(ty))
                return "(Core.option_expect %s)" % t, ty[1], True
            return self.seq([e[1]], env, be)
        if k == "mcall":
            def bm(vs):
                return self.call(vs[0][1], e[2], vs)
            return self.seq([e[1]] + e[3], env, bm)
        if k == "scall":
            segs, generic, args = e[1], e[2], e[3]
            name = segs[-1]
            if len(segs) == 1 or self.tyname(segs[-2]) is None:
                if name == "tuple_to_option" and len(args) == 1:
                    def bt(vs):
                        t, ty = vs[0]
                        if not (isinstance(ty, tuple) and ty[0] == "tup" and len(ty[1]) == 2 and ty[1][1] == "bool"):
                            die("tuple_to_option on %s" % tshow(ty))
                        return "(Core.tuple_to_option %s)" % t, ("opt", ty[1][0]), False
                    return self.seq(args, env, bt)
                if name == "Some" and len(args) == 1:
                    return self.seq(args, env, lambda vs: ("(Some %s)" % vs[0][0], ("opt", vs[0][1]), False))
                die("call of unknown function %s" % "::".join(segs))
            t = self.tyname(segs[-2])
            if name == "from_bits" and t == "I" and len(args) == 1:
                def bfb(vs):
                    if vs[0][1] != "U":
                        die("from_bits on %s" % tshow(vs[0][1]))
                    return vs[0][0], "I", False
                return self.seq(args, env, bfb)
            if not args:
                die("static call %s without arguments" % "::".join(segs))
            return self.seq(args, env, lambda vs: self.call(t, name, vs, generic))
        if k == "if":
            return self.tr_if(e, env)
        if k == "match":
            return self.seq([e[1]], env, lambda vs: self.tr_match(vs[0], e[2], env))
        if k == "block":
            return self.tr_stmts(e[1], e[2], dict(env))
        die("cannot translate %r" % (e,))

    def branches(self, parts):
        """parts = [(term, ty, eff)] (closed) -> lifted terms, joint type, joint eff"""
        ty = None
        for _, t, _ in parts:
            if not teq(ty, t):
                die("branches have different types: %s / %s" % (tshow(ty), tshow(t)))
            ty = tjoin(ty, t)
        eff = any(p[2] for p in parts)
        return [self.lift(p[0], p[2]) if eff else p[0] for p in parts], ty, eff

    def tr_if(self, e, env):
        c, a, b = e[1], e[2], e[3]
        if b is None:
            die("`if` without `else` in expression position")
        if c[0] == "iflet":
            return self.seq([c[2]], env, lambda vs: self.tr_match(vs[0], [(c[1], a), ([("wild",)], b)], env))

        def bi(vs):
            if vs[0][1] != "bool":
                die("`if` condition of type %s" % tshow(vs[0][1]))
            (ta, tb), ty, eff = self.branches([self.trc(a, env), self.trc(b, env)])
            return "(if %s then %s else %s)" % (vs[0][0], ta, tb), ty, eff
        return self.seq([c], env, bi)

    def tr_match(self, scrut, arms, env):
        s, sty = scrut
        parts, pats = [], []
        for alts, body in arms:
            env2 = dict(env)
            ps = []
            for p in alts:
                if p[0] == "wild":
                    ps.append("_")
                elif p[0] == "psome":
                    if not (isinstance(sty, tuple) and sty[0] == "opt"):
                        die("pattern Some(..) against %s" % tshow(sty))
                    if len(alts) > 1:
                        die("Some(..) in an or-pattern")
                    if p[1] == "_":
                        ps.append("Some _")
                    else:
                        x = cname(p[1])
                        self.noshadow(x)
                        env2[p[1]] = (x, sty[1])
                        ps.append("Some %s" % x)
                elif p[0] == "pnone":
                    if not (isinstance(sty, tuple) and sty[0] == "opt"):
                        die("pattern None against %s" % tshow(sty))
                    ps.append("None")
                elif p[0] == "pord":
                    if sty != "ord":
                        die("pattern Ordering::.. against %s" % tshow(sty))
                    ps.append(p[1])
                elif p[0] == "pbool":
                    if sty != "bool":
                        die("pattern %s against %s" % (p[1], tshow(sty)))
                    ps.append(p[1])
            pats.append(" | ".join(ps))
            parts.append(self.trc(body, env2))
        terms, ty, eff = self.branches(parts)
        return "(match %s with %s end)" % (s, " | ".join("%s => %s" % (p, t) for p, t in zip(pats, terms))), ty, eff

    def noshadow(self, x):
        if x == self.nvar:
            die("rebinding %s (the parameter N is read from) is outside the supported subset" % x)

    def tr_tail(self, tail, env):
        if tail[0] == "return":
            return self.tr(tail[1], env)
        if tail[0] == "dbgif":
            self.uses_dbg = True
            (ta, tb), ty, eff = self.branches([self.trc(tail[1], env), self.trc(tail[2], env)])
            return [], "(if dbg then %s else %s)" % (ta, tb), ty, eff
        return self.tr(tail, env)

    def tr_stmts(self, stmts, tail, env):
        if not stmts:
            return self.tr_tail(tail, env)
        st, rest = stmts[0], stmts[1:]
        if st[0] == "let":
            pat, ex = st[1], st[2]
            binds, t, ty, eff = self.tr(ex, env)
            env2 = dict(env)
            if isinstance(pat, list):
                if not (isinstance(ty, tuple) and ty[0] == "tup" and len(ty[1]) == len(pat)):
                    die("tuple pattern (%s) against %s" % (", ".join(pat), tshow(ty)))
                names = [cname(p) for p in pat]
                for p, x, pt in zip(pat, names, ty[1]):
                    self.noshadow(x)
                    env2[p] = (x, pt)
                binder = "'(%s)" % ", ".join(names)
            else:
                x = cname(pat)
                self.noshadow(x)
                env2[pat] = (x, ty)
                binder = x
            rt, rty, reff = self.close(self.tr_stmts(rest, tail, env2))
            if eff:
                return binds + [(binder, ty, t)], rt, rty, reff
            return binds, "(let %s := %s in %s)" % (binder, t, rt), rty, reff
        if st[0] == "assert":
            def ba(vs):
                if vs[0][1] != "bool":
                    die("assert! on %s" % tshow(vs[0][1]))
                rt, rty, reff = self.close(self.tr_stmts(rest, tail, env))
                return "(if %s then %s else Panic)" % (vs[0][0], self.lift(rt, reff)), rty, True
            return self.seq([st[1]], env, ba)
        if st[0] == "guard":
            c, blk = st[1], st[2]
            if c[0] == "iflet":
                die("statement-level `if let` is outside the supported subset")
            if blk[1] or not (blk[2][0] in ("return", "panic")):
                die("statement-level `if` whose body is not `return e;` / `div_zero!()` is outside the supported subset")

            def bg(vs):
                if vs[0][1] != "bool":
                    die("`if` condition of type %s" % tshow(vs[0][1]))
                (ta, tb), ty, eff = self.branches([self.close(self.tr_tail(blk[2], env)), self.close(self.tr_stmts(rest, tail, env))])
                return "(if %s then %s else %s)" % (vs[0][0], ta, tb), ty, eff
            return self.seq([c], env, bg)
        die("cannot translate statement %r" % (st,))


def split_params(toks):
    """[(pattern, parsed type)] from the tokens of a parameter list; pattern = name | [names] (tuple pattern)"""
    p = P(toks)
    res = []
    while p.peek() is not None:
        if p.peek() == "&":
            p.eat()
        if p.peek() == "mut":
            die("`mut` parameter is outside the supported subset")
        if p.peek() == "self":
            p.eat()
            res.append(("self", "Self"))
        else:
            pat = p.let_pattern()
            p.eat(":")
            res.append((pat, p.type_()))
        if p.peek() == ",":
            p.eat(",")
        elif p.peek() is not None:
            die("bad parameter list near %r" % p.peek())
    return res


def translate_fn(path, S, name, params_src, ret_src, body_src):
    gname = "%s_%s" % (S, name)
    CUR[0] = "%s %s (as %s)" % (path, name, gname)
    if ret_src is None:
        die("no return type / body found")
    if re.search(r"\b(while|loop|for)\b", body_src):
        die("contains a loop; loops are outside the supported subset (list the function in SKIP with a reason if it is modelled by hand)")
    params = split_params(tokenize(params_src))
    g0 = Gen(S, None)
    env, binders, prelude, nvar = {}, [], [], None
    for idx, (pat, pty) in enumerate(params):
        ty = g0.rty(pty)
        if isinstance(pat, list):
            if not (isinstance(ty, tuple) and ty[0] == "tup" and len(ty[1]) == len(pat)):
                die("tuple parameter pattern against %s" % tshow(ty))
            pn = "p%d" % idx
            binders.append("(%s : %s)" % (pn, tshow(ty)))
            names = [cname(x) for x in pat]
            prelude.append("let '(%s) := %s in " % (", ".join(names), pn))
            for x, cx, t in zip(pat, names, ty[1]):
                env[x] = (cx, t)
                if nvar is None and t in ("U", "I"):
                    nvar = cx
        else:
            cx = cname(pat)
            binders.append("(%s : %s)" % (cx, tshow(ty)))
            env[pat] = (cx, ty)
            if nvar is None and ty in ("U", "I"):
                nvar = cx
    g = Gen(S, nvar)
    rp = P(tokenize(ret_src))
    ret = g.rty(rp.type_())
    if rp.peek() is not None:
        die("cannot parse return type %s" % ret_src)
    bp = P(tokenize(body_src))
    body = bp.block()
    if bp.peek() is not None:
        die("trailing tokens after the function body")
    term, ty, eff = g.trc(body, env)
    if not teq(ty, ret):
        die("body has type %s but the declared return type is %s" % (tshow(ty), tshow(ret)))
    coq_ret = ("outcome (%s)" % tshow(ret)) if eff else tshow(ret)
    sig = ("(dbg : bool) " if g.uses_dbg else "") + "(w : Z) " + " ".join(binders)
    if term.startswith("(") and term.endswith(")") and balanced(term, 0, "(", ")") == len(term):
        term = term[1:-1]
    text = "Definition %s %s : %s :=\n  %s%s.\n" % (gname, sig, coq_ret, "".join(prelude), term)
    return gname, text


def main():
    load_model_defs()
    for path, pat, what in CONST_SHAPES:
        CUR[0] = path
        if not re.search(pat, strip_comments(open(os.path.join(REPO, path)).read())):
            die("the definition of %s changed" % what)
    for path, text in USES:
        CUR[0] = path
        if re.sub(r"\s+", "", text) not in re.sub(r"\s+", "", strip_comments(open(os.path.join(REPO, path)).read())):
            die("the macro expansion `%s` is no longer there" % text)
    out = ["(* GENERATED on every run by tools/rs2v_glue.py from /repo/src (the one-line projection functions of",
           "   buint/ bint/ int/ : checked, wrapping, saturating, strict, overflowing (non-loop forms), cmp, ops,",
           "   bigint_helpers).  Do not edit.  Proofs/GlueTie.v proves each definition equal to the hand-written model. *)",
           "From Bnum Require Import Base Prim.",
           "From Bnum.Model Require Import Digit Core Shift AddSub Mul Div Bits Pow.", "", "Module Glue.", ""]
    count = {}
    seen = set()
    failed = {}
    group = sys.argv[sys.argv.index("--for") + 1] if "--for" in sys.argv else None
    for path, macro, selfs, wanted, skip in FILES:
        CUR[0] = path
        src = strip_comments(open(os.path.join(REPO, path)).read())
        region = macro_region(src, macro, path) if macro else src
        fns = find_fns(region, path)
        names = [f[0] for f in fns]
        for wn in wanted:
            if names.count(wn) != 1:
                die("function %s found %d times in %s" % (wn, names.count(wn), "macro " + macro if macro else "the file"))
        if macro:
            for n_ in names:
                if n_ not in wanted and n_ not in skip:
                    CUR[0] = "%s %s" % (path, n_)
                    die("function in an in-scope macro body that the translator neither translates nor lists in SKIP")
            for n_ in skip:
                if n_ not in names:
                    CUR[0] = "%s %s" % (path, n_)
                    die("listed in SKIP but no longer in the source")
        out.append("(* ---- %s%s ---- *)" % (path, (" (macro %s)" % macro) if macro else ""))
        for S in selfs:
            for f in fns:
                if f[0] in wanted:
                    gname = "%s_%s" % (S, f[0])
                    try:
                        gname, text = translate_fn(path, S, *f)
                    except (SystemExit, Exception) as ex:
                        # this function only: a stub, so that only ITS tie lemma (and its property's check) breaks
                        failed[gname] = LAST_MSG[0] if isinstance(ex, SystemExit) else repr(ex)
                        text = "(* NOT TRANSLATED: %s *)\nDefinition %s : unit := tt.\n" % (
                            failed[gname].replace("*)", "* )").replace("(*", "( *"), gname)
                    if gname in seen:
                        die("duplicate generated name " + gname)
                    seen.add(gname)
                    out.append(text)
                    count[path] = count.get(path, 0) + 1
    out.append("End Glue.")
    txt = "\n".join(out) + "\n"
    p = os.path.join(ROOT, "coq", "Generated", "Glue.v")
    if not os.path.exists(p) or open(p).read() != txt:
        open(p, "w").write(txt)
    if failed:
        sys.stderr.write("rs2v_glue: not translated (stub emitted, its tie lemma will not check): %s\n" % ", ".join(sorted(failed)))
        if group is None or any(group_of(g) in (group, None) for g in failed):
            return 1
    if os.environ.get("RS2V_VERBOSE"):
        for k in count:
            print("%-28s %d" % (k, count[k]))
        print("total", sum(count.values()))
    return 0


if __name__ == "__main__":
    sys.exit(main())

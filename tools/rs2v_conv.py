#!/usr/bin/env python3
"""tools/rs2v_conv.py — TRANSLATOR: conversions between bnum integers and PRIMITIVE integers  ->  coq/Generated/ConvGen.v

Reads $BNUM_REPO (default /repo) src/buint/{cast,convert,numtraits}.rs and src/bint/{cast,convert,numtraits}.rs, takes the
function of each `$int`-parametric conversion macro listed in TARGETS out of its `macro_rules!` body and translates it ONCE,
with the bit width `pb` and the signedness `ps` of the primitive type as parameters (the instantiation list of the macro is
checked on every run), into a Gallina function over the control-flow vocabulary of coq/Model/Imp.v and the primitive-integer
vocabulary of coq/Model/ImpConv.v (+ Prim.v, Model/LoopPrims.v and, by qualified name, the conventions of the hand model:
Cast.p_of_bits, Convert.result).  coq/Proofs/ConvGenTie*.v prove every generated function equal to the hand-written model
(Model/Cast.v, Model/Convert.v, Model/NumConv.v).

The lexer, parser (L.LP), type machinery and statement generator (L.Gen) are those of tools/rs2v_loops.py, extended by
subclassing; see tools/CONV_TRANSLATOR.md for what is added.  Anything outside the subset: the construct is named on stderr,
the function (and every generated function that calls it) becomes the stub `Definition f : unit := tt.`, exit status 1
(with `--for Cxx`: only when the function belongs to the group of Cxx, or on a global failure)."""
import re, sys, os
sys.path.insert(0, os.path.dirname(os.path.abspath(__file__)))
import rs2v_loops as L

REPO = os.environ.get("BNUM_REPO", "/repo")
ROOT = os.path.dirname(os.path.dirname(os.path.abspath(__file__)))
LAST_MSG = [""]


def die(msg):
    LAST_MSG[0] = msg
    sys.stderr.write("rs2v_conv: " + msg + "\n")
    sys.exit(1)


L.die = die     # rs2v_loops looks `die` up as a module global at call time: every message gets this translator's prefix

# Two more integer types.  A value of the primitive type `$int` of a macro is
#   PBits  its pb-bit two's complement PATTERN in [0, 2^pb)   (accumulators built with `|`, `&`, `!`, `<<`, casts from digits)
#   PVal   its mathematical VALUE                              (what a function returns: Cast.p_of_bits pb ps pattern)
# (rs2v_loops' PInt - a primitive PARAMETER that is only tested and shifted right - is also the value.)
L.INTS = L.INTS + ("PBits", "PVal", "PUns")
L.RESERVED |= {"ps", "Ok", "Err"}


def is_result(t):
    return isinstance(t, tuple) and len(t) == 2 and t[0] == "result"


_coq_ty0, _show0 = L.coq_ty, L.show


def coq_ty(t):
    t = L.rs(t)
    if is_result(t):
        inner = coq_ty(t[1])
        return "(Convert.result %s)" % (inner if inner.startswith("(") or " " not in inner else "(" + inner + ")")
    return _coq_ty0(t)


def show(t):
    t = L.rs(t)
    if is_result(t):
        return "Result<%s>" % show(t[1])
    return _show0(t)


L.coq_ty, L.show = coq_ty, show


def rtoks(text):
    return re.findall(r"\$?\w+|\S", text)


def rx(text):
    """regex matching the Rust token sequence `text` with arbitrary white space between tokens"""
    return r"\s*".join(re.escape(t) for t in rtoks(text))


UI = r"[ui](8|16|32|64|128|size)"
U = r"u(8|16|32|64|128|size)"
I = r"i(8|16|32|64|128|size)"

# One entry per translated function.
#   coq     name in Module ConvGen            group   the property whose tie file is about it
#   path / macro / head: the file, the macro_rules! name, the token sequence of its (single) rule's parameter list
#   anchor  token sequence after which the fn is searched (the `impl` header), or None       fn: the Rust fn name
#   prim    the metavariable of the primitive type        kinds: regex every instantiating type must match
#   conv    "bits": `$int` values are bit patterns (PBits), the function gets (pb : Z) (ps : bool);
#   inst    how the instantiating types are listed in an invocation: "list" = `pre; t1, t2, ..`, "arrows" = `pre; n1 -> t1, ..`
#   pre     the arguments before the `;` of every invocation (white space removed)
#   selfty  what `Self` / `self` is in the impl
#   others  regex of further instantiating types that are tolerated but NOT covered by the generated function
#   within  the header of the impl block every invocation must sit in (macros that define methods taking `self`)
#   calls   Rust callee `<$int>::name` / method `$name` -> coq name of the TARGET that is its translation
TARGETS = [
    dict(coq="buint_as_int", group="C09", path="src/buint/cast.rs", macro="buint_as_int",
         head="($BUint: ident, $Digit: ident; $($int: ty), *)", anchor="impl<const N: usize> CastFrom<$BUint<N>> for $int",
         fn="cast_from", prim="$int", kinds=UI, conv="bits", inst="list", pre="$BUint,$Digit", selfty="PVal", calls={}),
    dict(coq="try_from_buint", group="C13", path="src/buint/convert.rs", macro="try_from_buint",
         head="($BUint: ident, $Digit: ident; $($int: ty), *)", anchor="impl<const N: usize> TryFrom<$BUint<N>> for $int",
         fn="try_from", prim="$int", kinds=UI, conv="bits", inst="list", pre="$BUint,$Digit", selfty="PVal", calls={}),
    dict(coq="bint_as_int", group="C09", path="src/bint/cast.rs", macro="bint_as",
         head="($BInt: ident, $Digit: ident; $($int: ty), *)", anchor="impl<const N: usize> CastFrom<$BInt<N>> for $int",
         fn="cast_from", prim="$int", kinds=UI, conv="bits", inst="list", pre="$BInt,$Digit", selfty="PVal",
         calls={"<$int>::cast_from": "buint_as_int"}),
    dict(coq="int_try_from_bint", group="C13", path="src/bint/convert.rs", macro="int_try_from_bint",
         head="{ $BInt: ident, $Digit: ident; $($int: ty), * }", anchor="impl<const N: usize> TryFrom<$BInt<N>> for $int",
         fn="try_from", prim="$int", kinds=I, conv="bits", inst="list", pre="$BInt,$Digit", selfty="PVal", calls={}),
    dict(coq="uint_try_from_bint", group="C13", path="src/bint/convert.rs", macro="uint_try_from_bint",
         head="($BInt: ident; $($uint: ty), *)", anchor="impl<const N: usize> TryFrom<$BInt<N>> for $uint",
         fn="try_from", prim="$uint", kinds=U, conv="bits", inst="list", pre="$BInt", selfty="PVal",
         calls={"<$uint>::try_from": "try_from_buint"}),
    dict(coq="U_to_int", group="C19", path="src/buint/numtraits.rs", macro="to_int",
         head="{ $Digit: ident; $($name: ident -> $int: ty), * }", anchor=None, within="impl<const N: usize> ToPrimitive for $BUint<N>",
         fn="$name", prim="$int", kinds=UI, conv="bits", inst="arrows", fnprefix="to_", pre="$Digit", selfty="buint", calls={}),
    dict(coq="I_to_int", group="C19", path="src/bint/numtraits.rs", macro="to_int",
         head="{ $Digit: ident; $($name: ident -> $int: ty), * }", anchor=None, within="impl<const N: usize> ToPrimitive for $BInt<N>",
         fn="$name", prim="$int", kinds=I, conv="bits", inst="arrows", fnprefix="to_", pre="$Digit", selfty="bint", calls={}),
    dict(coq="I_to_uint", group="C19", path="src/bint/numtraits.rs", macro="to_uint",
         head="{ $($name: ident -> $uint: ty), * }", anchor=None, within="impl<const N: usize> ToPrimitive for $BInt<N>",
         fn="$name", prim="$uint", kinds=U, conv="bits", inst="arrows", fnprefix="to_", pre="", selfty="bint",
         calls={"$name": "U_to_int"}),
    # ---- primitive -> bnum: the primitive PARAMETER is its value (PInt of rs2v_loops: only tested, shifted right, cast to a digit)
    dict(coq="bint_from_int", group="C13", path="src/bint/convert.rs", macro="from_int",
         head="($BInt: ident, $Digit: ident; $($int: tt),*)", anchor="impl<const N: usize> From<$int> for $BInt<N>",
         fn="from", prim="$int", kinds=I, conv="value", inst="list", pre="$BInt,$Digit", selfty="bint", calls={}),
    dict(coq="bint_from_uint", group="C13", path="src/bint/convert.rs", macro="from_uint",
         head="($BInt: ident, $BUint: ident; $($from: tt), *)", anchor="impl<const N: usize> From<$from> for $BInt<N>",
         fn="from", prim="$from", kinds=U, conv="value", inst="list", pre="$BInt,$BUint", selfty="bint", calls={}),
    dict(coq="bint_from_prim", group="C09", path="src/bint/cast.rs", macro="as_bint",
         head="($BInt: ident, $BUint: ident; $($ty: ty), *)", anchor="impl<const N: usize> CastFrom<$ty> for $BInt<N>",
         fn="cast_from", prim="$ty", kinds=UI, others="bool|char", conv="value", inst="list", pre="$BInt,$BUint", selfty="bint", calls={}),
    dict(coq="try_from_iint", group="C13", path="src/buint/convert.rs", macro="try_from_iint",
         head="($BUint: ident; $($int: tt -> $uint: tt),*)", anchor="impl<const N: usize> TryFrom<$int> for $BUint<N>",
         fn="try_from", prim="$int", prim2="$uint", kinds=I, conv="value", inst="pairs", pre="$BUint", selfty="buint", calls={}),
    dict(coq="U_from_u64", group="C19", path="src/buint/numtraits.rs", macro=None, anchor="impl<const N: usize> FromPrimitive for $BUint<N>",
         fn="from_u64", prim="u64", pbfix=64, conv="value", selfty="buint", calls={}),
    dict(coq="U_from_u128", group="C19", path="src/buint/numtraits.rs", macro=None, anchor="impl<const N: usize> FromPrimitive for $BUint<N>",
         fn="from_u128", prim="u128", pbfix=128, conv="value", selfty="buint", calls={}),
    dict(coq="U_from_i64", group="C19", path="src/buint/numtraits.rs", macro=None, anchor="impl<const N: usize> FromPrimitive for $BUint<N>",
         fn="from_i64", prim="i64", prim2="u64", pbfix=64, conv="value", selfty="buint", calls={"Self::from_u64": "U_from_u64"}),
    dict(coq="U_from_i128", group="C19", path="src/buint/numtraits.rs", macro=None, anchor="impl<const N: usize> FromPrimitive for $BUint<N>",
         fn="from_i128", prim="i128", prim2="u128", pbfix=128, conv="value", selfty="buint", calls={"Self::from_u128": "U_from_u128"}),
    dict(coq="I_from_uint", group="C19", path="src/bint/numtraits.rs", macro="from_uint",
         head="($Digit: ident; $uint: ty, $name: ident)", anchor=None, within="impl<const N: usize> FromPrimitive for $BInt<N>",
         fn="$name", prim="$uint", kinds=U, conv="value", inst="single", fnprefix="from_", pre="$Digit", selfty="bint", calls={}),
    dict(coq="I_from_int", group="C19", path="src/bint/numtraits.rs", macro="from_int",
         head="($BUint: ident, $Digit: ident; $int: ty, $name: ident)", anchor=None, within="impl<const N: usize> FromPrimitive for $BInt<N>",
         fn="$name", prim="$int", kinds=I, conv="value", inst="single", fnprefix="from_", pre="$BUint,$Digit", selfty="bint", calls={}),
]

# Functions of the bnum types that are NOT re-translated here: the call becomes a call of the hand-written model (qualified name);
# the tie of the callee to its own source is another obligation (Proofs/LoopsTieC13.v: from_uint!, LoopsTieC09.v: as_buint!; from_bits /
# from_digits are pattern-checked / tied by rs2v_loops).  (type, Rust name) -> (Gallina format, argument types, result type, flags)
EXT = {
    ("buint", "from"): ("Convert.U_from_uint dbg pb w (Z.to_nat N) %s", ["PInt"], "buint", ("outcome", "dbg")),
    ("buint", "cast_from"): ("Cast.U_from_int pb w (Z.to_nat N) %s", ["PInt"], "buint", ("outcome",)),
    ("buint", "from_digits"): ("(Convert.from_digits %s)", ["digits"], "buint", ()),
    ("bint", "from_bits"): ("(Cast.from_bits %s)", ["buint"], "bint", ()),
}
GROUPS = {}
for _t in TARGETS:
    if _t.get("pbfix"):          # a fn for one concrete type: the type names must say that width
        assert re.fullmatch(r"[ui]%d" % _t["pbfix"], _t["prim"]) and _t.get("prim2", "u%d" % _t["pbfix"]) == "u%d" % _t["pbfix"]
    GROUPS.setdefault(_t["group"], []).append(_t["coq"])


# ---------------------------------------------------------------- parsing

class CP(L.LP):
    """L.LP + `loop { .. }`, `Result<T, Self::Error>`, `Err(TryFromIntError(()))`, `<$int>::f(..)`, the primitive type of the
    macro as PBits / PInt."""

    def __init__(self, toks, selfty="buint", prim=None, primty="PBits", prim2=None):
        L.LP.__init__(self, toks, selfty, prim)
        self.primty = primty
        self.prim2 = prim2             # try_from_iint!: the unsigned type of the same width ($uint)

    def type_(self):
        v = self.peek()
        if self.prim is not None and v == self.prim:
            self.eat()
            return self.primty
        if self.prim2 is not None and v == self.prim2:
            self.eat()
            return "PUns"
        if v == "<" and self.prim is not None and self.peek(1) == self.prim and self.peek(2) == ">":
            self.eat(), self.eat(), self.eat()                 # <$int> as a type
            return self.primty
        if v == "Self" and self.peek(1) != "::":
            self.eat()
            return self.selfty
        if v == "Result":
            self.eat()
            self.eat("<")
            t = self.type_()
            self.eat(",")
            for x in ("Self", "::", "Error"):
                self.eat(x)
            self.eat(">")
            return ("result", t)
        if v == "Option":
            self.eat()
            self.eat("<")
            t = self.type_()
            self.eat(">")
            return ("option", t)
        return L.LP.type_(self)

    def stmt(self):
        if self.peek() == "#":                                 # attributes on statements: only those without effect on behaviour
            if self.peek(1) != "[" or self.peek(2) not in ("allow", "inline", "must_use", "doc"):
                die("attribute #[%s ..] on a statement is not supported (only allow / inline / must_use / doc)" % self.peek(2))
            return L.LP.stmt(self)                             # skips it
        if self.peek() == "loop":                              # `loop { .. }` is `while true { .. }`
            self.eat("loop")
            if self.peek() != "{":
                die("unsupported statement: labelled / valued loop")
            return ["while", ["bool", True], self.block()]
        if self.peek() == "!":                                 # a block whose value starts with `!` (`{ !Self::ZERO }`)
            e = self.expr()
            if self.peek() != "}":
                die("expression statement starting with `!` in the middle of a block")
            return ["expr", e]
        return L.LP.stmt(self)

    def match_(self):
        """L.LP.match_ + the patterns Ok(x) and Err(_) (a match on a Result)"""
        j, d = self.i + 1, 0                                   # look ahead: does an arm start with Ok( / Err( ?
        while j < len(self.t) and not (self.t[j] == "{" and d == 0):
            d += {"(": 1, ")": -1}.get(self.t[j], 0)
            j += 1
        if j + 1 >= len(self.t) or self.t[j + 1] not in ("Ok", "Err"):
            return L.LP.match_(self)
        self.eat("match")
        scrut = self.expr()
        self.eat("{")
        arms = []
        while self.peek() != "}":
            v = self.eat()
            if v == "_":
                pat = ["pwild"]
            elif v == "Ok":
                self.eat("(")
                pat = ["pok", self.ident()]
                self.eat(")")
            elif v == "Err":
                self.eat("("), self.eat("_"), self.eat(")")
                pat = ["perr"]
            else:
                die("unsupported pattern starting with %r in a match on a Result" % v)
            if self.peek() == "if":
                die("match guards are not supported")
            self.eat("=")
            self.eat(">")
            body = self.expr()
            arms.append((pat, body))
            if self.peek() == ",":
                self.eat(",")
            elif self.peek() != "}":
                die("expected ',' or '}' after a match arm, got %r" % self.peek())
        self.eat("}")
        return ["match", scrut, arms]

    def primary(self):
        v = self.peek()
        if v == "Err":
            want = ["Err", "(", "TryFromIntError", "(", "(", ")", ")", ")"]
            if [self.peek(k) for k in range(len(want))] != want:
                die("Err(..): only Err(TryFromIntError(())) is supported")
            for x in want:
                self.eat(x)
            return ["err"]
        if v == "<" and self.prim is not None and self.peek(1) == self.prim and self.peek(2) == ">" and self.peek(3) == "::":
            self.eat(), self.eat(), self.eat(), self.eat()     # <$int>::NAME  /  <$int>::f(..)
            name = self.ident()
            if self.peek() == "(":
                return ["pcall", [self.prim, name], self.args()]
            return ["path", [self.prim, name]]
        return L.LP.primary(self)


# ---------------------------------------------------------------- generation

def rename(node, old, new):
    """alpha-renaming of the variable `old` inside an AST fragment (var nodes are lists: renamed in place)"""
    if isinstance(node, list) and len(node) == 2 and node[0] == "var" and node[1] == old:
        node[1] = new
        return
    if isinstance(node, list) and node and node[0] == "let":
        die("`let` inside a match arm that binds %s: not supported" % old)
    if isinstance(node, (list, tuple)):
        for x in node:
            rename(x, old, new)


class CG(L.Gen):
    """L.Gen + the bit-pattern operations on the primitive accumulator, Result, calls of sibling conversions."""

    def __init__(self, fname, sigs, digit_sigs, consts, tvs, final, tgt):
        L.Gen.__init__(self, fname, sigs, digit_sigs, consts, tvs, final)
        self.tgt = tgt
        self.calls = set()

    def coerce(self, v, t):
        """a bit pattern leaving the function (tail value, `return`, Ok(..), Some(..)) is read as a value of the type"""
        if L.rs(t) == "PBits":
            return "(Cast.p_of_bits pb ps %s)" % v, "PVal"
        return v, t

    def sibling(self, key, args, env):
        """call of another function of this file, instantiated at the same primitive type (pb, ps)"""
        coq = self.tgt["calls"].get(key)
        if coq is None:
            self.die("call of %s, which is not in the table of translated conversions" % key)
        sg = self.sigs.get(coq)
        if sg is None:
            self.die("call of %s, whose translation %s failed" % (key, coq))
        formal = ([("self", sg["selfty"])] if sg["self"] else []) + sg["params"]
        if len(args) != len(formal):
            self.die("call of %s with %d arguments, expected %d" % (key, len(args), len(formal)))
        pre, vs = [], []
        for a, (pn, pt) in zip(args, formal):
            p, v, t = self.ex(a, env)
            L.unify(t, pt, "argument %s of %s" % (pn, key))
            pre += p
            vs.append(v)
        self.calls.add(coq)
        x = self.tmp()
        ct = sg["tgt"]                                   # the callee is instantiated at the same primitive type
        if (ct["conv"], ct.get("pbfix")) != (self.tgt["conv"], self.tgt.get("pbfix")):
            self.die("call of %s: caller and callee treat the primitive type differently" % key)
        inst = "" if ct.get("pbfix") else (" pb ps" if ct["conv"] == "bits" else " pb")
        if sg["dbg"]:
            self.uses_dbg = True
        return pre + ["%s <- %s %sw N fuel%s %s ;;" % (x, coq, "dbg " if sg["dbg"] else "", inst, " ".join(vs))], x, sg["ret"]

    def ex(self, e, env):
        k = e[0]
        if k == "lit":
            t = self.tv(e)
            r = L.rs(t)
            if r == "PBits":
                return [], "(p_lit pb %d)" % e[1], t
            if r == "PVal":
                self.die("integer literal as a returned primitive value: not supported")
            return [], str(e[1]), t
        if k == "err":
            return [], "Convert.Err", ("result", self.tv_any(e))
        if k == "un" and e[1] == "-":
            if e[2][0] != "lit":
                self.die("unary minus: only on a literal")
            t = self.tv(e)
            r = L.rs(t)
            if r == "PBits":
                return [], "(p_lit pb (-%d))" % e[2][1], t
            if isinstance(r, L.TVar) and not self.final:
                return [], "0", t
            self.die("negative literal of type %s: not supported" % show(t))
        if k == "un" and e[1] == "!":
            save = self.ntmp
            p, v, t = self.ex(e[2], env)
            if L.rs(t) == "PBits":
                return p, "(u_not pb %s)" % v, "PBits"
            if L.rs(t) == "bint":                       # `!x` on a $BInt (impl Not: from_bits(!bits)): hand model by name
                return p, "(Core.bitnot w %s)" % v, "bint"
            self.ntmp = save
            return L.Gen.ex(self, e, env)
        if k == "as":
            save = self.ntmp
            p, v, t = self.ex(e[1], env)
            src, dst = L.rs(t), e[2]
            if dst == "PBits":
                if src == "Digit":                      # digit as $int: truncation / zero extension of an unsigned value
                    return p, "(ud pb %s)" % v, "PBits"
                if isinstance(src, L.TVar) or src == "PBits":
                    L.unify(t, "PBits", "cast")
                    return p, v, "PBits"
                self.die("unsupported cast %s as %s" % (show(src), self.tgt["prim"]))
            if src == "PBits":
                if dst == "Digit":                      # $int as digit: truncation, or sign / zero extension of the VALUE
                    return p, "(ud w (Cast.p_of_bits pb ps %s))" % v, "Digit"
                self.die("unsupported cast %s as %s" % (self.tgt["prim"], show(dst)))
            if dst == "PUns":
                if src == "PInt":                       # iN as uN (same width): the value mod 2^pb; the result is a value again
                    return p, "(ud pb %s)" % v, "PInt"
                self.die("unsupported cast %s as %s" % (show(src), self.tgt.get("prim2")))
            self.ntmp = save
            return L.Gen.ex(self, e, env)
        return L.Gen.ex(self, e, env)

    def bin(self, e, env):
        _, op, a, b = e
        save = self.ntmp
        pa, va, ta = self.ex(a, env)
        pb_, vb, tb = self.ex(b, env)
        if L.rs(ta) == "PBits" or (L.rs(tb) == "PBits" and op not in ("<<", ">>")):
            if op in ("|", "&"):
                L.unify(ta, tb, "operands of " + op)
                return pa + pb_, "(%s %s %s)" % ({"|": "u_or", "&": "u_and"}[op], va, vb), "PBits"
            if op == "<<":
                L.unify(tb, "usize", "shift amount")
                x = self.tmp()
                return pa + pb_ + ["%s <- pint_shl pb %s %s ;;" % (x, va, vb)], x, "PBits"
            if op == "<" and b[0] == "lit" and b[1] == 0:
                L.unify(ta, tb, "operands of <")
                return pa + pb_, "(p_is_neg pb ps %s)" % va, "bool"
            self.die("operator %s on the bit pattern of a primitive integer: not supported" % op)
        self.ntmp = save
        return L.Gen.bin(self, e, env)

    def mcall(self, e, env):
        _, recv, name, args = e
        save = self.ntmp
        p, v, t = self.ex(recv, env)
        t0 = L.rs(t)
        if name == "is_negative" and not args:
            if t0 == "bint":                            # hand model by name (its own tie: the glue translator)
                return p, "(Core.is_negative w %s)" % v, "bool"
            if t0 == "PBits":
                return p, "(p_is_neg pb ps %s)" % v, "bool"
            if t0 == "PInt":
                return p, "(%s <? 0)" % v, "bool"
        self.ntmp = save
        if name.startswith("$") and t0 in ("buint", "bint"):
            return self.sibling(name, [recv] + list(args), env)
        return L.Gen.mcall(self, e, env)

    def pcall(self, e, env):
        _, segs, args = e
        s = tuple(segs)
        if s == ("Ok",) and len(args) == 1:
            p, v, t = self.ex(args[0], env)
            v, t = self.coerce(v, t)
            return p, "(Convert.Ok %s)" % v, ("result", t)
        if s == ("Some",) and len(args) == 1:
            p, v, t = self.ex(args[0], env)
            v, t = self.coerce(v, t)
            return p, "(Some %s)" % v, ("option", t)
        if len(s) == 2 and s[0] == self.tgt["prim"]:
            return self.sibling("<%s>::%s" % s, list(args), env)
        if "::".join(s) in self.tgt["calls"]:
            return self.sibling("::".join(s), list(args), env)
        if len(s) == 2 and s[0] == self.tgt.get("prim2") and s[1] == "try_from" and len(args) == 1:
            p, v, t = self.ex(args[0], env)                   # uN::try_from(iN): Ok exactly for a non-negative value
            L.unify(t, "PInt", "argument of %s::try_from" % s[0])
            return p, "(NumConv.uN_try_from_iN %s)" % v, ("result", "PInt")
        if s == ("Signed", "is_negative") and len(args) == 1:
            p, v, t = self.ex(args[0], env)
            L.unify(t, "bint", "argument of Signed::is_negative")
            return p, "(Core.is_negative w %s)" % v, "bool"
        if len(s) == 2 and s[0] in ("Self", "$BUint", "$BInt"):
            ty = {"Self": self.selfty, "$BUint": "buint", "$BInt": "bint"}[s[0]]
            if (ty, s[1]) in EXT:
                fmt, ptys, rty, flags = EXT[(ty, s[1])]
                if len(args) != len(ptys):
                    self.die("call of %s with %d arguments, expected %d" % ("::".join(s), len(args), len(ptys)))
                pre, vs = [], []
                for a, pt in zip(args, ptys):
                    p, v, t = self.ex(a, env)
                    L.unify(t, pt, "argument of " + "::".join(s))
                    pre += p
                    vs.append(v)
                if "dbg" in flags:
                    self.uses_dbg = True
                call = fmt % tuple(vs)
                if "outcome" in flags:
                    x = self.tmp()
                    return pre + ["%s <- of_outcome (%s) ;;" % (x, call)], x, rty
                return pre, call, rty
        return L.Gen.pcall(self, e, env)

    def match_stmt(self, m, mk, rest, env, ctx, ind):
        _, scrut, arms = m
        save = self.ntmp
        p, v, t = self.ex(scrut, env)
        t = L.rs(t)
        if not is_result(t):
            self.ntmp = save
            return L.Gen.match_stmt(self, m, mk, rest, env, ctx, ind)
        if mk is not None or rest:
            self.die("match on a Result: only as the tail of a block")
        pad = "  " * ind
        seen, out = [], []
        inner = dict(ctx, protected=set(env.keys()) | ctx["protected"])
        for pat, body in arms:
            env2 = self.copy(env)
            if len(seen) == 2:
                self.die("unreachable arm in match")
            if pat[0] == "pwild":
                seen, head = ["Ok", "Err"], "_"
            elif pat[0] == "perr":
                if "Err" in seen:
                    self.die("duplicate match arm Err")
                seen.append("Err")
                head = "Convert.Err"
            else:
                if "Ok" in seen:
                    self.die("duplicate match arm Ok")
                seen.append("Ok")
                x = pat[1]
                if x in L.RESERVED or x == "N":
                    self.die("pattern variable name %s is reserved by the translator" % x)
                if x in env2:                            # the pattern variable shadows (`Ok(int) => f(int)`): alpha-rename it in
                    new = x + "'1"                       # its scope, the arm (`'` cannot occur in a Rust identifier); done once, in place
                    rename(body, x, new)
                    pat[1] = x = new
                env2[x] = L.Var(t[1], False, True)
                head = "Convert.Ok " + x
            ss = body[1] if body[0] == "blockx" else [["expr", body]]
            out.append(pad + "| %s => (\n%s\n%s  )" % (head, self.stmts(ss, env2, inner, ind + 2), pad))
        if len(seen) != 2:
            self.die("non-exhaustive match on a Result")
        return self.lines(p + ["match %s with" % v], pad) + "\n" + "\n".join(out) + "\n" + pad + "end"

    def path(self, segs, env, node=None):
        if segs[0] == "Self" and self.selfty not in ("buint", "bint"):
            self.die("unsupported path " + "::".join(segs))
        return L.Gen.path(self, segs, env, node)

    def stmts(self, ss, env, ctx, ind):
        if ss and ss[0][0] in ("expr", "return") and ss[0][1] is not None and ss[0][1][0] not in ("ifx", "blockx", "match"):
            # a bit pattern that is the function's value is read as a value of the primitive type here
            s, rest = ss[0], ss[1:]
            save = self.ntmp
            p, v, t = self.ex(s[1], env)
            if L.rs(t) == "PBits":
                if rest or (s[0] == "expr" and ctx["loop"] is not None):
                    self.die("value expression in the middle of a block / at the end of a loop body")
                v, t = self.coerce(v, t)
                L.unify(t, self.ret, "returned value")
                pad = "  " * ind
                return self.lines(p + ["Done " + (v if ctx["loop"] is None else "(Return %s)" % v)], pad)
            self.ntmp = save
        return L.Gen.stmts(self, ss, env, ctx, ind)


# ---------------------------------------------------------------- extraction

def macro_body(txt, tgt):
    """the body of `macro_rules! <macro>` (its single rule's parameter list is checked), after checking every invocation"""
    name, path = tgt["macro"], tgt["path"]
    if name is None:                                       # not a macro of its own: a fn of the file's ($BUint, $BInt, $Digit) macro
        mm = re.search(r"macro_rules!\s*\w+\s*\{\s*\(\s*\$BUint\s*:\s*ident\s*,\s*\$BInt\s*:\s*ident\s*,\s*\$Digit\s*:\s*ident\s*\)", txt)
        if not mm:
            die("%s: macro_rules! with ($BUint, $BInt, $Digit) not found" % path)
        return braces(txt, mm.start(), path)
    toks = rtoks(tgt["head"])                     # the rule may be written with ( ) or { }
    head = r"\s*".join([r"[({]"] + [re.escape(t) for t in toks[1:-1]] + [r"[)}]"])
    mm = re.search(r"macro_rules!\s*%s\s*\{\s*%s\s*=>" % (re.escape(name), head), txt)
    if not mm:
        die("%s: macro_rules! %s with the expected parameter list not found" % (path, name))
    uses = [m for m in re.finditer(r"(?<![\w!$])%s!\s*[({]([^(){}]*)[)}]" % re.escape(name), txt)
            if not re.search(r"macro_rules!\s*$", txt[:m.start()])]
    if not uses:
        die("%s: no instantiation of macro %s found" % (path, name))
    for m in uses:
        u = m.group(1)
        if tgt.get("within"):                              # the impl block the invocation sits in (it fixes what `self` is)
            impls = [x for x in re.finditer(r"\bimpl\b", txt[:m.start()])]
            if not impls or not re.match(rx(tgt["within"]) + r"\s*\{", txt[impls[-1].start():]):
                die("%s: %s! is not invoked inside `%s`" % (path, name, tgt["within"]))
        pre, _, lst = u.rpartition(";")
        if re.sub(r"\s+", "", pre) != tgt["pre"]:
            die("%s: %s!(%s ..): the arguments before `;` are not `%s`" % (path, name, pre.strip(), tgt["pre"]))
        items = [x.strip() for x in lst.split(",") if x.strip()]
        if tgt["inst"] == "single":                          # `u8, from_u8`: one type and the method name per invocation
            if len(items) != 2 or items[1] != tgt["fnprefix"] + items[0]:
                die("%s: %s!(%s): expected `<type>, %s<type>`" % (path, name, u.strip(), tgt["fnprefix"]))
            items = items[:1]
        if not items:
            die("%s: %s! instantiated for no type" % (path, name))
        for it in items:
            if tgt["inst"] == "arrows":                      # `to_u8 -> u8`
                am = re.fullmatch(r"(\w+)\s*->\s*(\w+)", it)
                if not am or am.group(1) != tgt["fnprefix"] + am.group(2):
                    die("%s: %s!: cannot read the instantiation `%s`" % (path, name, it))
                it = am.group(2)
            if tgt["inst"] == "pairs":                       # `i8 -> u8`: the unsigned type of the same width
                am = re.fullmatch(r"i(\w+)\s*->\s*u(\w+)", it)
                if not am or am.group(1) != am.group(2):
                    die("%s: %s!: `%s` is not a pair iN -> uN of the same width" % (path, name, it))
                it = "i" + am.group(1)
            if tgt.get("others") and re.fullmatch(tgt["others"], it):
                continue      # instantiations at non-integer types (bool, char): the callee is another impl there; not covered
            if not re.fullmatch(tgt["kinds"], it):
                die("%s: macro %s is instantiated for types outside the modelled kind: %s" % (path, name, it))
    return braces(txt, mm.start(), path)


def braces(txt, start, path):
    b0 = txt.index("{", start)
    d, e = 0, b0
    while True:
        if e >= len(txt):
            die("%s: unbalanced braces in the macro body" % path)
        d += {"{": 1, "}": -1}.get(txt[e], 0)
        e += 1
        if d == 0:
            break
    return txt[b0:e]


def parse_sig(tgt, generics, params, ret):
    name = tgt["fn"]
    primty = "PBits" if tgt["conv"] == "bits" else "PInt"
    sig = {"self": False, "params": [], "generics": [], "mut": set(), "selfty": tgt["selfty"], "rust": name, "callable": False,
           "mutref": False, "dbg": False, "prim": tgt["prim"], "coq": tgt["coq"]}
    if generics:
        die("fn %s: generic parameters are not supported" % name)
    t = CP(L.tokenize(params), tgt["selfty"], tgt["prim"], primty, tgt.get("prim2"))
    first = True
    while t.peek() is not None:
        if first and (t.peek() == "self" or (t.peek() == "&" and t.peek(1) == "self")):
            if t.peek() == "&":
                t.eat("&")
            t.eat("self")
            sig["self"] = True
        else:
            if t.peek() == "mut":
                die("fn %s: `mut` parameters are not supported here" % name)
            pn = t.ident()
            t.eat(":")
            sig["params"].append((pn, t.type_()))
        first = False
        if t.peek() == ",":
            t.eat(",")
        elif t.peek() is not None:
            die("fn %s: cannot parse the parameter list" % name)
    if ret is None:
        die("fn %s: no return type" % name)
    r = CP(L.tokenize(ret), tgt["selfty"], tgt["prim"], primty, tgt.get("prim2"))
    rt = r.type_()
    if r.peek() is not None:
        die("fn %s: cannot parse the return type %s" % (name, ret))

    def val(x):      # what a function RETURNS is the value of the primitive type
        if x == "PBits":
            return "PVal"
        return tuple(val(y) for y in x) if isinstance(x, tuple) else x
    sig["ret"] = val(rt)
    sig["tgt"] = tgt
    return sig


def translate_one(tgt, fns, sigs, dsigs):
    coq = tgt["coq"]
    sig, body = sigs[coq], fns[coq]
    primty = "PBits" if tgt["conv"] == "bits" else "PInt"
    ast = CP(L.tokenize(body), sig["selfty"], sig["prim"], primty, tgt.get("prim2")).block()
    tvs, txt, g = {}, None, None
    for final in (False, True):
        g = CG(coq, sigs, dsigs, {}, tvs, final, tgt)
        env, ctx = {}, {"loop": None, "protected": set()}
        if sig["self"]:
            env["self"] = L.Var(sig["selfty"], False)
        for pn, pt in sig["params"]:
            g.declare(env, pn, pt, False, ctx)
        txt = g.stmts(ast, env, ctx, 1)
    if g.recursive:
        die("fn %s: recursion is not supported here" % tgt["fn"])
    sig["dbg"] = g.uses_dbg
    argl = " (pb : Z) (ps : bool)" if tgt["conv"] == "bits" else " (pb : Z)"
    if tgt.get("pbfix"):                                   # a fn for one concrete primitive type (from_u64): its width is a constant
        argl = ""
        txt = "  let pb := %d in\n" % tgt["pbfix"] + txt
    argl += " (self : list Z)" if sig["self"] else ""
    argl += "".join(" (%s : %s)" % (n, coq_ty(t)) for n, t in sig["params"])
    rty = coq_ty(sig["ret"])
    head = "(* %s: %sfn %s *)\n" % (tgt["path"], "macro %s!, " % tgt["macro"] if tgt["macro"] else "", tgt["fn"])
    return head + "Definition %s %s(w N : Z) (fuel : nat)%s : res %s :=\n%s.\n" % (coq, "(dbg : bool) " if g.uses_dbg else "", argl, rty if rty.startswith("(") or " " not in rty else "(" + rty + ")", txt), g.calls


HEADER = ["(* GENERATED on every run by tools/rs2v_conv.py from /repo/src/{buint,bint}/{cast,convert,numtraits}.rs (the conversions between",
          "   bnum integers and primitive integers).  Do not edit.  Proofs/ConvGenTie*.v prove each function equal to the hand-written model.",
          "   pb / ps = BITS / signedness of the primitive type the macro is instantiated at (instantiation lists checked by the translator).",
          "   Vocabulary: Model/Imp.v (control flow), Model/ImpConv.v (bit patterns of primitive integers), Prim.v, Model/LoopPrims.v;",
          "   by qualified name from the hand model: Cast.p_of_bits (pattern -> value), Convert.result, Core.is_negative / bitnot, Cast.from_bits,",
          "   Convert.from_digits, NumConv.uN_try_from_iN, and the callees tied elsewhere: Convert.U_from_uint (from_uint!), Cast.U_from_int (as_buint!). *)",
          "From Bnum Require Import Base Prim.",
          "From Bnum.Model Require Import DigitPrims LoopPrims Core Imp ImpConv.",
          "From Bnum.Model Require Cast Convert NumConv.",
          "From Bnum.Generated Require Import DigitGen.", "", "Module ConvGen.", ""]


def main():
    group = sys.argv[sys.argv.index("--for") + 1] if "--for" in sys.argv else None
    dsrc = L.strip_comments(open(os.path.join(REPO, "src/digit.rs")).read())
    L.check_digit_consts(dsrc)                         # global failure: BIT_SHIFT / BITS definitions changed
    dsigs = L.digit_sigs(dsrc)
    failed, fns, sigs, files = {}, {}, {}, {}
    for tgt in TARGETS:
        coq = tgt["coq"]
        try:
            p = os.path.join(REPO, tgt["path"])
            if not os.path.exists(p):
                die("source file %s not found" % p)
            if tgt["path"] not in files:
                files[tgt["path"]] = L.strip_comments(open(p).read())
            body = macro_body(files[tgt["path"]], tgt)
            generics, params, ret, fbody = L.find_fn(body, rx(tgt["anchor"]) if tgt["anchor"] else None, tgt["fn"], tgt["path"])
            sigs[coq] = parse_sig(tgt, generics, params, ret)
            fns[coq] = fbody
        except SystemExit:
            failed[coq] = LAST_MSG[0]
        except Exception as ex:                          # noqa: a bug in the translator must not look like success
            failed[coq] = repr(ex)
    texts, calls = {}, {}
    while True:
        again = False
        for tgt in TARGETS:
            coq = tgt["coq"]
            if coq in failed:
                continue
            try:
                texts[coq], calls[coq] = translate_one(tgt, fns, sigs, dsigs)
            except SystemExit:
                failed[coq] = LAST_MSG[0]
            except Exception as ex:
                failed[coq] = repr(ex)
            if coq in failed:
                sigs.pop(coq, None)
                again = True
        if not again:
            break
    out = list(HEADER)
    emitted = []

    def emit(coq, stack):
        if coq in emitted or coq in failed:
            return
        if coq in stack:
            die("recursion among the conversions: " + " -> ".join(stack + [coq]))
        for c in sorted(calls[coq]):
            emit(c, stack + [coq])
        emitted.append(coq)
        out.append(texts[coq])
    for tgt in TARGETS:
        coq = tgt["coq"]
        if coq in failed:
            out.append("(* %s: %s, fn %s  -- NOT TRANSLATED: %s *)\nDefinition %s : unit := tt.\n"
                       % (tgt["path"], "macro %s!" % tgt["macro"] if tgt["macro"] else "macro numtraits!", tgt["fn"], failed[coq].replace("*)", "* )").replace("(*", "( *"), coq))
        else:
            emit(coq, [])
    out.append("End ConvGen.")
    txt = "\n".join(out) + "\n"
    p = os.path.join(ROOT, "coq", "Generated", "ConvGen.v")
    if not os.path.exists(p) or open(p).read() != txt:
        open(p, "w").write(txt)
    if failed:
        hit = [f for f in failed if group is None or f in GROUPS.get(group, [])]
        sys.stderr.write("rs2v_conv: not translated (stub emitted, its tie lemma will not check): %s\n" % ", ".join(sorted(failed)))
        return 1 if hit else 0
    return 0


if __name__ == "__main__":
    sys.exit(main())

#!/usr/bin/env python3
"""tools/coverage.py [--tier quick|thorough] [C01 C02 ...] — which lines of /repo/src do the correspondence cases execute?

Development / audit tool (not part of any registered check): builds the harness with `-C instrument-coverage` on the
nightly toolchain (the only one here that ships llvm-profdata / llvm-cov), runs the SAME generated cases the correspondence
check runs (seed 1) through the instrumented binaries, and writes
  coverage/summary.json   per source file: executable lines, covered lines, uncovered line numbers
  coverage/uncovered.txt  uncovered lines with their source text, grouped by file
It answers "generator quality bounds the correspondence check": a region of a modelled function that no case reaches is a
region where the hand-written model has never been compared with the code."""
import os, sys, json, subprocess, hashlib, importlib, shutil, glob

ROOT = os.path.dirname(os.path.dirname(os.path.abspath(__file__)))
sys.path.insert(0, ROOT)
REPO = "/repo"
TC = os.path.expanduser("~/.rustup/toolchains/nightly-x86_64-unknown-linux-gnu/lib/rustlib/x86_64-unknown-linux-gnu/bin")
TARGET = os.path.join(ROOT, ".cache", "target-cov")
OUT = os.path.join(ROOT, "coverage")


def main():
    args = sys.argv[1:]
    tier = "quick"
    if "--tier" in args:
        i = args.index("--tier")
        tier = args[i + 1]
        del args[i:i + 2]
    props = args or ["C%02d" % i for i in range(1, 21)]
    env = dict(os.environ, CARGO_NET_OFFLINE="true", CARGO_TARGET_DIR=TARGET,
               RUSTFLAGS="-C instrument-coverage -Z coverage-options=branch --cfg bnum_verif -Awarnings")
    prof = os.path.join(TARGET, "prof")
    shutil.rmtree(prof, ignore_errors=True)
    os.makedirs(prof)
    os.makedirs(OUT, exist_ok=True)
    objects = []
    from gen.common import Rng
    for mode, profile in (("1", "dbgon"), ("0", "dbgoff")):
        subprocess.check_call(["cargo", "+nightly", "build", "--offline", "--quiet", "--profile", profile, "--bins"],
                              cwd=os.path.join(ROOT, "harness"), env=env)
        for pid in props:
            mod = importlib.import_module("gen.c%s" % pid[1:])
            if (mode == "1") not in mod.MODES:
                continue
            seed = 1
            rng = Rng(seed ^ int(hashlib.sha256(pid.encode()).hexdigest()[:12], 16))
            cases = mod.gen(rng, tier)
            binp = os.path.join(TARGET, profile, mod.BIN)
            objects.append(binp)
            shards = 8
            procs = []
            for s in range(shards):
                e = dict(os.environ, LLVM_PROFILE_FILE=os.path.join(prof, "%s-%s-%d.profraw" % (pid, profile, s)))
                p = subprocess.Popen([binp], stdin=subprocess.PIPE, stdout=subprocess.DEVNULL, stderr=subprocess.DEVNULL, env=e)
                procs.append((p, "\n".join(cases[s::shards]) + "\n"))
            for p, data in procs:
                try:
                    p.communicate(data.encode(), timeout=3000)
                except subprocess.TimeoutExpired:
                    p.kill()
            print("%s %s: %d cases" % (pid, profile, len(cases)), flush=True)
    merged = os.path.join(prof, "all.profdata")
    subprocess.check_call([os.path.join(TC, "llvm-profdata"), "merge", "-sparse", "-o", merged] + glob.glob(os.path.join(prof, "*.profraw")))
    cmd = [os.path.join(TC, "llvm-cov"), "export", "-format=lcov", "-instr-profile", merged]
    for i, o in enumerate(objects):
        cmd += ([o] if i == 0 else ["-object", o])
    lcov = subprocess.run(cmd, stdout=subprocess.PIPE, stderr=subprocess.DEVNULL).stdout.decode("utf-8", "replace")
    files, cur = {}, None
    for line in lcov.splitlines():
        if line.startswith("SF:"):
            cur = line[3:]
            files.setdefault(cur, {})
        elif line.startswith("DA:") and cur:
            ln, cnt = line[3:].split(",")[:2]
            files[cur][int(ln)] = files[cur].get(int(ln), 0) + int(cnt)
    summary = {}
    with open(os.path.join(OUT, "uncovered.txt"), "w") as un:
        for f in sorted(files):
            if not f.startswith(REPO + "/src/"):
                continue
            rel = os.path.relpath(f, REPO)
            lines = files[f]
            unc = sorted(l for l, c in lines.items() if c == 0)
            summary[rel] = {"executable_lines": len(lines), "covered": len(lines) - len(unc), "uncovered": unc}
            if unc:
                src = open(f).read().splitlines()
                un.write("== %s  (%d/%d lines covered)\n" % (rel, len(lines) - len(unc), len(lines)))
                for l in unc:
                    un.write("%5d  %s\n" % (l, src[l - 1] if l - 1 < len(src) else ""))
    # region / branch level: segments that start an uncovered region on a line that IS executed, and branches never taken one way
    cmdj = [c if c != "-format=lcov" else "-format=text" for c in cmd]
    data = json.loads(subprocess.run(cmdj, stdout=subprocess.PIPE, stderr=subprocess.DEVNULL).stdout.decode("utf-8", "replace"))
    with open(os.path.join(OUT, "uncovered_regions.txt"), "w") as ur:
        for fobj in data["data"][0]["files"]:
            f = fobj["filename"]
            if not f.startswith(REPO + "/src/"):
                continue
            rel = os.path.relpath(f, REPO)
            src = open(f).read().splitlines()
            dead = set(summary.get(rel, {}).get("uncovered", []))
            regs = sorted(set((sg[0], sg[1]) for sg in fobj.get("segments", []) if sg[3] and sg[2] == 0 and sg[4] and not sg[5] and sg[0] not in dead))
            agg = {}
            for b in fobj.get("branches", []):
                k = (b[0], b[1], b[2], b[3])
                t, f_ = agg.get(k, (0, 0))
                agg[k] = (t + b[4], f_ + b[5])
            brs = sorted((k[0], k[1], "true-never" if t == 0 else "false-never") for k, (t, f_) in agg.items()
                         if (t == 0) != (f_ == 0) and k[0] not in dead)
            summary.setdefault(rel, {})["uncovered_regions_on_covered_lines"] = len(regs)
            summary[rel]["one_sided_branches"] = len(brs)
            if regs or brs:
                ur.write("== %s\n" % rel)
                for (l, c) in regs:
                    ur.write("  region %5d:%-3d %s\n" % (l, c, src[l - 1].strip()[:150]))
                for (l, c, k) in brs:
                    ur.write("  branch %5d:%-3d %-11s %s\n" % (l, c, k, src[l - 1].strip()[:150]))
    json.dump({"tier": tier, "properties": props, "files": summary}, open(os.path.join(OUT, "summary.json"), "w"), indent=1)
    tot = sum(v["executable_lines"] for v in summary.values())
    cov = sum(v["covered"] for v in summary.values())
    print("lines of /repo/src executed by the correspondence cases: %d / %d" % (cov, tot))
    shutil.rmtree(prof, ignore_errors=True)


if __name__ == "__main__":
    main()

#!/bin/bash
# tools/confirm_mutant.sh <worktree> <N> : independently confirm a seeded change delivered in <worktree>/out/
#   (clean tree: demo passes; with the change: builds with both feature sets, the whole test suite passes, demo fails)
WT=$1; N=$2
cd $WT || exit 2
git checkout -q -- . ; git status --short | grep -v '^?? out/' | head -3
echo "== demo on clean tree"; (cd out/demo$N && cp -f $WT/Cargo.lock . 2>/dev/null; cargo run --offline -q >/dev/null 2>&1; echo "exit=$?")
git apply out/mut$N.diff || { echo "DIFF DOES NOT APPLY"; exit 1; }
echo "== build default + features"; cargo build --offline -q 2>&1 | grep -E "^error" | head -3; cargo build --offline -q --features numtraits,rand 2>&1 | grep -E "^error" | head -3
echo "== test suite with the change"; cargo test --workspace --no-fail-fast --offline 2>&1 | grep -E "^test result|FAILED|failed" | head -6
echo "== demo with the change"; (cd out/demo$N && cargo run --offline -q >/dev/null 2>&1; echo "exit=$?"; cargo run --offline -q --release >/dev/null 2>&1; echo "release exit=$?")
git checkout -q -- .
rm -rf out/demo$N/target

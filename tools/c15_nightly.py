#!/usr/bin/env python3
"""tools/c15_nightly.py [--tier quick|thorough] [--all]

Correspondence run of the NIGHTLY-ONLY part of C15 (to_{be,le,ne}_bytes / from_{be,le,ne}_bytes of
BUint and BInt), which `./check C15` cannot cover because it builds the harness on the stable
toolchain without bnum's `nightly` feature.

  * builds harness binary c15 with  cargo +nightly build --features nightly_bytes  (profiles dbgon and
    dbgoff, target dir .cache/target-nightly, same RUSTFLAGS as ./check),
  * builds the extracted model runner exactly as ./check does (functions imported from ./check),
  * generates the cases of gen/c15.py with VERIF_NIGHTLY=1 (only the *_bytes group unless --all),
  * runs implementation and model on them, compares textually, prints a summary; exit 0 iff zero disagreements.

If no nightly toolchain is installed it says so and exits 3 (nothing is claimed)."""
import sys, os, subprocess, hashlib, importlib, importlib.machinery, importlib.util, time

ROOT = os.path.dirname(os.path.dirname(os.path.abspath(__file__)))


def load_check():
    loader = importlib.machinery.SourceFileLoader("check_driver", os.path.join(ROOT, "check"))
    spec = importlib.util.spec_from_loader("check_driver", loader)
    m = importlib.util.module_from_spec(spec)
    loader.exec_module(m)
    return m


def main():
    tier = "quick"
    everything = False
    a = sys.argv[1:]
    i = 0
    while i < len(a):
        if a[i] == "--tier":
            tier = a[i + 1]
            i += 2
        elif a[i] == "--all":
            everything = True
            i += 1
        else:
            i += 1
    t0 = time.time()
    rc = subprocess.run(["cargo", "+nightly", "--version"], stdout=subprocess.PIPE, stderr=subprocess.STDOUT)
    if rc.returncode != 0:
        print("C15-nightly: no nightly toolchain (cargo +nightly fails): the *_bytes functions are NOT covered by a correspondence run")
        return 3
    os.environ["VERIF_NIGHTLY"] = "1"
    if not everything:
        os.environ["VERIF_NIGHTLY_ONLY"] = "1"
    sys.path.insert(0, ROOT)
    chk = load_check()
    mod = importlib.import_module("gen.c15")
    cst = chk.build_coq("C15")
    if not cst.get("run_ok"):
        print("C15-nightly: run table did not build\n" + cst["log"][-2000:])
        return 2
    runner, rerr = chk.build_runner("C15")
    if runner is None:
        print("C15-nightly: runner did not build\n" + rerr[-2000:])
        return 2
    tdir = os.path.join(chk.CACHE, "target-nightly")
    bins = {}
    for dbg in mod.MODES:
        prof = "dbgon" if dbg else "dbgoff"
        env = dict(os.environ)
        env.update({"CARGO_TARGET_DIR": tdir, "CARGO_NET_OFFLINE": "true", "RUSTFLAGS": "--cfg %s -Awarnings" % chk.HOOK_CFG})
        p = subprocess.run(["timeout", "3000", "cargo", "+nightly", "build", "--offline", "--quiet", "--profile", prof,
                            "--bin", "c15", "--features", "nightly_bytes"], cwd=os.path.join(ROOT, "harness"), env=env,
                           stdout=subprocess.PIPE, stderr=subprocess.STDOUT)
        if p.returncode != 0:
            print("C15-nightly: nightly harness build failed (profile %s):\n%s" % (prof, p.stdout.decode("utf-8", "replace")[-3000:]))
            return 2
        bins[dbg] = os.path.join(tdir, prof, "c15")
    seed = int(os.environ.get("VERIF_SEED", "20261001"))
    rng = importlib.import_module("gen.common").Rng(seed ^ int(hashlib.sha256(b"C15-nightly").hexdigest()[:12], 16))
    cases = mod.gen(rng, tier)
    hist = {}
    diffs = []
    evals = 0
    for dbg in mod.MODES:
        impl = chk.run_sharded([bins[dbg]], cases, chk.NPROC // 2)
        model = chk.run_sharded([runner, "1" if dbg else "0"], cases, chk.NPROC)
        for c, ri, rm in zip(cases, impl, model):
            evals += 1
            op = c.split(" ", 1)[0]
            hist[op] = hist.get(op, 0) + 1
            if rm == "BAD" or ri == "UNSUPPORTED":
                print("C15-nightly: protocol error on %r: impl=%s model=%s" % (c, ri, rm))
                return 2
            if ri != rm:
                diffs.append((c, dbg, ri, rm))
    for c, dbg, ri, rm in diffs[:5]:
        print("DISAGREEMENT case: %s\n debug_assertions=%s\n implementation: %s\n model:          %s" % (c, dbg, ri, rm))
    nb = sum(v for k, v in hist.items() if k.endswith("_bytes"))
    print("C15-nightly (%s): %d evaluations (%d on *_bytes operations, %d operations), disagreements %d, %.1fs"
          % (tier, evals, nb, len(hist), len(diffs), time.time() - t0))
    for k in sorted(hist):
        if k.endswith("_bytes"):
            print("   %-18s %d" % (k, hist[k]))
    return 1 if diffs else 0


if __name__ == "__main__":
    sys.exit(main())

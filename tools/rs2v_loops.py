#!/usr/bin/env python3
"""tools/rs2v_loops.py — TRANSLATOR: the LOOP functions of bnum's arithmetic core  ->  coq/Generated/Loops.v

Reads $BNUM_REPO (default /repo) src/buint/{overflowing,const_trait_fillers,mul,mod,ops,checked,wrapping,cast,convert}.rs and
src/bint/overflowing.rs, takes the functions listed in WANTED out of their `macro_rules!` bodies and translates each into a Gallina function over
the control-flow vocabulary of coq/Model/Imp.v (res monad, arr_get/arr_set, usub, while_loop on explicit fuel) and
the primitive vocabulary of coq/Prim.v, coq/Model/DigitPrims.v, coq/Model/LoopPrims.v, coq/Generated/DigitGen.v.
coq/Proofs/LoopsTie*.v prove every generated function equal to the hand-written model, for all inputs: an edit of
the Rust source that changes behaviour breaks a proof obligation.  Anything outside the supported subset makes the
translator fail loudly (exit 1).  See tools/LOOPS_TRANSLATOR.md for the subset and the translation scheme."""
import re, sys, os
sys.path.insert(0, os.path.dirname(os.path.abspath(__file__)))
import rs2v_digit as _dig          # the expression parser (precedence climbing) is reused from rs2v_digit.P

REPO = os.environ.get("BNUM_REPO", "/repo")
ROOT = os.path.dirname(os.path.dirname(os.path.abspath(__file__)))

# (source file, anchor regex the search for the fn starts after (or None), Rust fn name, Gallina name)
WANTED = [
    ("src/buint/overflowing.rs", None, "overflowing_add", "overflowing_add"),
    ("src/buint/overflowing.rs", None, "overflowing_sub", "overflowing_sub"),
    ("src/buint/const_trait_fillers.rs", None, "bitand", "bitand"),
    ("src/buint/const_trait_fillers.rs", None, "bitor", "bitor"),
    ("src/buint/const_trait_fillers.rs", None, "bitxor", "bitxor"),
    ("src/buint/const_trait_fillers.rs", None, "not", "not_"),
    ("src/buint/const_trait_fillers.rs", None, "eq", "eq_"),
    ("src/buint/const_trait_fillers.rs", None, "cmp", "cmp"),
    ("src/buint/mul.rs", None, "long_mul", "long_mul"),
    ("src/buint/mod.rs", None, "count_ones", "count_ones"),
    ("src/buint/mod.rs", None, "count_zeros", "count_zeros"),
    ("src/buint/mod.rs", None, "leading_zeros", "leading_zeros"),
    ("src/buint/mod.rs", None, "trailing_zeros", "trailing_zeros"),
    ("src/buint/mod.rs", None, "leading_ones", "leading_ones"),
    ("src/buint/mod.rs", None, "trailing_ones", "trailing_ones"),
    ("src/buint/mod.rs", None, "is_power_of_two", "is_power_of_two"),
    ("src/buint/mod.rs", None, "is_zero", "is_zero"),
    ("src/buint/mod.rs", None, "is_one", "is_one"),
    ("src/buint/mod.rs", None, "last_digit_index", "last_digit_index"),
    ("src/buint/mod.rs", None, "unchecked_shl_internal", "unchecked_shl_internal"),
    ("src/buint/mod.rs", None, "unchecked_shr_pad_internal", "unchecked_shr_pad_internal"),
    ("src/buint/mod.rs", None, "rotate_digits_left", "rotate_digits_left"),
    ("src/buint/mod.rs", None, "unchecked_rotate_left", "unchecked_rotate_left"),
    ("src/buint/mod.rs", None, "swap_bytes", "swap_bytes"),
    ("src/buint/mod.rs", None, "reverse_bits", "reverse_bits"),
    ("src/buint/ops.rs", r"impl\s*<\s*const\s+N\s*:\s*usize\s*>\s*Add\s*<\s*\$Digit\s*>\s*for\s*\$BUint\s*<\s*N\s*>", "add", "add_digit"),
    ("src/buint/checked.rs", None, "div_rem_digit", "div_rem_digit"),
    # ---- second batch (tools/LOOPS_TRANSLATOR.md, "second batch")
    ("src/buint/mod.rs", None, "from_digit", "from_digit"),
    ("src/buint/mod.rs", None, "digits", "digits"),
    ("src/buint/mod.rs", None, "from_digits", "from_digits"),
    ("src/buint/mod.rs", None, "bit", "bit"),
    ("src/buint/mod.rs", None, "set_bit", "set_bit"),
    ("src/buint/mod.rs", None, "power_of_two", "power_of_two"),
    ("src/bint/overflowing.rs", None, "overflowing_add", "I_overflowing_add"),
    ("src/bint/overflowing.rs", None, "overflowing_sub", "I_overflowing_sub"),
    ("src/bint/overflowing.rs", None, "overflowing_neg", "I_overflowing_neg"),
    ("src/buint/overflowing.rs", None, "overflowing_pow", "overflowing_pow"),
    ("src/buint/checked.rs", None, "checked_pow", "checked_pow"),
    ("src/buint/wrapping.rs", None, "wrapping_pow", "wrapping_pow"),
    ("src/buint/mod.rs", None, "bits", "bits"),
    ("src/buint/checked.rs", None, "checked_ilog2", "checked_ilog2"),
    ("src/buint/checked.rs", None, "iilog", "iilog"),
    ("src/buint/checked.rs", None, "checked_ilog10", "checked_ilog10"),
    ("src/buint/checked.rs", None, "checked_ilog", "checked_ilog"),
    ("src/buint/checked.rs", None, "checked_next_power_of_two", "checked_next_power_of_two"),
    ("src/buint/checked.rs", None, "checked_next_multiple_of", "checked_next_multiple_of"),
    ("src/buint/cast.rs", None, "cast_up", "cast_up"),
    ("src/buint/cast.rs", None, "cast_down", "cast_down"),
    # a function of a macro that is instantiated for several PRIMITIVE integer types: fifth component =
    # (macro name, regex of its parameter list, the metavariable of the primitive type, regex every instantiating type must match)
    ("src/buint/cast.rs", r"impl\s*<\s*const\s+N\s*:\s*usize\s*>\s*CastFrom\s*<\s*\$ty\s*>\s*for\s*\$BUint\s*<\s*N\s*>", "cast_from", "as_buint",
     ("as_buint", r"\(\s*\$BUint\s*:\s*ident\s*,\s*\$Digit\s*:\s*ident\s*;\s*\$\(\s*\$ty\s*:\s*ty\s*\)\s*,\s*\*\s*\)", "$ty", r"[ui](8|16|32|64|128|size)")),
    ("src/buint/convert.rs", r"impl\s*<\s*const\s+N\s*:\s*usize\s*>\s*From\s*<\s*\$uint\s*>\s*for\s*\$BUint\s*<\s*N\s*>", "from", "from_uint",
     ("from_uint", r"\(\s*\$BUint\s*:\s*ident\s*,\s*\$Digit\s*:\s*ident\s*;\s*\$\(\s*\$uint\s*:\s*tt\s*\)\s*,\s*\*\s*\)", "$uint", r"u(8|16|32|64|128|size)")),
]

# `Self` in the files of src/bint/ is $BInt<N> (a struct around `bits: $BUint<N>`)
def selfty_of(path):
    return "bint" if path.startswith("src/bint/") else "buint"

# associated consts that a file uses but another file defines: file -> files whose `const NAME: usize|ExpType = ..;` are visible
CONST_FILES = {"src/bint/overflowing.rs": ["src/bint/consts.rs"]}

# Methods of $BUint that are NOT re-translated: the call becomes a call of the hand-written model function (qualified name),
# exactly as tools/rs2v_glue.py does; the tie of the callee to its own source is another obligation (C02: long_mul / glue).
# (receiver type, method) -> (Gallina head, argument types, result type)
# flags: "outcome" - the model function returns `outcome T` (it can panic): the call is `of_outcome (..)` in the res monad;
#        "dbg" - the model function takes the `dbg` flag (overflow checks on / off): the translated function gets a `dbg` parameter
MODEL_CALLS = {
    ("buint", "overflowing_mul"): ("Mul.U_overflowing_mul w", ["buint"], ("buint", "bool"), ()),
    ("buint", "checked_mul"): ("Mul.U_checked_mul w", ["buint"], ("option", "buint"), ()),
    ("buint", "wrapping_mul"): ("Mul.U_wrapping_mul w", ["buint"], "buint", ()),
    ("buint", "mul"): ("Mul.U_mul dbg w", ["buint"], "buint", ("outcome", "dbg")),
    ("buint", "sub"): ("AddSub.U_sub dbg w", ["buint"], "buint", ("outcome", "dbg")),
    ("buint", "div"): ("Div.U_div w", ["buint"], "buint", ("outcome",)),
    ("buint", "div_rem_unchecked"): ("Div.U_div_rem_unchecked w", ["buint"], ("buint", "buint"), ()),
    ("buint", "checked_rem"): ("Div.U_checked_rem w", ["buint"], ("option", "buint"), ()),
    ("buint", "checked_add"): ("AddSub.U_checked_add w", ["buint"], ("option", "buint"), ()),
    ("buint", "gt"): ("cmp_gt (ucmp {0} {1})", ["buint"], "bool", ()),           # src/int/cmp.rs gt: `match self.cmp(&other) { Greater => true, _ => false }`
}

# which property's tie file (Proofs/LoopsTie<group>.v) is about which generated function: a function that cannot be
# translated is replaced by a stub (so only ITS tie breaks), and with `--for Cxx` the exit status is non-zero only when a
# function of that group (or something global: a constant definition, a missing file) could not be translated
GROUPS = {
    "C01": ["overflowing_add", "overflowing_sub", "add_digit", "I_overflowing_add", "I_overflowing_sub", "I_overflowing_neg"],
    "C02": ["long_mul"],
    "C05": ["unchecked_shl_internal", "unchecked_shr_pad_internal", "rotate_digits_left", "unchecked_rotate_left", "swap_bytes",
            "reverse_bits"],
    "C06": ["bitand", "bitor", "bitxor", "not_", "eq_", "cmp", "count_ones", "count_zeros", "leading_zeros", "trailing_zeros",
            "leading_ones", "trailing_ones", "is_power_of_two", "is_zero", "is_one", "from_digit", "digits", "from_digits", "bit",
            "set_bit", "power_of_two", "bits", "checked_next_power_of_two"],
    "C09": ["cast_up", "cast_down", "as_buint"],
    "C13": ["from_uint"],
    "C08": ["overflowing_pow", "checked_pow", "wrapping_pow", "checked_ilog2", "iilog", "checked_ilog10", "checked_ilog"],
    "C03": ["div_rem_digit", "last_digit_index", "checked_next_multiple_of"],
}
LAST_MSG = [""]


QUIET = [0]
# Hardening of the tie proofs against harmless rewrites (tools/LOOPS_TRANSLATOR.md, "Hardening"): canonical forms of the
# generated Gallina.  OFF for the translators that import this module as a library (their generated files keep their
# shape); switched on by this script's own main() only.
CANON = [False]


def die(msg):
    LAST_MSG[0] = msg
    if not QUIET[0]:
        sys.stderr.write("rs2v_loops: " + msg + "\n")
    sys.exit(1)


# ---------------------------------------------------------------- lexing

def strip_comments(s):
    """removes // and /* */ comments (string- and char-literal aware); keeps everything else"""
    out, i, n = [], 0, len(s)
    while i < n:
        c = s[i]
        if c == '"':
            j = i + 1
            while j < n and s[j] != '"':
                j += 2 if s[j] == "\\" else 1
            out.append(s[i:j + 1])
            i = j + 1
        elif c == "'" and re.match(r"'(\\.|[^\\'])'", s[i:i + 4]):
            m = re.match(r"'(\\.|[^\\'])'", s[i:i + 4])
            out.append(m.group(0))
            i += m.end()
        elif s.startswith("//", i):
            j = s.find("\n", i)
            i = n if j < 0 else j
        elif s.startswith("/*", i):
            j = s.find("*/", i + 2)
            if j < 0:
                die("unterminated block comment")
            i = j + 2
        else:
            out.append(c)
            i += 1
    return "".join(out)


TOK = re.compile(r"\s*(?:(\d[\d_]*)|(\$?[A-Za-z_][A-Za-z0-9_]*!?)|(<<=|>>=|<<|>>|\|\||&&|!=|==|<=|>=|->|::|\+=|-=|\*=|/=|%=|\|=|&=|\^=|[-+*/%|&^<>!=(){}\[\],;:.#]))")


def tokenize(s):
    out, i = [], 0
    while i < len(s):
        m = TOK.match(s, i)
        if not m:
            if s[i:].strip() == "":
                break
            die("cannot tokenize near: " + s[i:i + 40].strip())
        i = m.end()
        out.append(m.group(1) or m.group(2) or m.group(3))
    return out


# ---------------------------------------------------------------- parsing
# AST nodes are Python lists (distinct objects: the type pass keys information on id(node)).

ASSIGN_OPS = ("=", "+=", "-=", "|=", "&=", "^=", "*=", "/=", "%=", "<<=", ">>=")
IDENT = re.compile(r"^\$?[A-Za-z_]\w*$")
KEYWORDS = {"let", "mut", "while", "if", "else", "break", "return", "unsafe", "as", "for", "loop", "match", "fn",
            "continue", "in", "true", "false", "const", "static", "struct", "impl", "move", "ref"}


class LP(_dig.P):
    """Parser for function bodies.  Inherits peek / expr (binary-operator precedence climbing, LEVELS) from
    rs2v_digit.P; statements, unary operators, paths, indexing, types are defined here."""

    def __init__(self, toks, selfty="buint", prim=None):
        _dig.P.__init__(self, toks)
        self.selfty = selfty           # what `Self` means in the file being parsed
        self.prim = prim               # the macro metavariable that stands for a primitive integer type ($uint, $ty)

    def eat(self, x=None):
        v = self.peek()
        if x is not None and v != x:
            die("expected %r, got %r (token %d: ... %s)" % (x, v, self.i, " ".join(self.t[max(0, self.i - 6):self.i + 3])))
        if v is None:
            die("unexpected end of input")
        self.i += 1
        return v

    def ident(self):
        v = self.eat()
        if not IDENT.match(v) or v in KEYWORDS:
            die("expected identifier, got %r" % v)
        return v

    # ---- types
    def type_(self):
        v = self.peek()
        if v == "&":
            self.eat()
            if self.peek() == "mut":
                die("&mut types are not supported")
            return self.type_()
        if v == "(":
            self.eat("(")
            ts = [self.type_()]
            while self.peek() == ",":
                self.eat(",")
                ts.append(self.type_())
            self.eat(")")
            return tuple(ts)
        if v == "[":                                   # [$Digit; N] / [$Digit; M]
            self.eat("["), self.eat("$Digit"), self.eat(";")
            z = self.ident()
            self.eat("]")
            return "digits" if z == "N" else Arr("digits", z)
        name = self.ident()
        if self.prim is not None and name == self.prim:
            return "PInt"
        if name in ("usize", "bool", "ExpType", "Ordering"):
            return {"Ordering": "ordering"}.get(name, name)
        if name == "u32":
            return "ExpType"
        if name == "$Digit":
            return "Digit"
        if name == "digit":                            # digit::$Digit::SignedDigit
            self.eat("::"), self.eat("$Digit"), self.eat("::"), self.eat("SignedDigit")
            return "SDigit"
        if name == "Self":
            return self.selfty
        if name in ("$BUint", "$BInt"):
            self.eat("<")
            z = self.ident()
            self.eat(">")
            k = {"$BUint": "buint", "$BInt": "bint"}[name]
            return k if z == "N" else Arr(k, z)
        if name == "Option":
            self.eat("<")
            t = self.type_()
            self.eat(">")
            return ("option", t)
        die("unsupported type %s" % name)

    # ---- statements
    def block(self):
        """'{' stmt* [expr] '}' -> list of statements; a value-producing tail is ['expr', e]"""
        self.eat("{")
        stmts = []
        while self.peek() != "}":
            if stmts and stmts[-1][0] == "expr":
                die("expression statement without ';' in the middle of a block")
            stmts.append(self.stmt())
        self.eat("}")
        return stmts

    def stmt(self):
        v = self.peek()
        if v == "#":                                   # attribute: skipped
            self.eat("#")
            self.eat("[")
            d = 1
            while d:
                x = self.eat()
                d += {"[": 1, "]": -1}.get(x, 0)
            return self.stmt()
        if v == "const":                                # `const NAME: T = e;` inside a body: an immutable, typed `let`
            self.eat("const")
            name = self.ident()
            self.eat(":")
            ty = self.type_()
            self.eat("=")
            init = self.expr()
            self.eat(";")
            return ["let", ["pid", (name, False)], ty, init]
        if v == "let":
            self.eat("let")
            pat = self.pattern()
            ty = None
            if self.peek() == ":":
                self.eat(":")
                ty = self.type_()
            init = None
            if self.peek() == "=":
                self.eat("=")
                init = self.expr()
            self.eat(";")
            return ["let", pat, ty, init]
        if v == "while":
            self.eat("while")
            c = self.expr()
            return ["while", c, self.block()]
        if v == "if":
            s = self.if_()
            if self.peek() == ";":
                self.eat(";")
            return s
        if v == "break":
            self.eat("break")
            self.eat(";")
            return ["break"]
        if v == "return":
            self.eat("return")
            e = None if self.peek() == ";" else self.expr()
            self.eat(";")
            return ["return", e]
        if v == "unsafe" or v == "{":
            if v == "unsafe":
                self.eat("unsafe")
            b = self.block()
            if self.peek() == ";":
                self.eat(";")
            return ["block", b]
        if v == "use":                                  # `use core::cmp::Ordering;` inside a body: no effect on the translation
            while self.eat() != ";":
                pass
            return self.stmt() if self.peek() != "}" else ["block", []]
        if v in ("for", "loop", "continue"):
            die("unsupported statement: %s" % v)
        if v == "match":
            e = self.match_()
            if self.peek() == ";":
                self.eat(";")
                die("match statement whose value is discarded: not supported")
            return ["expr", e]
        if v == "debug_assert!" or v == "assert!" or (v is not None and v.endswith("!")):
            die("macro invocation %s is not supported" % v)
        e = self.expr()
        if self.peek() in ASSIGN_OPS:
            op = self.eat()
            r = self.expr()
            self.eat(";")
            return ["assign", e, op, r]
        if self.peek() == ";":
            self.eat(";")
            die("expression statement with no effect / unsupported: %s" % (e,))
        return ["expr", e]

    def if_(self):
        self.eat("if")
        c = self.expr()
        a = self.block()
        b = None
        if self.peek() == "else":
            self.eat("else")
            b = [self.if_()] if self.peek() == "if" else self.block()
        return ["if", c, a, b]

    def match_(self):
        """match e { pat => body, .. }   pat ::= Some(x) | None | A::B | _ ;  body ::= expr | { block } | return e"""
        self.eat("match")
        scrut = self.expr()
        self.eat("{")
        arms = []
        while self.peek() != "}":
            v = self.peek()
            if v == "_":
                self.eat()
                pat = ["pwild"]
            elif v == "Some":
                self.eat()
                self.eat("(")
                pat = ["psome", self.ident()]
                self.eat(")")
            elif v == "None":
                self.eat()
                pat = ["pnone"]
            elif v is not None and IDENT.match(v) and v not in KEYWORDS:
                segs = [self.eat()]
                while self.peek() == "::":
                    self.eat("::")
                    segs.append(self.ident())
                if len(segs) < 2:
                    die("match pattern that binds a variable (%s): not supported" % segs[0])
                pat = ["ppath", segs]
            else:
                die("unsupported match pattern starting with %r" % v)
            if self.peek() == "if":
                die("match guards are not supported")
            self.eat("=")
            self.eat(">")
            if self.peek() == "return":
                self.eat("return")
                body = ["ret", self.expr()]
            else:
                body = self.expr()
            arms.append((pat, body))
            if self.peek() == ",":
                self.eat(",")
            elif self.peek() != "}" and not (isinstance(body, list) and body[0] == "blockx"):
                die("expected ',' or '}' after a match arm, got %r" % self.peek())
        self.eat("}")
        return ["match", scrut, arms]

    def pattern(self):
        def one():
            mut = False
            if self.peek() == "mut":
                self.eat("mut")
                mut = True
            return (self.ident(), mut)
        if self.peek() == "(":
            self.eat("(")
            ns = [one()]
            while self.peek() == ",":
                self.eat(",")
                ns.append(one())
            self.eat(")")
            return ["ptuple", ns]
        return ["pid", one()]

    # ---- expressions: binary levels inherited; `as` > unary > postfix > primary
    def cast(self):
        e = self.unary()
        while self.peek() == "as":
            self.eat("as")
            e = ["as", e, self.type_()]
        return e

    def unary(self):
        v = self.peek()
        if v in ("!", "&", "-", "*"):
            self.eat()
            if v == "&" and self.peek() == "mut":
                self.eat("mut")
                return ["refmut", self.unary()]
            return ["un", v, self.unary()]
        return self.postfix()

    def args(self):
        self.eat("(")
        a = []
        while self.peek() != ")":
            a.append(self.expr())
            if self.peek() == ",":
                self.eat(",")
            elif self.peek() != ")":
                die("expected ',' or ')' in argument list, got %r" % self.peek())
        self.eat(")")
        return a

    def postfix(self):
        e = self.primary()
        while True:
            if self.peek() == ".":
                self.eat(".")
                name = self.eat()
                if re.match(r"^\d+$", name):
                    e = ["field", e, name]
                elif not IDENT.match(name):
                    die("bad field / method name %r" % name)
                elif self.peek() == "(":
                    e = ["mcall", e, name, self.args()]
                elif self.peek() == "::":
                    die("generic arguments on method calls (::<..>) are not supported")
                else:
                    e = ["field", e, name]
            elif self.peek() == "[":
                self.eat("[")
                ix = self.expr()
                self.eat("]")
                e = ["index", e, ix]
            else:
                return e

    def primary(self):
        v = self.peek()
        if v == "(":
            self.eat("(")
            es = [self.expr()]
            trailing = False
            while self.peek() == ",":
                self.eat(",")
                if self.peek() == ")":
                    trailing = True
                    break
                es.append(self.expr())
            self.eat(")")
            return es[0] if len(es) == 1 and not trailing else ["tuple", es]
        if v == "if":
            s = self.if_()
            return ["ifx", s[1], s[2], s[3]]
        if v == "unsafe":
            self.eat("unsafe")
            return ["blockx", self.block()]
        if v == "{":
            return ["blockx", self.block()]
        if v == "<" and self.prim is not None and self.peek(1) == self.prim and self.peek(2) == ">" and self.peek(3) == "::":
            self.eat(), self.eat(), self.eat(), self.eat()   # <$ty>::NAME
            return ["path", [self.prim, self.ident()]]
        if v == "[":                                   # [e; M]: an array of M copies of e
            self.eat("[")
            e = self.expr()
            self.eat(";")
            z = self.ident()
            self.eat("]")
            return ["arrep", e, z]
        if v == "match":
            return self.match_()
        if v is not None and re.match(r"^\d[\d_]*$", v):
            self.eat()
            return ["lit", int(v.replace("_", ""))]
        if v in ("true", "false"):
            self.eat()
            return ["bool", v == "true"]
        if v is not None and IDENT.match(v) and v not in KEYWORDS:
            segs = [self.eat()]
            while self.peek() == "::":
                self.eat("::")
                if self.peek() == "<":
                    die("generic arguments in paths (::<..>) are not supported")
                segs.append(self.ident())
            if self.peek() == "(":
                return ["pcall", segs, self.args()]
            if segs == ["Self"] and self.peek() == "{" and self.peek(1) in ("digits", "bits") and self.peek(2) == "}":
                self.eat("{")                          # `Self { digits }` / `Self { bits }`: the struct around one array
                f = self.eat()
                self.eat("}")
                return ["struct", f, ["var", f]]
            if len(segs) == 1:
                return ["var", segs[0]]
            return ["path", segs]
        die("unexpected token %r (... %s)" % (v, " ".join(self.t[max(0, self.i - 6):self.i + 3])))


# ---------------------------------------------------------------- types

class TVar:
    """the not-yet-determined type of an integer literal (any = True: of the payload of a `None`)"""
    def __init__(self, any=False):
        self.ref = None
        self.any = any


class Arr:
    """$BUint<M>, $BInt<M>, [$Digit; M] for a size M other than N (the name of a `const M: usize` generic), or of a size
    that is still to be inferred (`$BUint::ZERO`, a call `$BUint::f(..)`: size = TVar(any=True))"""
    def __init__(self, kind, size):
        self.kind, self.size = kind, size


def rs_size(z):
    while isinstance(z, TVar) and z.ref is not None:
        z = z.ref
    return z


def rs(t):
    while isinstance(t, TVar) and t.ref is not None:
        t = t.ref
    if isinstance(t, Arr) and rs_size(t.size) == "N":
        return t.kind                              # size N: the plain types "buint" / "bint" / "digits"
    return t


def unify_size(x, y, what):
    x, y = rs_size(x), rs_size(y)
    if x is y or x == y:
        return
    if isinstance(x, TVar):
        x.ref = y
    elif isinstance(y, TVar):
        y.ref = x
    else:
        die("type mismatch in %s: array of %s vs %s digits" % (what, x, y))


INTS = ("Digit", "usize", "ExpType", "SDigit", "PInt")


def is_int(t):
    t = rs(t)
    return (isinstance(t, TVar) and not t.any) or t in INTS


def unify(a, b, what):
    a, b = rs(a), rs(b)
    if a is b:
        return a
    if (isinstance(a, Arr) or a in ARRAYS) and (isinstance(b, Arr) or b in ARRAYS):
        ka, za = (a.kind, a.size) if isinstance(a, Arr) else (a, "N")
        kb, zb = (b.kind, b.size) if isinstance(b, Arr) else (b, "N")
        if ka != kb:
            die("type mismatch in %s: %s vs %s" % (what, show(a), show(b)))
        unify_size(za, zb, what)
        return rs(Arr(ka, za))
    if isinstance(a, TVar):
        if isinstance(b, TVar) and b.any and not a.any:
            b.ref = a
            return a
        if not a.any and not is_int(b):
            die("type mismatch in %s: integer vs %s" % (what, show(b)))
        a.ref = b
        return b
    if isinstance(b, TVar):
        return unify(b, a, what)
    if isinstance(a, tuple) and isinstance(b, tuple) and len(a) == len(b):
        return tuple(unify(x, y, what) for x, y in zip(a, b))
    if a != b:
        die("type mismatch in %s: %s vs %s" % (what, show(a), show(b)))
    return a


def show(t):
    t = rs(t)
    if isinstance(t, TVar):
        return "{unknown}" if t.any else "{integer}"
    if isinstance(t, Arr):
        z = rs_size(t.size)
        return "%s<%s>" % (t.kind, "?" if isinstance(z, TVar) else z)
    if is_opt(t):
        return "Option<%s>" % show(t[1])
    if isinstance(t, tuple):
        return "(" + ", ".join(show(x) for x in t) + ")"
    return t


def is_opt(t):
    return isinstance(t, tuple) and len(t) == 2 and t[0] == "option"


ARRAYS = ("buint", "bint", "digits")      # all three are `list Z` in Gallina (a struct around one array is the array)


def coq_ty(t):
    t = rs(t)
    if is_opt(t):
        inner = coq_ty(t[1])
        return "(option %s)" % (inner if inner.startswith("(") or " " not in inner else "(" + inner + ")")
    if isinstance(t, tuple):
        return "(" + " * ".join(coq_ty(x) for x in t) + ")"
    if isinstance(t, TVar) or t in INTS:
        return "Z"
    if isinstance(t, Arr):
        return "list Z"
    return {"bool": "bool", "buint": "list Z", "bint": "list Z", "digits": "list Z", "ordering": "comparison"}[t]


DIGIT_METHODS = {   # Digit method -> (Gallina head applied to the receiver, result type)
    "count_ones": ("u_count_ones", "ExpType"), "count_zeros": ("u_count_zeros w", "ExpType"),
    "leading_zeros": ("u_leading_zeros w", "ExpType"), "trailing_zeros": ("u_trailing_zeros w", "ExpType"),
    "leading_ones": ("u_leading_ones w", "ExpType"), "trailing_ones": ("u_trailing_ones w", "ExpType"),
    "swap_bytes": ("u_swap_bytes w", "Digit"), "reverse_bits": ("u_reverse_bits w", "Digit"),
}
POS_CONSTS = {"ONE": 1, "TWO": 2, "THREE": 3, "FOUR": 4, "FIVE": 5, "SIX": 6, "SEVEN": 7, "EIGHT": 8, "NINE": 9, "TEN": 10}
RESERVED = {"w", "N", "fuel", "None", "Some", "pb", "dbg"}


class Var:
    def __init__(self, ty, mut, patvar=False):
        self.ty, self.mut, self.patvar = ty, mut, patvar


class Gen:
    """One instance per translated function; run twice (pass 1 determines the types of integer literals)."""

    def __init__(self, fname, sigs, digit_sigs, consts, tvs, final):
        """fname: the Gallina name (key of sigs) of the function being translated"""
        self.fname, self.sigs, self.digit_sigs, self.consts = fname, sigs, digit_sigs, consts
        self.tvs, self.final = tvs, final
        self.ntmp = 0
        self.ret = sigs[fname]["ret"]
        self.selfty = sigs[fname]["selfty"]
        self.uses_dbg = False
        self.recursive = False
        self.sizes = [g for g, t in sigs[fname]["generics"] if t == "usize"]   # `const M: usize` generics
        self.prim = sigs[fname]["prim"]                # the metavariable of the unsigned primitive type ($uint), or None

    def size_str(self, z, what):
        """the Gallina term for an array size: N, a usize generic, or (final pass) an inferred one"""
        z = rs_size(z)
        if isinstance(z, TVar):
            if self.final:
                self.die("cannot determine the size of " + what)
            return "N"
        if z != "N" and z not in self.sizes:
            self.die("array size %s is not N or a `const %s: usize` parameter" % (z, z))
        return z

    def kind_of(self, t):
        """buint / bint / digits for an array type of any size, else None"""
        t = rs(t)
        if isinstance(t, Arr):
            return t.kind
        return t if t in ARRAYS else None

    def lookup(self, ty, name, method):
        """the translated function called `name` of the impl of type ty (method: must take self)"""
        for sg in self.sigs.values():
            if sg["rust"] == name and sg["selfty"] == ty and sg["callable"] and (not method or sg["self"]):
                return sg
        return None

    def die(self, msg):
        die("in fn %s: %s" % (self.sigs[self.fname]["rust"] if self.fname in self.sigs else self.fname, msg))

    def tmp(self):
        self.ntmp += 1
        return "t%d'" % self.ntmp

    def tv(self, node):
        if id(node) not in self.tvs:
            self.tvs[id(node)] = (node, TVar())          # keep the node alive: ids stay unique
        return self.tvs[id(node)][1]

    def is_ref(self, t):
        return isinstance(t, tuple) and len(t) == 3 and t[0] == "ref"

    def tv_any(self, node):
        if id(node) not in self.tvs:
            self.tvs[id(node)] = (node, TVar(any=True))
        return self.tvs[id(node)][1]

    def need(self, t, what):
        """the concrete type of an integer operand; only known for sure in the final pass"""
        t = rs(t)
        if isinstance(t, TVar):
            if self.final:
                self.die("cannot determine the integer type of " + what)
            return "usize"
        return t

    # ------------------------------------------------ expressions: returns (prelude lines, value, type)
    def ex(self, e, env):
        k = e[0]
        if k == "var":
            n = e[1]
            if n == "N":
                return [], "N", "usize"
            if n == "None" and n not in env:
                return [], "None", ("option", self.tv_any(e))
            if n not in env:
                self.die("unbound variable " + n)
            return [], n, env[n].ty
        if k == "lit":
            return [], str(e[1]), self.tv(e)
        if k == "bool":
            return [], "true" if e[1] else "false", "bool"
        if k == "path":
            return self.path(e[1], env, e)
        if k == "arrep":
            p, v, t = self.ex(e[1], env)
            unify(t, "Digit", "element of [e; %s]" % e[2])
            return p, "(repeat %s (Z.to_nat %s))" % (v, self.size_str(e[2], "[e; %s]" % e[2])), rs(Arr("digits", e[2]))
        if k == "tuple":
            pre, vs, ts = [], [], []
            for x in e[1]:
                p, v, t = self.ex(x, env)
                pre += p
                vs.append(v)
                ts.append(t)
            return pre, "(" + ", ".join(vs) + ")", tuple(ts)
        if k == "field":
            p, v, t = self.ex(e[1], env)
            t = rs(t)
            if e[2] == "bits" and self.kind_of(t) == "bint":        # struct $BInt { bits: $BUint }: same digit list
                return p, v, rs(Arr("buint", t.size)) if isinstance(t, Arr) else "buint"
            if e[2] == "digits" and self.kind_of(t) == "buint":     # struct $BUint { digits: [$Digit; N] }
                return p, v, rs(Arr("digits", t.size)) if isinstance(t, Arr) else "digits"
            if not (isinstance(t, tuple) and not is_opt(t) and len(t) == 2 and e[2] in ("0", "1")):
                self.die("unsupported field access .%s on %s" % (e[2], show(t)))
            return p, "(%s %s)" % ("fst" if e[2] == "0" else "snd", v), t[int(e[2])]
        if k == "index":
            arr = self.array_of(e[1], env)
            p, v, t = self.ex(e[2], env)
            unify(t, "usize", "array index")
            x = self.tmp()
            return p + ["%s <- arr_get %s %s ;;" % (x, arr, v)], x, "Digit"
        if k == "un":
            op = e[1]
            if op == "&":
                return self.ex(e[2], env)
            if op == "*":
                if e[2][0] == "var" and e[2][1] in env and self.is_ref(env[e[2][1]].ty):
                    _, arr, ix = env[e[2][1]].ty
                    x = self.tmp()
                    return ["%s <- arr_get %s %s ;;" % (x, arr, ix)], x, "Digit"
                self.die("unsupported dereference " + str(e[2]))
            p, v, t = self.ex(e[2], env)
            if op == "!":
                if rs(t) == "bool":
                    return p, "(negb %s)" % v, "bool"
                if isinstance(rs(t), TVar) and not self.final:
                    return p, "0", t                   # type not yet known (first pass): decided by the context
                if self.need(t, "operand of !") == "Digit":
                    return p, "(u_not w %s)" % v, "Digit"
                self.die("unsupported operand type for !: " + show(t))
            self.die("unsupported unary operator " + op)
        if k == "as":
            p, v, t = self.ex(e[1], env)
            dst = e[2]
            src = rs(t)
            if isinstance(src, TVar):
                unify(src, dst, "cast")
                return p, v, dst
            # usize <-> u32 (ExpType): identity on the values that occur (model convention: both are plain Z;
            # Rust's usize is at least 32 bits on every supported target, and u32 -> usize never truncates)
            if src in ("usize", "ExpType") and dst in ("usize", "ExpType"):
                return p, v, dst
            if src == dst:
                return p, v, dst
            if (src, dst) == ("Digit", "SDigit"):        # same conventions as tools/rs2v_digit.py (Prim.v: sd / ud)
                return p, "(sd w %s)" % v, dst
            if (src, dst) == ("SDigit", "Digit"):
                return p, "(ud w %s)" % v, dst
            if (src, dst) == ("bool", "Digit"):
                return p, "(Z.b2z %s)" % v, dst
            if (src, dst) == ("PInt", "Digit"):         # primitive integer -> digit: truncation / zero or sign extension = the value mod 2^w
                return p, "(ud w %s)" % v, dst
            self.die("unsupported cast %s as %s" % (show(src), show(dst)))
        if k == "bin":
            return self.bin(e, env)
        if k == "ifx":
            pc, vc, tc = self.ex(e[1], env)
            unify(tc, "bool", "if condition")
            if e[3] is None:
                self.die("if expression without else")
            pa, va, ta = self.value_block(e[2], env)
            pb, vb, tb = self.value_block(e[3], env)
            t = unify(ta, tb, "if branches")
            if pa or pb:
                x = self.tmp()
                return pc + ["%s <- (if %s then %s else %s) ;;" % (x, vc, self.seq(pa, "Done " + va), self.seq(pb, "Done " + vb))], x, t
            return pc, "(if %s then %s else %s)" % (vc, va, vb), t
        if k == "blockx":
            return self.value_block(e[1], env)
        if k == "struct":
            p, v, t = self.ex(e[2], env)
            want, got = {"buint": ("digits", "digits"), "bint": ("bits", "buint")}[self.selfty]
            if e[1] != want:
                self.die("struct literal Self { %s }" % e[1])
            unify(t, got, "field of the struct literal")
            return p, v, self.selfty
        if k == "refmut":
            self.die("`&mut` is only supported as `let d = &mut x.digits[e];`")
        if k == "mcall":
            return self.mcall(e, env)
        if k == "pcall":
            return self.pcall(e, env)
        self.die("cannot translate expression " + str(e))

    def value_block(self, blk, env):
        """a block used as a value: only `{ expr }` (no statements)"""
        if len(blk) == 1 and blk[0][0] == "expr":
            return self.ex(blk[0][1], env)
        if len(blk) == 1 and blk[0][0] == "block":
            return self.value_block(blk[0][1], env)
        if len(blk) == 1 and blk[0][0] == "if":
            return self.ex(["ifx", blk[0][1], blk[0][2], blk[0][3]], env)
        self.die("a block with statements used as a value is not supported")

    def seq(self, pre, last):
        return "(" + " ".join(pre + [last]) + ")"

    def array_of(self, e, env):
        """`x.digits` / `(&x.digits)` (x: $BUint), `x.bits.digits` (x: $BInt), `x` (x: [$Digit; N]) -> the variable x"""
        while e[0] == "un" and e[1] == "&":
            e = e[2]
        want = "digits"
        if e[0] == "field" and e[2] == "digits":
            e, want = e[1], "buint"
            if e[0] == "field" and e[2] == "bits":
                e, want = e[1], "bint"
        if e[0] == "var" and e[1] in env and self.kind_of(env[e[1]].ty) == want:
            return e[1]
        self.die("unsupported array expression " + str(e))

    def path(self, segs, env, node=None):
        s = tuple(segs)
        if s[:2] == ("crate", "digit"):                # `crate::digit::..` is `digit::..` (the files `use crate::digit;`)
            s = s[1:]
        if s[0] != "Self" and self.sizes and s in (("$BUint", "ZERO"), ("$BUint", "MIN"), ("$BUint", "MAX")):
            # in a function with `const M: usize` parameters the size of `$BUint::ZERO` is inferred by Rust from its use
            z = self.tv_any(node)
            n = "(Z.to_nat %s)" % self.size_str(z, "$BUint::" + s[1])
            return [], ("(UMAX w %s)" if s[1] == "MAX" else "(ZERO %s)") % n, rs(Arr("buint", z))
        if s[0] == "Self":                             # resolve Self to the type of the impl
            s = ({"buint": "$BUint", "bint": "$BInt"}[self.selfty],) + s[1:]
        if s in (("$BUint", "ZERO"), ("$BUint", "MIN")):
            return [], "(ZERO (Z.to_nat N))", "buint"
        if s == ("$BUint", "MAX"):
            return [], "(UMAX w (Z.to_nat N))", "buint"
        if s == ("$BInt", "ZERO"):                     # bint/consts.rs: ZERO = Self::from_bits($BUint::ZERO) (pattern-checked)
            return [], "(ZERO (Z.to_nat N))", "bint"
        if len(s) == 2 and s[0] == "$BUint" and s[1] in POS_CONSTS:
            # buint/consts.rs: pos_const!(ONE 1, ..): `pub const $name: Self = Self::from_digit($num);` (pattern-checked)
            sg = self.lookup("buint", "from_digit", False)
            if sg is None:
                self.die("Self::%s is Self::from_digit(%d), which is not translated" % (s[1], POS_CONSTS[s[1]]))
            x = self.tmp()
            return ["%s <- %s w N fuel %d ;;" % (x, sg["coq"], POS_CONSTS[s[1]])], x, "buint"
        if self.prim is not None and s == (self.prim, "BITS"):
            return [], "pb", "ExpType"                 # $uint::BITS: the parameter pb of the generated function
        if s == ("$Digit", "MAX"):
            return [], "(u_max w)", "Digit"
        if s == ("$Digit", "MIN"):
            return [], "0", "Digit"
        if s == ("digit", "$Digit", "BITS") or s == ("$Digit", "BITS"):
            return [], "w", "ExpType"
        if s == ("digit", "$Digit", "BIT_SHIFT"):
            return [], "(digit_BIT_SHIFT w)", "ExpType"
        if s == ("digit", "$Digit", "BITS_MINUS_1"):
            return [], "(digit_BITS_MINUS_1 w)", "ExpType"
        if s == ("$BUint", "BITS"):
            return [], "(w * N)", "ExpType"
        if s[0] == "Ordering" and len(s) == 2 and s[1] in ("Less", "Equal", "Greater"):
            return [], {"Less": "Lt", "Equal": "Eq", "Greater": "Gt"}[s[1]], "ordering"
        if len(s) == 2 and s[0] == {"buint": "$BUint", "bint": "$BInt"}[self.selfty] and s[1] in self.consts:
            ty, expr = self.consts[s[1]]
            if ty is None:
                self.die(expr)
            p, v, t = self.ex(expr, {})
            unify(t, ty, "associated const " + s[1])
            return p, v, ty
        self.die("unsupported path " + "::".join(segs))

    def call_translated(self, sig, recv, args, env, size=None):
        """size: None - the callee is instantiated at N;  a TVar - at a size to be inferred (`$BUint::f(..)`)"""
        name = sig["rust"]
        allargs = ([recv] if sig["self"] else []) + list(args)
        formal = ([("self", sig["selfty"])] if sig["self"] else []) + sig["params"]
        ret = sig["ret"]
        if size is not None:
            def inst(t):
                t = rs(t)
                if t in ARRAYS:
                    return rs(Arr(t, size))
                if isinstance(t, Arr):
                    self.die("call of %s at an inferred size: its signature mentions another size" % name)
                if isinstance(t, tuple):
                    return tuple(inst(x) for x in t)
                return t
            formal = [(pn, inst(pt)) for pn, pt in formal]
            ret = inst(ret)
        if len(allargs) != len(formal):
            self.die("call of %s with %d arguments, expected %d" % (name, len(allargs), len(formal)))
        pre, vs = [], []
        for a, (pn, pt) in zip(allargs, formal):
            p, v, t = self.ex(a, env)
            unify(t, pt, "argument %s of %s" % (pn, name))
            pre += p
            vs.append(v)
        if sig["generics"]:
            self.die("call of %s, which has const generic parameters: not supported" % name)
        x = self.tmp()
        fuel = "fuel"
        if sig["coq"] == self.fname:                   # recursion: on the explicit budget (one unit per nested call)
            self.recursive = True
            fuel = "fuel'"
        if sig["dbg"]:
            self.uses_dbg = True
        nn = "N" if size is None else self.size_str(size, "the call of " + name)
        return pre + ["%s <- %s %sw %s %s %s ;;" % (x, sig["coq"], "dbg " if sig["dbg"] else "", nn, fuel, " ".join(vs))], x, ret

    def mcall(self, e, env):
        _, recv, name, args = e
        # N.saturating_sub(x)
        if name == "saturating_sub" and len(args) == 1:
            p1, v1, t1 = self.ex(recv, env)
            p2, v2, t2 = self.ex(args[0], env)
            t = unify(t1, t2, "saturating_sub")
            if self.need(t, "saturating_sub operands") not in ("usize", "ExpType"):
                self.die("saturating_sub on " + show(t))
            return p1 + p2, "(ix_saturating_sub %s %s)" % (v1, v2), t
        p, v, t = self.ex(recv, env)
        t0 = rs(t)
        if isinstance(t0, Arr):
            self.die("method call .%s on %s (a size other than N): not supported" % (name, show(t0)))
        if t0 in ("buint", "bint"):
            sg = self.lookup(t0, name, True)
            if sg is not None:
                return self.call_translated(sg, recv, args, env)
            if (t0, name) in MODEL_CALLS:
                head, ptys, rty, flags = MODEL_CALLS[(t0, name)]
                if len(args) != len(ptys):
                    self.die("call of %s with %d arguments, expected %d" % (name, len(args), len(ptys)))
                pre, vs = list(p), [v]
                for a, pt in zip(args, ptys):
                    p2, v2, t2 = self.ex(a, env)
                    unify(t2, pt, "argument of " + name)
                    pre += p2
                    vs.append(v2)
                if "dbg" in flags:
                    self.uses_dbg = True
                call = head.format(*vs) if "{0}" in head else head + " " + " ".join(vs)
                if "outcome" in flags:
                    x = self.tmp()
                    return pre + ["%s <- of_outcome (%s) ;;" % (x, call)], x, rty
                return pre, "(%s)" % call, rty
            self.die("call of method %s, which is not a translated function" % name)
        if isinstance(t0, TVar):
            self.die("method %s on an integer of undetermined type" % name)
        if t0 == "Digit":
            if name in DIGIT_METHODS and not args:
                f, rt = DIGIT_METHODS[name]
                return p, "(%s %s)" % (f, v), rt
            if name in ("overflowing_add", "overflowing_sub") and len(args) == 1:
                p2, v2, t2 = self.ex(args[0], env)
                unify(t2, "Digit", "argument of " + name)
                return p + p2, "(%s w %s %s)" % ({"overflowing_add": "u_ovf_add", "overflowing_sub": "u_ovf_sub"}[name], v, v2), ("Digit", "bool")
        if t0 == "PInt" and name == "wrapping_shr" and len(args) == 1:
            p2, v2, t2 = self.ex(args[0], env)
            unify(t2, "ExpType", "argument of wrapping_shr")
            return p + p2, "(p_wrapping_shr pb %s %s)" % (v, v2), "PInt"
        if t0 == "ExpType" and name == "checked_sub" and len(args) == 1:
            p2, v2, t2 = self.ex(args[0], env)
            unify(t2, "ExpType", "argument of checked_sub")
            return p + p2, "(ix_checked_sub %s %s)" % (v, v2), ("option", "ExpType")
        if t0 == "SDigit" and name in ("overflowing_add", "overflowing_sub") and len(args) == 1:
            p2, v2, t2 = self.ex(args[0], env)
            unify(t2, "SDigit", "argument of " + name)
            return p + p2, "(%s w %s %s)" % ({"overflowing_add": "s_ovf_add", "overflowing_sub": "s_ovf_sub"}[name], v, v2), ("SDigit", "bool")
        self.die("unsupported method call .%s on %s" % (name, show(t0)))

    def pcall(self, e, env):
        _, segs, args = e
        s = tuple(segs)
        if len(s) == 3 and s[0] == "digit" and s[1] == "$Digit" and s[2] in self.digit_sigs:
            ptys, rty = self.digit_sigs[s[2]]
            if len(ptys) != len(args):
                self.die("call of digit::%s with %d arguments" % (s[2], len(args)))
            pre, vs = [], []
            for a, pt in zip(args, ptys):
                p, v, t = self.ex(a, env)
                unify(t, pt, "argument of digit::" + s[2])
                pre += p
                vs.append(v)
            return pre, "(DigitGen.%s w %s)" % (s[2], " ".join(vs)), rty
        if s == ("Some",) and len(args) == 1:
            p, v, t = self.ex(args[0], env)
            return p, "(Some %s)" % v, ("option", t)
        if len(s) == 2 and s[0] in ("Self", "$BUint", "$BInt"):
            ty = {"Self": self.selfty, "$BUint": "buint", "$BInt": "bint"}[s[0]]
            sig = self.lookup(ty, s[1], False)
            if sig is not None:
                # `$BUint::f(..)` in a function with `const M: usize` parameters: Rust infers the size of the callee's type
                size = self.tv_any(e) if (s[0] != "Self" and self.sizes) else None
                if sig["self"]:
                    if not args:
                        self.die("call of Self::%s without receiver" % s[1])
                    return self.call_translated(sig, args[0], args[1:], env, size)
                return self.call_translated(sig, None, args, env, size)
        self.die("unsupported call " + "::".join(segs))

    def bin(self, e, env):
        _, op, a, b = e
        pa, va, ta = self.ex(a, env)
        pb, vb, tb = self.ex(b, env)
        if op in ("&&", "||"):
            unify(ta, "bool", "operand of " + op)
            unify(tb, "bool", "operand of " + op)
            if pb:                                   # short circuit: the right operand is only evaluated if needed
                x = self.tmp()
                rhs = self.seq(pb, "Done " + vb)
                line = ("%s <- (if %s then %s else Done false) ;;" if op == "&&" else "%s <- (if %s then Done true else %s) ;;") % (x, va, rhs)
                return pa + [line], x, "bool"
            return pa, "(%s %s %s)" % ({"&&": "andb", "||": "orb"}[op], va, vb), "bool"
        pre = pa + pb
        if op in ("==", "!=", "<", ">", "<=", ">="):
            t = rs(unify(ta, tb, "operands of " + op))
            if t == "bool":
                if op == "==":
                    return pre, "(Bool.eqb %s %s)" % (va, vb), "bool"
                if op == "!=":
                    return pre, "(xorb %s %s)" % (va, vb), "bool"
                self.die("ordering comparison on bool")
            if not is_int(t):
                self.die("comparison on unsupported type " + show(t))
            if CANON[0] and op in (">", ">=") and not pre:
                # canonical comparison direction: `a > b` is `b < a` (both operands are pure values here: nothing is
                # bound in `pre`, so the order of evaluation is irrelevant); `N > index` and `index < N` give the same text
                op, va, vb = {">": "<", ">=": "<="}[op], vb, va
            if CANON[0] and op in ("==", "!=") and re.fullmatch(r"\d+|\(u_max w\)", va) and not re.fullmatch(r"\d+|\(u_max w\)", vb):
                # `0 != x` is `x != 0`: a literal / `$Digit::MAX` goes to the right (pure values; `pre` keeps the source order)
                va, vb = vb, va
            if CANON[0] and op == "<=" and re.fullmatch(r"\d+", va) and int(va) > 0 and not re.fullmatch(r"\d+", vb):
                op, va = "<", str(int(va) - 1)             # on integers `k <= x` is `k-1 < x` (`i >= 1` is `i > 0`)
            elif CANON[0] and op == "<=" and re.fullmatch(r"\d+", vb) and not re.fullmatch(r"\d+", va):
                op, vb = "<", str(int(vb) + 1)             # `x <= k` is `x < k+1`
            f = {"<": "(%s <? %s)", "<=": "(%s <=? %s)", ">": "(%s >? %s)", ">=": "(%s >=? %s)", "==": "(%s =? %s)", "!=": "(negb (%s =? %s))"}[op]
            return pre, f % (va, vb), "bool"
        if op in ("<<", ">>"):
            if not is_int(tb):
                self.die("shift amount of type " + show(tb))
            if isinstance(rs(ta), TVar) and not self.final:
                return pre, "0", ta                    # type not yet known (first pass): decided by the context
            t = self.need(ta, "left operand of " + op)
            if t == "Digit":
                x = self.tmp()
                return pre + ["%s <- %s w %s %s ;;" % (x, {"<<": "dshl", ">>": "dshr"}[op], va, vb)], x, "Digit"
            if t in ("usize", "ExpType") and op == ">>":
                return pre, "(ix_shr %s %s)" % (va, vb), t
            if t == "usize" and op == "<<":                # index arithmetic (`i << BIT_SHIFT`): unbounded, like `+`
                return pre, "(ix_shl %s %s)" % (va, vb), t
            if t == "PInt" and op == ">>":                # $int >> s (on the value: floor division, i.e. arithmetic for a signed type); s >= BITS panics
                x = self.tmp()
                return pre + ["%s <- pshr pb %s %s ;;" % (x, va, vb)], x, t
            if t == "ExpType" and op == "<<":              # u32 << s: the bits shifted out are lost; s >= 32 panics
                x = self.tmp()
                return pre + ["%s <- eshl %s %s ;;" % (x, va, vb)], x, t
            self.die("unsupported shift %s on %s" % (op, t))
        t = unify(ta, tb, "operands of " + op)
        if rs(t) == "bool":
            f = {"|": "orb", "&": "andb", "^": "xorb"}.get(op)
            if f is None:
                self.die("unsupported boolean operator " + op)
            return pre, "(%s %s %s)" % (f, va, vb), "bool"
        t = self.need(t, "operands of " + op)
        if t == "Digit":
            f = {"&": "dg_and", "|": "dg_or", "^": "dg_xor"}.get(op)
            if f is None:
                self.die("unsupported digit operator %s (digit arithmetic outside digit.rs is not in the subset)" % op)
            return pre, "(%s w %s %s)" % (f, va, vb), "Digit"
        if t in ("usize", "ExpType"):
            if op == "+":
                if CANON[0] and re.fullmatch(r"\d+", va) and not re.fullmatch(r"\d+", vb):
                    va, vb = vb, va                        # `1 + i` is `i + 1` (unbounded Z, pure values)
                return pre, "(%s + %s)" % (va, vb), t
            if op == "-":
                x = self.tmp()
                return pre + ["%s <- usub %s %s ;;" % (x, va, vb)], x, t
            if op == "&":
                return pre, "(ix_and %s %s)" % (va, vb), t
            self.die("unsupported %s operator %s" % (t, op))
        self.die("operator %s on unsupported type %s" % (op, show(t)))

    # ------------------------------------------------ statements
    # ctx: {"loop": None | [state names], "protected": set of names that may not be re-declared here}
    def finish(self, ctx, env):
        if ctx["loop"] is None:
            if self.sigs[self.fname]["mutref"]:
                return "Done self"                     # fn f(&mut self, ..): the result is the updated *self
            self.die("function body falls off its end without a value")
        return "Done (Continue %s)" % self.tup(ctx["loop"])

    def tup(self, names):
        return "(" + ", ".join(names) + ")" if len(names) != 1 else names[0]

    def pat(self, names):
        return "'(" + ", ".join(names) + ")" if len(names) != 1 else names[0]

    def declare(self, env, name, ty, mut, ctx):
        if name in RESERVED or re.match(r"^t\d+$", name):
            self.die("local variable name %s is reserved by the translator" % name)
        if name in ctx["protected"]:
            self.die("`let %s` shadows a variable of an enclosing scope inside a branch / loop body: not supported" % name)
        if name in env:
            del env[name]
        env[name] = Var(ty, mut)

    def stmts(self, ss, env, ctx, ind):
        """translates the statement list ss followed by nothing; env is consumed (copied by callers that branch)"""
        pad = "  " * ind
        if not ss:
            return pad + self.finish(ctx, env)
        s, rest = ss[0], ss[1:]
        k = s[0]
        if k == "expr":
            if rest:
                self.die("value expression in the middle of a block")
            if ctx["loop"] is not None:
                self.die("loop body ends in a value expression")
            if s[1][0] == "ifx":
                return self.stmts([["if", s[1][1], s[1][2], s[1][3]]], env, ctx, ind)
            if s[1][0] == "blockx":
                return self.stmts([["block", s[1][1]]], env, ctx, ind)
            if s[1][0] == "match":
                return self.match_stmt(s[1], None, [], env, ctx, ind)
            p, v, t = self.ex(s[1], env)
            unify(t, self.ret, "returned value")
            return self.lines(p + ["Done " + v], pad)
        if k == "return":
            if s[1] is None:
                self.die("return without a value")
            if rest:
                self.die("statements after return")
            p, v, t = self.ex(s[1], env)
            unify(t, self.ret, "returned value")
            return self.lines(p + ["Done " + (v if ctx["loop"] is None else "(Return %s)" % v)], pad)
        if k == "break":
            if rest:
                self.die("statements after break")
            if ctx["loop"] is None:
                self.die("break outside a loop")
            return pad + "Done (Break %s)" % self.tup(ctx["loop"])
        if k == "let":
            _, pat, ty, init = s
            if init is None:
                if pat[0] != "pid" or ty is None or not is_int(ty):
                    self.die("uninitialised let is only supported for a single integer variable with a type")
                name, mut = pat[1]
                self.declare(env, name, ty, mut, ctx)
                # Rust guarantees assignment before use: the initial value is never read
                return pad + "let %s := 0 in (* declared without initialiser *)\n" % name + self.stmts(rest, env, ctx, ind)
            if init[0] == "match":
                return self.match_stmt(init, lambda body: ["let", pat, ty, body], rest, env, ctx, ind)
            if init[0] == "refmut":
                # `let d = &mut x.digits[e];`: d names the place x.digits[e].  The index is evaluated and bounds-checked
                # here; `*d` reads the place, `*d = v` writes it.  (The borrow checker guarantees that x is not accessed
                # otherwise while d is live.)
                if pat[0] != "pid" or pat[1][1] or ty is not None or init[1][0] != "index":
                    self.die("`&mut` is only supported as `let d = &mut x.digits[e];`")
                arr = self.array_of(init[1][1], env)
                if not env[arr].mut:
                    self.die("&mut borrow of a digit of immutable variable " + arr)
                p, v, t = self.ex(init[1][2], env)
                unify(t, "usize", "array index")
                ix, chk = self.tmp(), self.tmp()
                self.declare(env, pat[1][0], ("ref", arr, ix), False, ctx)
                return (self.lines(p + ["let %s := %s in" % (ix, v), "%s <- arr_get %s %s ;;" % (chk, arr, ix)], pad) + "\n"
                        + self.stmts(rest, env, ctx, ind))
            p, v, t = self.ex(init, env)
            if ty is not None:
                t = unify(t, ty, "let with type annotation")
            if pat[0] == "pid":
                name, mut = pat[1]
                self.declare(env, name, t, mut, ctx)
                line = "let %s := %s in" % (name, v)
            else:
                t = rs(t)
                if not isinstance(t, tuple) or len(t) != len(pat[1]):
                    self.die("tuple pattern does not match the type " + show(t))
                for (name, mut), tt in zip(pat[1], t):
                    self.declare(env, name, tt, mut, ctx)
                line = "let '(%s) := %s in" % (", ".join(n for n, _ in pat[1]), v)
                if CANON[0] and len(pat[1]) == 2:
                    # canonical form of a pair pattern: projections of the (pure) value, i.e. the term that
                    # `let r = e; let x = r.0; let y = r.1;` gives (no match on the pair: the two source shapes are convertible).
                    # pr' is only read by the two lines that follow it, so re-using the name is harmless.
                    x, y = pat[1][0][0], pat[1][1][0]
                    return self.lines(p + ["let pr' := %s in" % v, "let %s := (fst pr') in" % x, "let %s := (snd pr') in" % y], pad) + "\n" + self.stmts(rest, env, ctx, ind)
            return self.lines(p + [line], pad) + "\n" + self.stmts(rest, env, ctx, ind)
        if k == "assign":
            _, lhs, op, rhs = s
            if rhs[0] == "match":
                return self.match_stmt(rhs, lambda body: ["assign", lhs, op, body], rest, env, ctx, ind)
            if lhs[0] == "var":
                name = lhs[1]
                if name not in env:
                    self.die("assignment to unbound variable " + name)
                if not env[name].mut:
                    self.die("assignment to immutable variable " + name)
                if op == "=":
                    p, v, t = self.ex(rhs, env)
                    unify(t, env[name].ty, "assignment to " + name)
                else:
                    p, v, t = self.ex(["bin", op[:-1], lhs, rhs], env)
                    unify(t, env[name].ty, "assignment to " + name)
                if v.endswith("'") and p and p[-1].startswith(v + " <- "):       # x -= 1  ->  x <- usub x 1 ;;
                    p = p[:-1] + [name + p[-1][len(v):]]
                    return self.lines(p, pad) + "\n" + self.stmts(rest, env, ctx, ind)
                return self.lines(p + ["let %s := %s in" % (name, v)], pad) + "\n" + self.stmts(rest, env, ctx, ind)
            if lhs[0] == "un" and lhs[1] == "*" and lhs[2][0] == "var" and lhs[2][1] in env and self.is_ref(env[lhs[2][1]].ty):
                _, arr, ix = env[lhs[2][1]].ty
                if op != "=":
                    self.die("compound assignment through a reference: not supported")
                p, v, t = self.ex(rhs, env)
                unify(t, "Digit", "digit assignment")
                return self.lines(p + ["%s <- arr_set %s %s %s ;;" % (arr, arr, ix, v)], pad) + "\n" + self.stmts(rest, env, ctx, ind)
            if lhs[0] == "index":
                arr = self.array_of(lhs[1], env)
                if not env[arr].mut:
                    self.die("write to a digit of immutable variable " + arr)
                # Rust evaluates the right operand first, then the place expression (index, bounds check)
                p, v, t = self.ex(rhs, env)
                unify(t, "Digit", "digit assignment")
                pi, vi, ti = self.ex(lhs[2], env)
                unify(ti, "usize", "array index")
                if op == "=":
                    new = v
                    mid = []
                else:
                    f = {"|=": "dg_or", "&=": "dg_and", "^=": "dg_xor"}.get(op)
                    if f is None:
                        self.die("unsupported compound assignment %s on a digit" % op)
                    x = self.tmp()
                    mid = ["%s <- arr_get %s %s ;;" % (x, arr, vi)]
                    new = "(%s w %s %s)" % (f, x, v)
                return self.lines(p + pi + mid + ["%s <- arr_set %s %s %s ;;" % (arr, arr, vi, new)], pad) + "\n" + self.stmts(rest, env, ctx, ind)
            self.die("unsupported assignment target " + str(lhs))
        if k == "block":
            inner = dict(ctx, protected=set(env.keys()) | ctx["protected"])
            if rest:
                # splice: the names declared inside cannot clash (protected), so `rest` sees the same variables
                return self.stmts(self.splice(s[1], rest), env, inner, ind)
            return self.stmts(s[1], env, inner, ind)
        if k == "if":
            _, c, a, b = s
            p, v, t = self.ex(c, env)
            unify(t, "bool", "if condition")
            inner = dict(ctx, protected=set(env.keys()) | ctx["protected"])
            ta = self.stmts(self.splice(a, rest), self.copy(env), inner, ind + 1)
            tb = self.stmts(self.splice(b or [], rest), self.copy(env), inner, ind + 1)
            return self.lines(p + ["if %s then (" % v], pad) + "\n" + ta + "\n" + pad + ") else (\n" + tb + "\n" + pad + ")"
        if k == "while":
            _, c, body = s
            # the loop state: the variables of the context that the body assigns, in a canonical order
            # (arrays, bools, digits, u32s, usizes; declaration order within a class) so that re-ordering
            # independent `let`s of different types in the source does not change the generated term
            rank = {"buint": 0, "bint": 0, "digits": 0, "bool": 1, "Digit": 2, "SDigit": 2, "PInt": 2, "ExpType": 3, "usize": 4}
            asg = self.assigned(body)
            state = [n for n in env if n in asg]
            state = [n for _, _, n in sorted((rank.get((self.kind_of(env[n].ty) or rs(env[n].ty))
                                                       if not isinstance(rs(env[n].ty), (TVar, tuple)) else "", 5), k, n)
                                             for k, n in enumerate(state))]
            for n in state:
                if not env[n].mut:
                    self.die("loop assigns immutable variable " + n)
            if not state:
                self.die("while loop that assigns no variable of its context")
            benv = self.copy(env)
            pc, vc, tc = self.ex(c, benv)
            unify(tc, "bool", "while condition")
            enclosing = set(ctx["loop"] or []) | ctx.get("outer_states", set())
            bctx = {"loop": state, "protected": set(state) | enclosing, "outer_states": enclosing}
            if pc:
                # a condition that can panic (`i < N - 1`: checked subtraction) is evaluated at the top of the body:
                # `while c { b }`  ==  `while true { if c { b } else { break } }`
                tbody = self.stmts(body, benv, bctx, ind + 3)
                pad2 = pad + "    "
                tbody = (self.lines(pc + ["if %s then (" % vc], pad2) + "\n" + tbody + "\n" + pad2 + ") else (\n"
                         + pad2 + "  Done (Break %s)\n" % self.tup(state) + pad2 + ")")
                vc = "true"
            else:
                tbody = self.stmts(body, benv, bctx, ind + 2)
            r = self.tmp()
            v = self.tmp()
            after = self.stmts(rest, env, ctx, ind + 2)
            out = pad + "%s <- while_loop (R := %s) fuel\n" % (r, coq_ty(self.ret))
            out += pad + "  (fun %s => %s)\n" % (self.pat(state), vc)
            out += pad + "  (fun %s =>\n%s)\n" % (self.pat(state), tbody)
            out += pad + "  %s ;;\n" % self.tup(state)
            out += pad + "match %s with\n" % r
            out += pad + "| Exited %s =>\n%s\n" % (self.tup(state), after)
            out += pad + "| Returned %s => Done %s\n" % (v, v if ctx["loop"] is None else "(Return %s)" % v)
            out += pad + "end"
            return out
        self.die("unsupported statement " + str(s))

    def match_stmt(self, m, mk, rest, env, ctx, ind):
        """`match scrut { arms }` on an Option or an Ordering.  mk is None: the match is the tail of a block and every arm
        is a value / a block / `return e`; otherwise mk(arm value) is the statement (`let p = <arm>` / `x = <arm>`) that
        consumes the value of a non-returning arm, followed by `rest` (duplicated into the arms, like the branches of `if`)."""
        _, scrut, arms = m
        pad = "  " * ind
        p, v, t = self.ex(scrut, env)
        t = rs(t)
        if is_opt(t):
            universe = ["Some", "None"]
        elif t == "ordering":
            universe = ["Lt", "Eq", "Gt"]
        else:
            self.die("match on a value of type %s: only Option and Ordering are supported" % show(t))
        seen, out = [], []
        inner = dict(ctx, protected=set(env.keys()) | ctx["protected"])
        for pat, body in arms:
            env2 = self.copy(env)
            if pat[0] == "pwild":
                if len(seen) == len(universe):
                    self.die("unreachable `_` arm in match")
                seen = list(universe)
                head = "_"
            else:
                if pat[0] == "psome":
                    c = "Some"
                elif pat[0] == "pnone":
                    c = "None"
                elif pat[0] == "ppath" and len(pat[1]) == 2 and pat[1][0] == "Ordering" and pat[1][1] in ("Less", "Equal", "Greater"):
                    c = {"Less": "Lt", "Equal": "Eq", "Greater": "Gt"}[pat[1][1]]
                else:
                    self.die("unsupported match pattern " + str(pat))
                if c not in universe:
                    self.die("pattern %s does not match the type %s" % (c, show(t)))
                if c in seen:
                    self.die("duplicate match arm " + c)
                seen.append(c)
                head = c
                if c == "Some":
                    x = pat[1]
                    if x in RESERVED or re.match(r"^t\d+$", x) or x == "N":
                        self.die("pattern variable name %s is reserved by the translator" % x)
                    if x in env2 and not env2[x].patvar:
                        self.die("pattern variable %s shadows a variable: not supported" % x)
                    env2.pop(x, None)
                    env2[x] = Var(t[1], False, True)
                    head = "Some " + x
            if isinstance(body, list) and body[0] == "ret":
                ss = [["return", body[1]]]
                txt = self.stmts(ss, env2, ctx, ind + 2)
            elif mk is None:
                ss = body[1] if body[0] == "blockx" else [["expr", body]]
                txt = self.stmts(ss, env2, inner, ind + 2)
            else:
                if body[0] == "blockx" and not (len(body[1]) == 1 and body[1][0][0] == "expr"):
                    self.die("a match arm with statements whose value is used by let / assignment: not supported")
                txt = self.stmts([mk(body)] + list(rest), env2, ctx, ind + 2)
            out.append(pad + "| %s => (\n%s\n%s  )" % (head, txt, pad))
        if len(seen) != len(universe):
            self.die("non-exhaustive match on " + show(t))
        return self.lines(p + ["match %s with" % v], pad) + "\n" + "\n".join(out) + "\n" + pad + "end"

    def splice(self, blk, rest):
        if blk and blk[-1][0] == "expr" and rest:
            self.die("block with a value followed by more statements")
        if blk and blk[-1][0] in ("break", "return"):
            return list(blk)                # rest is unreachable on this path
        return list(blk) + list(rest)

    def copy(self, env):
        return dict((n, Var(v.ty, v.mut, v.patvar)) for n, v in env.items())

    def lines(self, ls, pad):
        return "\n".join(pad + l for l in ls)

    def assigned(self, blk):
        """names assigned (or whose digits are written) anywhere in the block, nested loops included"""
        out = set()
        for s in blk:
            k = s[0]
            if k == "assign":
                lhs = s[1]
                if lhs[0] == "var":
                    out.add(lhs[1])
                elif lhs[0] == "un" and lhs[1] == "*":
                    self.die("assignment through a reference inside a loop: not supported")
                elif lhs[0] == "index":
                    e = lhs[1]
                    while e[0] in ("un", "field"):
                        e = e[2] if e[0] == "un" else e[1]
                    if e[0] == "var":
                        out.add(e[1])
                    else:
                        self.die("unsupported assignment target " + str(lhs))
                else:
                    self.die("unsupported assignment target " + str(lhs))
            elif k == "while":
                out |= self.assigned(s[2])
            elif k == "if":
                out |= self.assigned(s[2]) | self.assigned(s[3] or [])
            elif k == "block":
                out |= self.assigned(s[1])
            elif k == "expr" and s[1][0] == "match":
                for _, body in s[1][2]:
                    if isinstance(body, list) and body[0] == "blockx":
                        out |= self.assigned(body[1])
            elif k == "expr" and s[1][0] in ("ifx", "blockx"):
                out |= self.assigned(s[1][2] if s[1][0] == "ifx" else s[1][1])
                if s[1][0] == "ifx":
                    out |= self.assigned(s[1][3] or [])
        return out


# ---------------------------------------------------------------- extraction of functions from the source

def find_fn(src, anchor, name, path):
    start = 0
    if anchor:
        m = re.search(anchor, src)
        if not m:
            die("%s: anchor for fn %s not found" % (path, name))
        start = m.end()
    ms = list(re.finditer(r"\bfn\s+%s\s*(<[^>()]*>)?\s*\(" % re.escape(name), src[start:]))
    if not ms:
        die("%s: fn %s not found" % (path, name))
    if len(ms) > 1 and not anchor:
        die("%s: fn %s is defined %d times; cannot choose" % (path, name, len(ms)))
    fm = ms[0]
    i = start + fm.end()
    d, j = 1, i
    while d:
        if j >= len(src):
            die("%s: unbalanced parentheses in the signature of %s" % (path, name))
        d += {"(": 1, ")": -1}.get(src[j], 0)
        j += 1
    params = src[i:j - 1]
    rm = re.match(r"\s*->\s*((?:\[[^\]{}]*\]|[^{;\[])+)\{", src[j:])
    if rm:
        ret = rm.group(1).strip()
        k = j + rm.end() - 1
    elif re.match(r"\s*\{", src[j:]):                    # no `->`: the unit type
        ret = None
        k = j + re.match(r"\s*\{", src[j:]).end() - 1
    else:
        die("%s: no return type / body for fn %s" % (path, name))
    d, e = 0, k
    while True:
        if e >= len(src):
            die("%s: unbalanced braces in fn %s" % (path, name))
        d += {"{": 1, "}": -1}.get(src[e], 0)
        e += 1
        if d == 0:
            break
    return fm.group(1), params, ret, src[k:e]


def parse_sig(name, generics, params, ret, selfty="buint", prim=None):
    sig = {"self": False, "params": [], "generics": [], "mut": set(), "selfty": selfty, "rust": name, "callable": True,
           "mutref": False, "dbg": False, "prim": None}
    if generics:
        for g in generics.strip()[1:-1].split(","):
            m = re.match(r"^\s*const\s+(\w+)\s*:\s*(bool|usize)\s*$", g)
            if not m:
                die("fn %s: unsupported generic parameter %s" % (name, g.strip()))
            if m.group(1) in RESERVED:
                die("fn %s: generic parameter name %s is reserved by the translator" % (name, m.group(1)))
            sig["generics"].append((m.group(1), m.group(2)))
    sig["prim"] = prim
    t = LP(tokenize(params), selfty, prim)
    first = True
    while t.peek() is not None:
        if first and (t.peek() == "self" or (t.peek() in ("&", "mut") and t.peek(1) == "self")
                      or (t.peek() == "&" and t.peek(1) == "mut" and t.peek(2) == "self")):
            if t.peek() == "mut":                       # `mut self`: by value, the local copy is assigned
                t.eat("mut")
                sig["mut"].add("self")
            elif t.peek() == "&":
                t.eat("&")
                if t.peek() == "mut":                   # `&mut self`: the caller's value is updated: the Gallina function
                    t.eat("mut")                        # returns the new value of *self (only with the unit return type)
                    sig["mut"].add("self")
                    sig["mutref"] = True
            t.eat("self")
            sig["self"] = True
        else:
            mut = False
            if t.peek() == "mut":                       # `mut x: T`: by value, the local copy is assigned
                t.eat("mut")
                mut = True
            pn = t.ident()
            if mut:
                sig["mut"].add(pn)
            t.eat(":")
            sig["params"].append((pn, t.type_()))
        first = False
        if t.peek() == ",":
            t.eat(",")
        elif t.peek() is not None:
            die("fn %s: cannot parse the parameter list" % name)
    if ret is None:
        if not sig["mutref"]:
            die("fn %s: no return type (only supported for `&mut self` functions)" % name)
        sig["ret"] = selfty
        sig["callable"] = False                        # calls of `&mut self` functions are not in the subset
        return sig
    if sig["mutref"]:
        die("fn %s: `&mut self` with a return value is not supported" % name)
    r = LP(tokenize(ret), selfty, prim)
    sig["ret"] = r.type_()
    if r.peek() is not None:
        die("fn %s: cannot parse the return type %s" % (name, ret))
    return sig


def assoc_consts(src, selfty="buint"):
    """`const NAME: ty = expr;` items (associated consts of the impl blocks), parsed"""
    out = {}
    for m in re.finditer(r"\bconst\s+([A-Z][A-Z0-9_]*)\s*:\s*(usize|ExpType|u32)\s*=([^;]+);", src):
        name, ty, ex = m.group(1), m.group(2), m.group(3)
        QUIET[0] += 1
        try:
            p = LP(tokenize(ex), selfty)
            e = p.expr()
            if p.peek() is not None:
                die("cannot parse the associated const " + name)
            out[name] = (LP([ty]).type_(), e)
        except SystemExit:
            out[name] = (None, "cannot parse the associated const %s (%s)" % (name, LAST_MSG[0]))   # an error only where it is used
        finally:
            QUIET[0] -= 1
    return out


def check_digit_consts(dsrc):
    for pat, what in [(r"pub\s+const\s+BIT_SHIFT\s*:\s*ExpType\s*=\s*BITS\s*\.\s*trailing_zeros\s*\(\s*\)\s*as\s+ExpType\s*;", "BIT_SHIFT = BITS.trailing_zeros()"),
                      (r"pub\s+const\s+BITS_MINUS_1\s*:\s*ExpType\s*=\s*BITS\s*-\s*1\s*;", "BITS_MINUS_1 = BITS - 1"),
                      (r"pub\s+const\s+BITS\s*:\s*ExpType\s*=\s*\$Digit\s*::\s*BITS\s+as\s+ExpType\s*;", "BITS = $Digit::BITS")]:
        if not re.search(pat, dsrc):
            die("src/digit.rs: the definition `%s` (modelled in coq/Model/LoopPrims.v) has changed" % what)


def digit_sigs(dsrc):
    def ty(s):
        s = s.strip()
        if s.startswith("("):
            return tuple(ty(x) for x in s[1:-1].split(","))
        return {"Digit": "Digit", "bool": "bool", "SignedDigit": "SDigit"}.get(s, "unsupported:" + s)
    out = {}
    for m in re.finditer(r"pub const fn (\w+)\s*\(([^)]*)\)\s*->\s*([^{]+)\{", dsrc):
        ps = [ty(p.split(":")[1]) for p in m.group(2).split(",") if p.strip()]
        if any(p.split(":")[0].split()[0] == "mut" for p in m.group(2).split(",") if p.strip()):
            continue
        r = ty(m.group(3))
        if all(isinstance(x, str) and not x.startswith("unsupported") for x in ps) and "unsupported" not in str(r):
            out[m.group(1)] = (ps, r)
    return out


def main():
    CANON[0] = True                                    # Generated/Loops.v only: see CANON above
    group = sys.argv[sys.argv.index("--for") + 1] if "--for" in sys.argv else None
    failed = {}
    files = {}
    fns = {}
    sigs = {}
    consts = {}
    def load(path, macro=None):
        """the body of the first macro_rules! ($BUint, $BInt, $Digit) of the file (macro = (name, parameter-list regex, ..):
        of that macro), comments stripped"""
        p = os.path.join(REPO, path)
        if not os.path.exists(p):
            die("source file %s not found" % p)
        txt = strip_comments(open(p).read())
        if macro is None:
            mm = re.search(r"macro_rules!\s*\w+\s*\{\s*\(\s*\$BUint\s*:\s*ident\s*,\s*\$BInt\s*:\s*ident\s*,\s*\$Digit\s*:\s*ident\s*\)", txt)
            if not mm:
                die("%s: macro_rules! with ($BUint, $BInt, $Digit) not found" % path)
        else:
            mm = re.search(r"macro_rules!\s*%s\s*\{\s*%s\s*=>" % (re.escape(macro[0]), macro[1]), txt)
            if not mm:
                die("%s: macro_rules! %s with the expected parameter list not found" % (path, macro[0]))
            # every instantiation passes primitive types of the modelled kind only (the last argument group)
            uses = re.findall(r"(?<![\w!])%s!\s*\(([^()]*)\)\s*;" % re.escape(macro[0]), txt)
            if not uses:
                die("%s: no instantiation of macro %s found" % (path, macro[0]))
            for u in uses:
                tys = [x.strip() for x in u.split(";")[-1].split(",") if x.strip()]
                if not tys or not all(re.fullmatch(macro[3], x) for x in tys):
                    die("%s: macro %s is instantiated for types outside the modelled kind: %s" % (path, macro[0], ", ".join(tys)))
        # keep only the body of that (first) macro: the functions are looked up inside it
        b0 = txt.index("{", mm.start())
        d, e = 0, b0
        while True:
            if e >= len(txt):
                die("%s: unbalanced braces in the macro body" % path)
            d += {"{": 1, "}": -1}.get(txt[e], 0)
            e += 1
            if d == 0:
                break
        return txt[b0:e]

    for path, anchor, name, coq, macro in [(e + (None,))[:5] for e in WANTED]:
        fkey = path if macro is None else (path, macro[0])
        try:
            if fkey not in files:
                files[fkey] = load(path, macro)
                if path not in consts:
                    consts[path] = assoc_consts(files[fkey], selfty_of(path)) if macro is None else {}
                    for other in CONST_FILES.get(path, []):
                        for cn, cv in assoc_consts(load(other), selfty_of(other)).items():
                            consts[path].setdefault(cn, cv)
        except SystemExit:
            if macro is None:
                raise                                   # a whole file of the core is unreadable: global failure
            failed[coq] = LAST_MSG[0]
            continue
        try:
            generics, params, ret, body = find_fn(files[fkey], anchor, name, path)
            if coq in fns:
                die("two wanted functions are called " + coq)
            sg = parse_sig(name, generics, params, ret, selfty_of(path), macro[2] if macro else None)
            sg["coq"] = coq
            sg["callable"] = anchor is None            # trait impls (`Add<$Digit>::add`) are not resolved by name
            fns[coq] = (path, coq, body)
            sigs[coq] = sg
        except (SystemExit, Exception) as ex:      # this function only: stub below
            failed[coq] = LAST_MSG[0] if isinstance(ex, SystemExit) else repr(ex)
    dsrc = strip_comments(open(os.path.join(REPO, "src/digit.rs")).read())
    check_digit_consts(dsrc)
    dsigs = digit_sigs(dsrc)
    csrc = strip_comments(open(os.path.join(REPO, "src/buint/consts.rs")).read())
    if not re.search(r"pub\s+const\s+BITS\s*:\s*ExpType\s*=\s*digit\s*::\s*\$Digit\s*::\s*BITS\s*\*\s*N\s+as\s+ExpType\s*;", csrc):
        die("src/buint/consts.rs: `BITS = digit::$Digit::BITS * N as ExpType` has changed")
    # Self::ONE .. Self::TEN are translated as Self::from_digit(1) .. (10): check that this is their definition
    if not re.search(r"macro_rules!\s*pos_const\s*\{\s*\(\s*\$\(\s*\$name\s*:\s*ident\s+\$num\s*:\s*literal\s*\)\s*,\s*\*\s*\)\s*=>\s*\{\s*\$\(\s*"
                     r"(#\[[^\]]*\]\s*)*pub\s+const\s+\$name\s*:\s*Self\s*=\s*Self\s*::\s*from_digit\s*\(\s*\$num\s*\)\s*;\s*\)\s*\*\s*\}", csrc):
        die("src/buint/consts.rs: macro pos_const (`pub const $name: Self = Self::from_digit($num);`) has changed")
    if not re.search(r"pos_const!\s*\(\s*" + r"\s*,\s*".join("%s\s+%d" % (k, v) for k, v in POS_CONSTS.items()) + r"\s*\)\s*;", csrc):
        die("src/buint/consts.rs: `pos_const!(ONE 1, .., TEN 10);` has changed")
    # $BInt is a struct around `bits: $BUint<N>`; $BInt::ZERO is all-zero digits
    isrc = strip_comments(open(os.path.join(REPO, "src/bint/consts.rs")).read())
    if not re.search(r"pub\s+const\s+ZERO\s*:\s*Self\s*=\s*Self\s*::\s*from_bits\s*\(\s*\$BUint\s*::\s*ZERO\s*\)\s*;", isrc):
        die("src/bint/consts.rs: `ZERO = Self::from_bits($BUint::ZERO)` has changed")
    msrc = strip_comments(open(os.path.join(REPO, "src/bint/mod.rs")).read())
    if not re.search(r"pub\s+struct\s+\$BInt\s*<\s*const\s+N\s*:\s*usize\s*>\s*\{\s*(pub\s*(\([^)]*\))?\s*)?bits\s*:\s*\$BUint\s*<\s*N\s*>\s*,?\s*\}", msrc):
        die("src/bint/mod.rs: `struct $BInt<const N: usize> { bits: $BUint<N> }` has changed")
    if not re.search(r"fn\s+from_bits\s*\(\s*bits\s*:\s*\$BUint\s*<\s*N\s*>\s*\)\s*->\s*Self\s*\{\s*Self\s*\{\s*bits\s*\}\s*\}", msrc):
        die("src/bint/mod.rs: `from_bits(bits) -> Self { Self { bits } }` has changed")
    usrc = strip_comments(open(os.path.join(REPO, "src/buint/mod.rs")).read())
    if not re.search(r"pub\s+struct\s+\$BUint\s*<\s*const\s+N\s*:\s*usize\s*>\s*\{\s*(#\[[^\]]*\]\s*)*(pub\s*(\([^)]*\))?\s*)?digits\s*:\s*\[\s*\$Digit\s*;\s*N\s*\]\s*,?\s*\}", usrc):
        die("src/buint/mod.rs: `struct $BUint<const N: usize> { digits: [$Digit; N] }` has changed")

    out = ["(* GENERATED on every run by tools/rs2v_loops.py from /repo/src/buint/{overflowing,const_trait_fillers,mul,mod,ops,checked,wrapping,cast,convert}.rs",
           "   and /repo/src/bint/overflowing.rs.  Do not edit.  Proofs/LoopsTie*.v prove each function equal to the hand-written model.",
           "   Vocabulary: Model/Imp.v (control flow), Prim.v, Model/DigitPrims.v, Model/LoopPrims.v, Generated/DigitGen.v;",
           "   calls of $BUint methods that are not re-translated are calls of the hand-written model (qualified: Mul.U_overflowing_mul ..). *)",
           "From Bnum Require Import Base Prim.",
           "From Bnum.Model Require Import DigitPrims LoopPrims Core Imp.",
           "From Bnum.Model Require Mul Div AddSub.",
           "From Bnum.Generated Require Import DigitGen.", "", "Module Loops.", ""]
    # a function that calls an untranslatable function is untranslatable too: iterate to a fixpoint
    texts = {}
    while True:
        again = False
        for path, anchor, name, coq in [e[:4] for e in WANTED]:
            if coq in failed:
                continue
            try:
                texts[coq] = translate_one(path, name, coq, fns, sigs, dsigs, consts)
            except (SystemExit, Exception) as ex:
                failed[coq] = LAST_MSG[0] if isinstance(ex, SystemExit) else repr(ex)
                sigs.pop(coq, None)
                again = True
        if not again:
            break
    for path, anchor, name, coq in [e[:4] for e in WANTED]:
        if coq not in failed:
            out.append(texts[coq])
        else:
            out.append("(* %s: fn %s  -- NOT TRANSLATED: %s *)\nDefinition %s : unit := tt.\n"
                       % (path, name, failed[coq].replace("*)", "* )").replace("(*", "( *"), coq))
    out.append("End Loops.")
    txt = "\n".join(out) + "\n"
    p = os.path.join(ROOT, "coq", "Generated", "Loops.v")
    if not os.path.exists(p) or open(p).read() != txt:
        open(p, "w").write(txt)
    if failed:
        hit = [f for f in failed if group is None or f in GROUPS.get(group, [])]
        sys.stderr.write("rs2v_loops: not translated (stub emitted, its tie lemma will not check): %s\n" % ", ".join(sorted(failed)))
        return 1 if hit else 0
    return 0


def translate_one(path, name, coq, fns, sigs, dsigs, consts):
    if True:
        out = []
        _, _, body = fns[coq]
        sig = sigs[coq]
        ast = LP(tokenize(body), sig["selfty"], sig["prim"]).block()
        tvs = {}
        txt = None
        for final in (False, True):
            g = Gen(coq, sigs, dsigs, consts[path], tvs, final)
            env = {}
            ctx = {"loop": None, "protected": set()}
            for gn, gt in sig["generics"]:
                env[gn] = Var(gt, False)
            if sig["self"]:
                env["self"] = Var(sig["selfty"], "self" in sig["mut"])
            for pn, pt in sig["params"]:
                g.declare(env, pn, pt, pn in sig["mut"], ctx)
            txt = g.stmts(ast, env, ctx, 2 if g.recursive else 1)
            sig["dbg"] = g.uses_dbg                    # known after the first pass (a recursive call needs it)
        argl = "".join(" (%s : %s)" % (n, coq_ty(t)) for n, t in sig["generics"])
        argl += " (self : list Z)" if sig["self"] else ""
        argl += "".join(" (%s : %s)" % (n, coq_ty(t)) for n, t in sig["params"])
        out.append("(* %s: fn %s *)" % (path, name))
        kw, pre_, post_ = "Definition", "", ""
        if g.recursive:                                # a recursive fn: structural recursion on the budget
            kw, pre_, post_ = "Fixpoint", "  match fuel with\n  | O => NoFuel\n  | S fuel' =>\n", "\n  end"
            argl += " {struct fuel}"
        if sig["prim"] is not None:
            argl = " (pb : Z)" + argl                  # the width of the primitive type the macro is instantiated at
        out.append("%s %s %s(w N : Z) (fuel : nat)%s : res (%s) :=\n%s%s%s.\n" % (kw, coq, "(dbg : bool) " if sig["dbg"] else "", argl, coq_ty(sig["ret"])[1:-1] if isinstance(rs(sig["ret"]), tuple) else coq_ty(sig["ret"]), pre_, txt, post_))
        return "\n".join(out)


if __name__ == "__main__":
    sys.exit(main())

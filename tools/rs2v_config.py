#!/usr/bin/env python3
"""tools/rs2v_config.py — TRANSLATOR: regenerates coq/Generated/Config.v from /repo's current source:
  * the four (BUint, BInt, digit) instantiations of main_impl! and the digit_module! lines (src/lib.rs, src/digit.rs),
  * the cross-digit cast instantiation lists (src/lib.rs),
  * the alias table of src/types.rs with its `$bits / 64` expression,
  * the pos_const!/neg_const! name -> literal tables and the defining expressions of MIN/MAX/BITS/BYTES/ZERO (src/*/consts.rs).
Anything it does not recognise makes it fail loudly (exit 1).  Writes the file only when the content changes."""
import re, sys, os
REPO = os.environ.get("BNUM_REPO", "/repo")
ROOT = os.path.dirname(os.path.dirname(os.path.abspath(__file__)))


def die(msg):
    sys.stderr.write("rs2v_config: " + msg + "\n")
    sys.exit(1)


def strip_comments(s):
    s = re.sub(r"/\*.*?\*/", "", s, flags=re.S)
    return re.sub(r"//[^\n]*", "", s)


def main():
    lib = strip_comments(open(os.path.join(REPO, "src/lib.rs")).read())
    m = re.search(r"macro_rules!\s*main_impl\s*\{\s*\(\$name:\s*ident\)\s*=>\s*\{(.*?)\};\s*\}", lib, re.S)
    if not m:
        die("main_impl! not found")
    inst = re.findall(r"\$name!\(\s*(\w+)\s*,\s*(\w+)\s*,\s*(u\d+)\s*\)\s*;", m.group(1))
    if len(inst) < 1:
        die("no instantiations in main_impl!")
    digit = strip_comments(open(os.path.join(REPO, "src/digit.rs")).read())
    dmods = re.findall(r"digit_module!\(\s*(u\d+)\s*,\s*(i\d+)\s*,\s*(u\d+)\s*\)\s*;", digit)
    if not dmods:
        die("digit_module! lines not found")
    # BITS constant of a digit module: `pub const BITS: ExpType = $Digit::BITS as ExpType;`
    if not re.search(r"pub const BITS:\s*ExpType\s*=\s*\$Digit::BITS as ExpType;", digit):
        die("digit BITS definition changed")
    casts = re.findall(r"(buint|bint)_as_different_digit_bigint!\(\s*(\w+)\s*,\s*(\w+)\s*,\s*(u\d+)\s*;\s*(.*?)\)\s*;", lib)
    types = strip_comments(open(os.path.join(REPO, "src/types.rs")).read())
    ma = re.search(r"pub type \$u = BUint::<\{\s*\$bits\s*/\s*(\d+)\s*\}>;", types)
    mb = re.search(r"pub type \$i = BInt::<\{\s*\$bits\s*/\s*(\d+)\s*\}>;", types)
    if not ma or not mb:
        die("alias definitions not recognised")
    mt = re.search(r"macro_rules!\s*call_types_macro\s*\{.*?\$name!\s*\{(.*?)\}", types, re.S)
    if not mt:
        die("alias table not found")
    aliases = re.findall(r"(\d+)\s+(\w+)\s+(\w+)\s*;", mt.group(1))
    if not aliases:
        die("empty alias table")
    uc = strip_comments(open(os.path.join(REPO, "src/buint/consts.rs")).read())
    ic = strip_comments(open(os.path.join(REPO, "src/bint/consts.rs")).read())

    def table(src, macro):
        res = []
        for inv in re.findall(macro + r"!\((?:\$BUint;\s*)?(.*?)\)\s*;", src, re.S):
            for name, num in re.findall(r"(\w+)\s+(\d+)", inv):
                res.append((name, int(num)))
        return res
    upos = table(uc, "pos_const")
    ipos = table(ic, "pos_const")
    ineg = table(ic, "neg_const")
    if not upos or not ipos or not ineg:
        die("constant tables not found")
    # defining expressions (checked textually; the model in coq/Model/Consts.v transcribes exactly these)
    exprs = [
        (uc, r"pub const \$name: Self = Self::from_digit\(\$num\);", "u_pos_const_is_from_digit"),
        (uc, r"pub const MIN: Self = Self::from_digits\(\[\$Digit::MIN; N\]\);", "u_min_all_digit_min"),
        (uc, r"pub const MAX: Self = Self::from_digits\(\[\$Digit::MAX; N\]\);", "u_max_all_digit_max"),
        (uc, r"pub const BITS: ExpType = digit::\$Digit::BITS \* N as ExpType;", "u_bits_is_digit_bits_times_n"),
        (uc, r"pub const BYTES: ExpType = Self::BITS / 8;", "u_bytes_is_bits_div_8"),
        (uc, r"pub const ZERO: Self = Self::MIN;", "u_zero_is_min"),
        (ic, r"pub const \$name: Self = Self::from_bits\(\$BUint::\$name\);", "i_pos_const_is_u_const"),
        (ic, r"let mut u = \$BUint::MAX;\s*u\.digits\[0\] -= \(\$num - 1\);\s*Self::from_bits\(u\)", "i_neg_const_is_max_minus"),
        (ic, r"let mut digits = \[0; N\];\s*digits\[N - 1\] = 1 << \(\$Digit::BITS - 1\);\s*Self::from_bits\(\$BUint::from_digits\(digits\)\)", "i_min_top_bit"),
        (ic, r"let mut digits = \[\$Digit::MAX; N\];\s*digits\[N - 1\] >>= 1;\s*Self::from_bits\(\$BUint::from_digits\(digits\)\)", "i_max_top_shr1"),
        (ic, r"pub const BITS: ExpType = \$BUint::<N>::BITS;", "i_bits_is_u_bits"),
        (ic, r"pub const BYTES: ExpType = \$BUint::<N>::BYTES;", "i_bytes_is_u_bytes"),
        (ic, r"pub const ZERO: Self = Self::from_bits\(\$BUint::ZERO\);", "i_zero_is_u_zero"),
        (ic, r"pub const ONE: Self = Self::from_bits\(\$BUint::ONE\);", "i_one_is_u_one"),
    ]
    shape = []
    for src, pat, name in exprs:
        shape.append((name, bool(re.search(pat, src))))

    def sl(xs):
        return "[" + "; ".join(xs) + "]"
    out = ["(* GENERATED on every run by tools/rs2v_config.py from /repo (src/lib.rs, src/digit.rs, src/types.rs,",
           "   src/buint/consts.rs, src/bint/consts.rs).  Do not edit. *)",
           "From Coq Require Import ZArith List String.", "Import ListNotations.", "Open Scope Z_scope.", "Open Scope string_scope.", "",
           "(* (unsigned type, signed type, digit bits) of main_impl! *)",
           "Definition instantiations : list (string * string * Z) := " + sl('("%s", "%s", %s)' % (u, i, d[1:]) for u, i, d in inst) + ".",
           "(* digit_module!(digit, signed digit, double digit) as bit widths *)",
           "Definition digit_modules : list (Z * Z * Z) := " + sl("(%s, %s, %s)" % (a[1:], b[1:], c[1:]) for a, b, c in dmods) + ".",
           "(* cross-digit cast instantiations: (kind, source unsigned type, source digit bits, target digit bits) *)",
           "Definition cross_casts : list (string * string * Z * Z) := " + sl(
               '("%s", "%s", %s, %s)' % (k, u, d[1:], t[1:]) for k, u, i, d, rest in casts for _, t in re.findall(r"\((\w+)\s*,\s*(u\d+)\)", rest)) + ".",
           "(* alias table: (advertised bits, unsigned alias, signed alias); the digit count is bits / alias_divisor *)",
           "Definition alias_divisor_u : Z := %s." % ma.group(1), "Definition alias_divisor_i : Z := %s." % mb.group(1),
           "Definition aliases : list (Z * string * string) := " + sl('(%s, "%s", "%s")' % a for a in aliases) + ".",
           "(* pos_const! / neg_const! tables: constant name -> literal *)",
           "Definition u_pos_consts : list (string * Z) := " + sl('("%s", %d)' % c for c in upos) + ".",
           "Definition i_pos_consts : list (string * Z) := " + sl('("%s", %d)' % c for c in ipos) + ".",
           "Definition i_neg_consts : list (string * Z) := " + sl('("%s", %d)' % c for c in ineg) + ".",
           "(* the defining expressions of the constants have the shape the model (Model/Consts.v) transcribes *)",
           "Definition const_shapes : list (string * bool) := " + sl('("%s", %s)' % (n, "true" if b else "false") for n, b in shape) + ".", ""]
    txt = "\n".join(out)
    p = os.path.join(ROOT, "coq", "Generated", "Config.v")
    if not os.path.exists(p) or open(p).read() != txt:
        open(p, "w").write(txt)
    return 0


if __name__ == "__main__":
    sys.exit(main())

#!/usr/bin/env python3
"""Regenerates MANIFEST.json from the status table below (one place to edit)."""
import json, os
ROOT = os.path.dirname(os.path.dirname(os.path.abspath(__file__)))
# property -> (status, note)   status: proof | other | na
STATUS = {
    "C01": ("proof", "44 theorems: overflowing/checked/wrapping/saturating/strict/inherent add, sub, neg, abs, add_signed, add_unsigned, sub_unsigned, carrying_add, borrowing_sub, abs_diff, unsigned_abs, midpoint, for every digit width w > 0 and every digit count; three tie theorems: digit.rs, 68 glue functions and the overflowing_add / overflowing_sub / Add<Digit> loops are REGENERATED from /repo's source on every run and proved equal to the model"),
    "C02": ("proof", "20 theorems: long_mul exact low half + exact overflow flag, widening_mul / carrying_mul full double-width product, signed overflowing_mul incl. MIN * -1, all projections, for every w > 0 and every n; three tie theorems: digit.rs, 17 glue functions and long_mul (nested loop with break) are REGENERATED from /repo's source on every run and proved equal to the model"),
    "C03": ("proof", "72 theorems: div_rem_digit, div_rem_unchecked on ALL dispatch paths incl. Knuth algorithm D (quotient-estimate bounds, add-back, normalisation) for every digit width, n = q*d + r with 0 <= r < d; signed truncation = Z.quot/Z.rem, euclid pair, div_floor/div_ceil, next_multiple_of / checked_next_multiple_of as least/greatest multiple, zero divisor -> None / Panic, MIN / -1 cases of every form; three tie theorems: digit.rs, 32 glue functions, div_rem_digit and last_digit_index and Knuth's Algorithm D itself (basecase_div_rem with its Remainder / Mul structs, tools/rs2v_div.py) are REGENERATED from /repo's source on every run and proved equal to the model"),
    "C04": ("proof", "18 theorems: exact panic conditions per build mode for + - * neg abs pow next_power_of_two, << >> with each of the twelve primitive amount types (negative, >= BITS, > u32::MAX), strict_*, ilog2; division panics are the C03 theorems; option-/pair-valued forms have no Panic value in the model and the correspondence check compares catch_unwind outcomes in both build modes"),
    "C05": ("proof", "40 theorems: shl = (x*2^s) mod 2^BITS, shr = floor(x/2^s) zero-filling and sign-propagating, checked/overflowing/unbounded/strict/inherent forms, wrapping = s mod BITS for power-of-two BITS, rotations as cyclic permutations for EVERY width incl. non-powers of two, rotl/rotr inverses, machine-checked refutation of the pre-fix rotate; two tie theorems: 22 glue functions and the loops unchecked_shl_internal, unchecked_shr_pad_internal, rotate_digits_left, unchecked_rotate_left, swap_bytes, reverse_bits are REGENERATED from /repo's source on every run and proved equal to the model"),
    "C06": ("proof", "36 theorems: and/or/xor/not bitwise on the value, count_ones/zeros, leading/trailing zeros/ones, bits, bit/set_bit incl. the exact panic condition, power_of_two, is_power_of_two, checked/wrapping/inherent next_power_of_two, swap_bytes/reverse_bits as reversals and involutions; one tie theorem: the fifteen loop functions (bitand .. is_one) are REGENERATED from /repo's source on every run and proved equal to the model"),
    "C07": ("proof", "28 theorems: cmp = Z.compare of the denoted values (unsigned and two's complement), lt/le/gt/ge/min/max/clamp, equality <-> identical arrays <-> equal values, hash stream equality, signum/is_positive/is_negative"),
    "C08": ("proof", "29 theorems: pow in every mode, signed and unsigned, 0^0 = 1, saturation side; ilog/ilog2/ilog10 exactness b^k <= x < b^(k+1), fuel sufficiency, None/Panic conditions, and no overflow of b*b inside iilog (so checked_ilog is total in debug builds)"),
    "C09": ("proof", "16 theorems: As/CastFrom between any two bnum configurations (all digit widths incl. cross-digit split/pack routines, signed and unsigned), primitive <-> bnum, bool, char: value reduced mod 2^(target BITS), never panics; reinterpretations are the identity"),
    "C10": ("proof", "27 theorems: from_str_radix / FromStr / parse_bytes / parse_str_radix / from_radix_be/le against a reference grammar sign? digit+ with Horner denotation: Ok(value) iff representable with ANY number of leading zeros, Pos/NegOverflow by sign, Empty, InvalidDigit, rejection of every non-grammar string, panic iff radix out of range"),
    "C11": ("proof", "25 theorems: to_radix_le/be = THE canonical digit sequence (uniqueness proved) for every radix 2..=256 on all four code paths incl. the inexact bit-slicing path, to_str_radix = sign + lowercase canonical numeral, panic iff radix out of range, closed round trips: parsing the printed digits / string with the REAL parser model of C10 returns the original value, for every radix, unsigned and signed (25 theorems in total)"),
    "C12": ("proof", "31 theorems: for every trait (Display, Debug, Binary, Octal, LowerHex, UpperHex, LowerExp, UpperExp; unsigned and signed) the triple (is_nonnegative, prefix, body) handed to std's pad_integral: body = THE canonical numeral (hex_concat: per-digit numerals with interior zero padding = canonical numeral of the whole value), two's-complement pattern for signed radix forms, sign + magnitude for Display, exponent form d.ddde<k> with trailing zeros trimmed (specification proved unique); std's pad_integral itself is modelled (pad_integral_ref) and validated against the real formatter and against primitives of the same value on every run, not proved"),
    "C13": ("proof", "21 theorems: TryFrom<bnum> for every primitive = Ok(value) iff in range (both code branches, signed and unsigned), BTryFrom between any two configurations = Ok(cast, value preserved) iff representable, never panics, always Ok when widening; From/TryFrom<primitive> into bnum for representable values, TryFrom<iN> for BUint Err iff negative, bool/char, from_digits/digits/from_digit identities"),
    "C14": ("proof", "8 theorems over float BIT PATTERNS (no reals): int->float returns THE round-to-nearest-even float (characterised over integers, uniqueness proved), exact when the bit length fits the mantissa, +inf at and above the threshold, sign bit for signed sources; float->int = saturating truncation, NaN -> 0, negatives -> 0 / MIN; machine-checked refutation of the pre-fix code (0.75 -> 1); premises about shift/bits facts being discharged against the merged theorems (counted as not discharged until then)"),
    "C18": ("proof", "23 theorems: Integer::div_floor/mod_floor = Coq floor pair, div_rem = quot/rem, gcd = Z.gcd (binary gcd, fuel suffices), lcm, sqrt/cbrt/nth_root: R^k <= A < (R+1)^k for EVERY degree k incl. the general-k Newton convergence (integer AM-GM), signed roots with sign and panic conditions, Signed, forwarders = inherent models; num-integer's Roots for u128 (shortcut below 2^128) is modelled by its specification"),
    "C15": ("proof", "18 theorems: from_be/le_slice for unsigned and signed = Some(value) iff representable for byte strings of ANY length, zero/sign padding, empty slice, to_be/from_be = swap_bytes involution, to_le/from_le identity, nightly *_bytes round trips and two's-complement bytes; for every digit width that is a multiple of 8"),
    "C16": ("proof", "22 theorems: equal width + equal values => equal results and flags across digit types (add, sub, mul, cmp, shl, shr, pow; signed add, mul, cmp), extension into a wider type commutes when the exact result fits (add, sub, mul, cmp, signed add), constant tables / alias table / instantiation table REGENERATED FROM THE SOURCE on every run denote what their names advertise, MIN/MAX/BITS/BYTES values"),
    "C17": ("proof", "10 theorems on the parts of the trait layer that have content in the model: amount conversion of the 12 primitive shift-amount types and of bnum-typed amounts, Add/Div/Rem<digit>, Sum/Product as left folds, Default; reference/assign forms are the same model function as the by-value operator by construction, their agreement in the code is established by the correspondence check calling each of the ~500 generated impls"),
    "C19": ("proof", "33 theorems: FromPrimitive::from_{u,i}{8..128,size} = Some(value) iff representable for EVERY target width incl. narrower than the source, from_f32/f64 = Some(trunc) iff finite and in range (exact statement of what happens for negative floats into unsigned targets), ToPrimitive::to_* = Some iff in range, to_f32/f64 = Some(C14's cast), AsPrimitive = the As cast in all 11 directions, NumCast::from panics; num-traits default routing (from_u8 -> from_u64 ...) modelled as documented"),
    "C20": ("proof", "36 theorems: gen_range / Uniform::sample / sample_single(_inclusive) in range for every stream (RNG = universally quantified byte stream), accepted RNG words for each value are exactly q consecutive integers (unbiased by construction) for every BITS, zone formulas, Standard = little-endian decode and decode is a bijection onto [0, 2^BITS), slice fill = element-wise fill, no panic / fuel suffices"),
}
TRANSLATED = set()   # further properties whose prebuild runs a translator
NA_REASON = "not yet built in this round (work in progress; see DESIGN.md section 9)"
TRUST = ("Trusted: Coq 8.16.1 kernel (incl. vm_compute for the kernel-checked correspondence sample); coq/Prim.v models of Rust's "
         "primitive integer operations (modelled, not verified; exercised by the harness); the correspondence tie: Rust harness, "
         "OCaml extraction (ExtrOcamlBasic only) + runner, Python driver/generators; the source-to-Gallina translators "
         "(tools/rs2v_*.py) and the vocabulary their output is written in (Prim.v, Model/DigitPrims.v, Model/LoopPrims.v, Model/Imp.v, Model/ImpDiv.v). No axioms: every property theorem prints "
         "'Closed under the global context'.")

def main():
    props = [json.loads(l) for l in open(os.path.join(ROOT, "properties.jsonl"))]
    checks, na = [], []
    for p in props:
        pid = p["id"]
        st, note = STATUS.get(pid, ("na", ""))
        if st == "na":
            na.append({"property_id": pid, "reason": note or NA_REASON})
            continue
        if st == "proof":
            lc = {"category": "proof",
                  "text": "Coq theorems, closed under the global context, stating the property about a Gallina model of the Rust functions for ALL digit widths, digit counts and operands (" + note + "); the model is tied to the current source on every run by a differential correspondence check (both build modes, boundary-biased + exhaustive small spaces, kernel-checked sample)",
                  "design_ref": "DESIGN.md section 6"}
            tech = "machine-checked proof in Coq (model = spec, all widths) + differential correspondence check model vs code"
            if pid in ("C01", "C02", "C03", "C05", "C06", "C08", "C16") or pid in TRANSLATED:
                tech += " + source-to-Gallina translators with tie proofs (generated = model)"
        else:
            lc = {"category": "other",
                  "text": "executable Gallina model of the Rust functions tied to the current source by a differential correspondence check (both build modes, kernel-checked sample); the Model = Spec theorems for this property are not merged yet, so proof level is not claimed" + (": " + note if note else ""),
                  "design_ref": "DESIGN.md section 6"}
            tech = "Gallina model + differential correspondence check against the implementation (Coq theorems pending)"
        checks.append({"property_id": pid, "quick_cmd": "./check %s --tier quick" % pid,
                       "thorough_cmd": "./check %s --tier thorough" % pid, "evidence_file": "evidence/%s.json" % pid,
                       "replay_cmd_template": "./check %s --replay {path}" % pid, "engine": "coq-model-proof+correspondence",
                       "level_claimed": lc, "level_note": TRUST, "technique": tech})
    old = json.load(open(os.path.join(ROOT, "MANIFEST.json")))
    hooks = {"guard": "bnum_verif",
             "enable": "RUSTFLAGS=--cfg bnum_verif (set by ./check when it builds /verif/harness against /repo); the hooks are thin pub wrappers verif_* around internal functions (long_mul, div_rem_digit, div_rem_unchecked, basecase_div_rem, iilog, unchecked_shl_internal, unchecked_shr_pad_internal, rotate_digits_left, unchecked_rotate_left, last_digit_index, signed div_rem_unchecked)",
             "baseline_off_cmd": "cd /repo && cargo test --workspace --no-fail-fast --offline",
             "source_commits": ["6ab917adbd65a440188a7c6e8db6e3955af81495"], "add_only": True}
    m = {"version": 1, "setup_cmd": "./setup.sh", "hooks": hooks,
         "engines": [{"name": "coq-model-proof+correspondence", "path": "/verif/check",
                      "serves_properties": [c["property_id"] for c in checks],
                      "kind_free_text": "Coq 8.16 theorems about a hand-written Gallina model (coq/), tied to /repo by a differential correspondence check (Rust harness vs OCaml-extracted model + kernel-checked vm_compute sample)"}],
         "checks": checks, "notes": "see DESIGN.md; known findings in known_findings.txt", "not_applicable": na}
    json.dump(m, open(os.path.join(ROOT, "MANIFEST.json"), "w"), indent=1)
    print("claimed:", [c["property_id"] for c in checks])

main()

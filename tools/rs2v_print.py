#!/usr/bin/env python3
"""tools/rs2v_print.py — TRANSLATOR: the radix OUTPUT (printing) code of bnum  ->  coq/Generated/PrintGen.v

Reads $BNUM_REPO (default /repo) src/buint/radix.rs (the free fns ilog2, div_ceil; to_bitwise_digits_le,
to_inexact_bitwise_digits_le, to_radix_digits_le, to_radix_le, to_radix_be, to_str_radix) and src/bint/radix.rs (to_str_radix,
to_radix_be, to_radix_le) and translates each function into Gallina over the control-flow vocabulary of coq/Model/Imp.v,
coq/Model/ImpParse.v (u8 arithmetic, checked division), coq/Model/ImpDiv.v (digit subtraction) and coq/Model/ImpPrint.v (NEW:
Vec<u8> as `list Z` - push / pop / last / with_capacity, `for` loops over a list / a range / `iter_mut`, inclusive slices,
u32::is_power_of_two).  coq/Proofs/PrintGenTie*.v prove the generated functions equal to the hand-written model
coq/Model/RadixOut.v (the functions the C11 theorems are about).

Built as a library client of tools/rs2v_loops.py (lexer pieces, type machinery, statement generator L.Gen) and of its client
tools/rs2v_parse.py (P.PP / P.PG: byte literals, u8, assert_range!, matches, shadowing by alpha-renaming), extended by
subclassing; tools/PRINT_TRANSLATOR.md describes the subset that is added.  Anything outside the subset makes the translator fail
loudly: the construct is named on stderr, the function (and every generated function that calls it) becomes a stub
`Definition f : unit := tt.` so that exactly its tie lemmas stop checking, and the exit status is 1 (0 with `--for Cxx` for a
property other than C11)."""
import re, sys, os
sys.path.insert(0, os.path.dirname(os.path.abspath(__file__)))
import rs2v_loops as L
import rs2v_parse as P

REPO = os.environ.get("BNUM_REPO", "/repo")
ROOT = os.path.dirname(os.path.dirname(os.path.abspath(__file__)))
LAST_MSG = [""]


def die(msg):
    LAST_MSG[0] = msg
    if not L.QUIET[0]:
        sys.stderr.write("rs2v_print: " + msg + "\n")
    sys.exit(1)


U, I = "src/buint/radix.rs", "src/bint/radix.rs"
# (source file, "file" = a free fn of the file / "macro" = inside the ($BUint, $BInt, $Digit) macro, anchor, Rust fn name, Gallina name)
# callees before callers
WANTED = [
    (U, "file", None, "ilog2", "ilog2"),
    (U, "file", None, "div_ceil", "div_ceil"),
    (U, "macro", None, "to_bitwise_digits_le", "to_bitwise_digits_le"),
    (U, "macro", None, "to_inexact_bitwise_digits_le", "to_inexact_bitwise_digits_le"),
    (U, "macro", None, "to_radix_digits_le", "to_radix_digits_le"),
    (U, "macro", None, "to_radix_le", "to_radix_le"),
    (U, "macro", None, "to_radix_be", "to_radix_be"),
    (U, "macro", None, "to_str_radix", "to_str_radix"),
    (I, "macro", None, "to_str_radix", "I_to_str_radix"),
    (I, "macro", None, "to_radix_be", "I_to_radix_be"),
    (I, "macro", None, "to_radix_le", "I_to_radix_le"),
]
GROUPS = {"C11": [c for _, _, _, _, c in WANTED]}

# Functions that are NOT re-translated here: the call becomes a call of the hand-written model function by qualified name (their
# own tie to the source is listed on the right), exactly as tools/rs2v_div.py / rs2v_parse.py do.
# (receiver type, Rust method) -> (Gallina format ({0} = receiver), argument types, result type)
EXT_METHODS = {
    ("buint", "last_digit_index"): ("(Z.of_nat (Div.last_digit_index {0}))", [], "usize"),          # Proofs/LoopsTieDiv.v: loops_last_digit_index
    ("buint", "bits"): ("(Bits.bits_of w {0})", [], "ExpType"),                                      # Proofs/LoopsTieC06b.v: loops_bits
    ("buint", "is_zero"): ("(Core.is_zero {0})", [], "bool"),                                        # Proofs/LoopsTieC06.v: loops_is_zero
    ("buint", "div_rem_digit"): ("(Div.div_rem_digit w {0} {1})", ["Digit"], ("buint", "Digit")),   # Proofs/LoopsTieDiv.v: loops_div_rem_digit
    ("bint", "is_negative"): ("(Core.is_negative w {0})", [], "bool"),                               # Proofs/GlueTieC07.v: glue_I_is_negative
    ("bint", "unsigned_abs"): ("(AddSub.I_unsigned_abs w {0})", [], "buint"),                        # Proofs/GlueTieC01.v: glue_I_unsigned_abs
}
# Self::radix_base_half(radix): the function GENERATED from the same source file by tools/rs2v_parse.py (Generated/ParseGen.v),
# tied to Model/RadixOut.v: radix_base_half in Proofs/ParseGenTieHalf.v
RADIX_BASE_HALF = "ParseGen.ParseGen.radix_base_half w N fuel"


# ---------------------------------------------------------------- types
# new: "vec" (Vec<u8>), "string" (String), ("slice", T) (a[lo..=hi]), ("iter", T, "val" | "ref") (an iterator; all `list Z`),
#      ("refval", T) (the `&T` parameter of a closure / the `&mut u8` variable of `for x in v.iter_mut()`)

def is_iter(t):
    return isinstance(t, tuple) and len(t) == 3 and t[0] == "iter"


def is_slice(t):
    return isinstance(t, tuple) and len(t) == 2 and t[0] == "slice"


_coq_ty0 = P.coq_ty


def coq_ty(t):
    t0 = L.rs(t)
    if t0 in ("vec", "string") or is_iter(t0) or is_slice(t0):
        return "list Z"
    if L.is_opt(t0) or P.is_result(t0):
        inner = coq_ty(t0[1])
        return "(%s %s)" % (t0[0], inner if inner.startswith("(") or " " not in inner else "(" + inner + ")")
    if isinstance(t0, tuple):
        return "(" + " * ".join(coq_ty(x) for x in t0) + ")"
    return _coq_ty0(t0)


_show0 = P.show


def show(t):
    t0 = L.rs(t)
    if t0 == "vec":
        return "Vec<u8>"
    if t0 == "string":
        return "String"
    if is_iter(t0):
        return "Iterator<%s%s>" % ("&" if t0[2] == "ref" else "", show(t0[1]))
    if is_slice(t0):
        return "[%s]" % show(t0[1])
    return _show0(t)


# rs2v_loops / rs2v_parse look these up as module globals at call time
L.die = die
P.die = die
L.coq_ty = coq_ty
L.show = show
P.coq_ty = coq_ty
P.show = show


# ---------------------------------------------------------------- lexing (P.tokenize + the `..` token)

TOK = re.compile(r"""\s*(?:(b'(?:\\.|[^\\'])')|("(?:\\.|[^"\\])*")|(\d[\d_]*)|(\$?[A-Za-z_][A-Za-z0-9_]*(?:!(?!=))?)|"""
                 r"""(\.\.=|\.\.|<<=|>>=|<<|>>|\|\||&&|!=|==|<=|>=|->|=>|::|\+=|-=|\*=|/=|%=|\|=|&=|\^=|[-+*/%|&^<>!=(){}\[\],;:.#]))""")


def tokenize(s):
    out, i = [], 0
    while i < len(s):
        m = TOK.match(s, i)
        if not m:
            if s[i:].strip() == "":
                break
            die("cannot tokenize near: " + s[i:i + 40].strip())
        i = m.end()
        if m.group(1):
            c = m.group(1)[2:-1]
            if c.startswith("\\"):
                if c[1] not in P.ESC:
                    die("unsupported escape in byte literal b'%s'" % c)
                out.append("byte:%d" % P.ESC[c[1]])
            else:
                if ord(c) > 127:
                    die("non-ASCII byte literal")
                out.append("byte:%d" % ord(c))
        elif m.group(2):
            out.append("str:" + m.group(2)[1:-1])
        else:
            out.append(m.group(3) or m.group(4) or m.group(5))
    return out


# ---------------------------------------------------------------- parsing

VEC_STMT_METHODS = {"push": 1, "pop": 0, "reverse": 0}


class QP(P.PP):
    """P.PP + `Vec<u8>` / `String`, `for PAT in ITER { .. }`, `while let Some(&LIT) = e { .. }`, the statements `v.push(e);`
    `v.pop();` `v.reverse();`, `vec![e, ..]`, `format!("lit{}lit", e, ..)`, closures `|x| e`, inclusive slices `a[lo..=hi]`,
    ranges `lo..hi` (only as the iterator of a `for`)."""

    def type_(self):
        v = self.peek()
        if v == "Vec":
            self.eat(), self.eat("<"), self.eat("u8"), self.eat(">")
            return "vec"
        if v == "String":
            self.eat()
            return "string"
        return P.PP.type_(self)

    def stmt(self):
        v = self.peek()
        if v == "for":
            self.eat()
            mut = False
            if self.peek() == "_":
                self.eat()
                name = None
            else:
                if self.peek() == "mut":
                    self.eat()
                    mut = True
                name = self.ident()
            self.eat("in")
            it = self.expr()
            if self.peek() == "..":
                self.eat()
                it = ["range", it, self.expr()]
            return ["for", (name, mut), it, self.block()]
        if v == "while" and self.peek(1) == "let":
            # `while let Some(&LIT) = e { .. }`: the loop runs while e is `Some` of (a reference to) that literal
            self.eat(), self.eat()
            self.eat("Some"), self.eat("("), self.eat("&")
            lit = self.lit_pat()
            self.eat(")"), self.eat("=")
            e = self.expr()
            return ["while", ["letsome", lit, e], self.block()]
        if v in ("vec!", "format!"):                    # as the value of a block
            e = self.expr()
            if self.peek() != "}":
                die("%s in statement position: only supported as the value of a block" % v)
            return ["expr", e]
        if P.is_ident(v) and self.peek(1) == "." and self.peek(2) in VEC_STMT_METHODS and self.peek(3) == "(":
            # `v.push(e);` / `v.pop();` / `v.reverse();` as a statement (the value of `pop` is discarded)
            save = self.i
            name = self.eat()
            self.eat(".")
            m = self.eat()
            args = self.args()
            if self.peek() == ";":
                self.eat()
                if len(args) != VEC_STMT_METHODS[m]:
                    die("call of .%s with %d arguments" % (m, len(args)))
                return ["vecop", name, m, args]
            self.i = save
        return P.PP.stmt(self)

    def postfix(self):
        e = self.primary()
        while True:
            if self.peek() == ".":
                self.eat(".")
                name = self.eat()
                if re.match(r"^\d+$", name):
                    e = ["field", e, name]
                elif not L.IDENT.match(name):
                    die("bad field / method name %r" % name)
                elif self.peek() == "(":
                    e = ["mcall", e, name, self.args()]
                elif self.peek() == "::":
                    die("generic arguments on method calls (::<..>) are not supported")
                else:
                    e = ["field", e, name]
            elif self.peek() == "[":
                self.eat("[")
                ix = self.expr()
                if self.peek() == "..=":
                    self.eat()
                    hi = self.expr()
                    self.eat("]")
                    e = ["slice_incl", e, ix, hi]
                else:
                    self.eat("]")
                    e = ["index", e, ix]
            else:
                return e

    def primary(self):
        v = self.peek()
        if v == "|":                                    # closure with one parameter: |x| e
            self.eat()
            x = self.ident()
            self.eat("|")
            return ["closure", x, self.expr()]
        if v == "vec!":
            self.eat()
            self.eat("[")
            es = []
            while self.peek() != "]":
                es.append(self.expr())
                if self.peek() == ",":
                    self.eat()
                elif self.peek() != "]":
                    die("cannot parse vec![..] (only the list form `vec![a, b, ..]` is supported)")
            self.eat("]")
            return ["veclit", es]
        if v == "format!":
            self.eat()
            self.eat("(")
            f = self.eat()
            if not f.startswith("str:"):
                die("format!: the first argument must be a string literal")
            args = []
            while self.peek() == ",":
                self.eat()
                if self.peek() == ")":
                    break
                args.append(self.expr())
            self.eat(")")
            return ["format", f[4:], args]
        return P.PP.primary(self)


# ---------------------------------------------------------------- alpha-renaming (P.Renamer + the new nodes)

class QRenamer(P.Renamer):
    def stmt(self, s, outer, local, sub):
        k = s[0]
        vis = outer | local
        if k == "for":
            (name, mut), it, body = s[1], s[2], s[3]
            it2 = self.expr(it, vis, sub)
            sub2, loc2 = dict(sub), set()
            n2 = self.bind(name, vis, loc2, sub2) if name is not None else None
            return ["for", (n2, mut), it2, self.block(body, vis | loc2, sub2)]
        if k == "vecop":
            return ["vecop", sub.get(s[1], self.safe(s[1])), s[2], [self.expr(x, vis, sub) for x in s[3]]]
        return P.Renamer.stmt(self, s, outer, local, sub)

    def expr(self, e, vis, sub):
        if e is None or not isinstance(e, (list, tuple)):
            return e
        k = e[0]
        if k == "range":
            return ["range", self.expr(e[1], vis, sub), self.expr(e[2], vis, sub)]
        if k == "letsome":
            return ["letsome", e[1], self.expr(e[2], vis, sub)]
        if k == "slice_incl":
            return ["slice_incl", self.expr(e[1], vis, sub), self.expr(e[2], vis, sub), self.expr(e[3], vis, sub)]
        if k == "veclit":
            return ["veclit", [self.expr(x, vis, sub) for x in e[1]]]
        if k == "format":
            return ["format", e[1], [self.expr(x, vis, sub) for x in e[2]]]
        if k == "closure":
            sub2, loc2 = dict(sub), set()
            x2 = self.bind(e[1], vis, loc2, sub2)
            return ["closure", x2, self.expr(e[2], vis | loc2, sub2)]
        return P.Renamer.expr(self, e, vis, sub)


def subst_deref(node, x):
    """the AST with every `*x` replaced by `x` (x: the `&mut u8` variable of `for x in v.iter_mut()`)"""
    if isinstance(node, list):
        if len(node) == 3 and node[0] == "un" and node[1] == "*" and node[2] == ["var", x]:
            return ["var", x]
        return [subst_deref(c, x) for c in node]
    if isinstance(node, tuple):
        return tuple(subst_deref(c, x) for c in node)
    return node


def mentions(node, x):
    if isinstance(node, (list, tuple)):
        if len(node) == 2 and node[0] == "var" and node[1] == x:
            return True
        return any(mentions(c, x) for c in node)
    return False


def has_jump(blk):
    """does the statement list contain `break` / `return` (at any depth)?"""
    def walk(n):
        if isinstance(n, (list, tuple)):
            if n and n[0] in ("break", "return", "ret"):
                return True
            return any(walk(c) for c in n)
        return False
    return walk(blk)


# ---------------------------------------------------------------- generation

class QG(P.PG):
    """P.PG + Vec<u8> / String values, `for` loops, `while let Some(&LIT) = v.last()`, iterator chains
    (into_iter / take / map / collect), inclusive slices, digit `-` `/` `%`, method calls of generated functions,
    the externally tied functions of EXT_METHODS and Self::radix_base_half."""

    # ------------------------------------------------ expressions
    def ex(self, e, env):
        k = e[0]
        if k == "un" and e[1] == "*" and e[2][0] == "var" and e[2][1] in env:
            t = L.rs(env[e[2][1]].ty)
            if isinstance(t, tuple) and len(t) == 2 and t[0] == "refval":
                return [], e[2][1], t[1]
        if k == "letsome":
            # the condition of `while let Some(&LIT) = e`
            p, v, t = self.ex(e[2], env)
            if p:
                self.die("while let: scrutinee with effects")
            elt = L.TVar()
            L.unify(t, ("option", elt), "scrutinee of while let Some(..)")
            pl, vl, tl = self.ex(e[1], env)
            L.unify(tl, elt, "literal pattern of while let")
            return [], "(match %s with Some x' => (x' =? %s) | None => false end)" % (v, vl), "bool"
        if k == "veclit":
            vs = []
            for x in e[1]:
                p, v, t = self.ex(x, env)
                L.unify(t, "u8", "element of vec![..]")
                if p:
                    self.die("vec![..] element with effects")
                vs.append(v)
            return [], "[" + "; ".join(vs) + "]", "vec"
        if k == "format":
            # format!("lit{}lit..", s1, ..) with String arguments: the concatenation (a String is its bytes)
            parts = re.split(r"(\{\})", e[1])
            if "{" in "".join(x for x in parts if x != "{}") or "}" in "".join(x for x in parts if x != "{}") or "\\" in e[1]:
                self.die("format!: only literal text and `{}` placeholders are supported")
            if parts.count("{}") != len(e[2]):
                self.die("format!: %d placeholders, %d arguments" % (parts.count("{}"), len(e[2])))
            pre, vs, ai = [], [], 0
            for x in parts:
                if x == "{}":
                    p, v, t = self.ex(e[2][ai], env)
                    ai += 1
                    L.unify(t, "string", "argument of format!")
                    pre += p
                    vs.append(v)
                elif x:
                    if any(ord(c) > 127 for c in x):
                        self.die("format!: non-ASCII literal text")
                    vs.append("[" + "; ".join(str(ord(c)) for c in x) + "]")
            return pre, "(" + " ++ ".join(vs) + ")" if vs else "[]", "string"
        if k == "slice_incl":
            arr = self.array_of(e[1], env)
            p1, v1, t1 = self.ex(e[2], env)
            p2, v2, t2 = self.ex(e[3], env)
            L.unify(t1, "usize", "slice bound")
            L.unify(t2, "usize", "slice bound")
            x = self.tmp()
            return p1 + p2 + ["%s <- slice_incl %s %s %s ;;" % (x, arr, v1, v2)], x, ("slice", "Digit")
        if k == "closure":
            self.die("a closure is only supported as the argument of .map(..)")
        if k == "range":
            self.die("a range lo..hi is only supported as the iterator of a `for`")
        if k == "as":
            save = self.ntmp
            p, v, t = self.ex(e[1], env)
            if L.rs(t) == "Digit" and e[2] == "u8":            # digit as u8: truncation
                return p, "(to_u8 %s)" % v, "u8"
            self.ntmp = save
        return P.PG.ex(self, e, env)

    def bin(self, e, env):
        _, op, a, b = e
        if op in ("-", "/", "%"):
            save = self.ntmp
            pa, va, ta = self.ex(a, env)
            pb, vb, tb = self.ex(b, env)
            t = L.rs(L.unify(ta, tb, "operands of " + op))
            if t == "Digit":
                # digit `-`: overflow check (dsub of Model/ImpDiv.v); digit `/` `%`: a zero divisor panics
                x = self.tmp()
                return pa + pb + ["%s <- %s %s %s ;;" % (x, {"-": "dsub", "/": "udiv", "%": "urem"}[op], va, vb)], x, "Digit"
            self.ntmp = save
        return P.PG.bin(self, e, env)

    def iter_of(self, e, env):
        """an expression in iterator position -> (prelude, list value, element type, by reference?)"""
        if e[0] == "range":
            p1, v1, t1 = self.ex(e[1], env)
            p2, v2, t2 = self.ex(e[2], env)
            t = L.unify(t1, t2, "bounds of a range")
            if not L.is_int(t):
                self.die("range over " + show(t))
            return p1 + p2, "(range %s %s)" % (v1, v2), t, False
        p, v, t = self.ex(e, env)
        t = L.rs(t)
        if is_iter(t):
            return p, v, t[1], t[2] == "ref"
        if self.kind_of(t) == "digits":                 # `for c in self.digits`: the array by value
            return p, v, "Digit", False
        self.die("cannot iterate over a value of type " + show(t))

    def mcall(self, e, env):
        _, recv, name, args = e
        save = self.ntmp
        p, v, t = self.ex(recv, env)
        t0 = L.rs(t)
        if t0 == "vec" and name == "last" and not args:
            return p, "(vec_last %s)" % v, ("option", "u8")
        if t0 == "ExpType" and name == "is_power_of_two" and not args:
            return p, "(u32_is_power_of_two %s)" % v, "bool"
        if is_slice(t0) and name == "into_iter" and not args:            # IntoIterator for &[T]: yields references
            return p, v, ("iter", t0[1], "ref")
        if is_iter(t0):
            if name == "take" and len(args) == 1:
                p2, v2, t2 = self.ex(args[0], env)
                L.unify(t2, "usize", "argument of take")
                return p + p2, "(firstn (Z.to_nat %s) %s)" % (v2, v), t0
            if name == "map" and len(args) == 1 and args[0][0] == "closure":
                x, body = args[0][1], args[0][2]
                env2 = self.copy(env)
                if x in L.RESERVED or x in P.GALLINA_KEYWORDS or re.match(r"^t\d+$", x) or x == "N":
                    self.die("closure parameter name %s is reserved" % x)
                env2[x] = L.Var(("refval", t0[1]) if t0[2] == "ref" else t0[1], False)
                pb, vb, tb = self.ex(body, env2)
                if pb:
                    self.die("closure body with effects (it must be a pure expression)")
                return p, "(map (fun %s => %s) %s)" % (x, vb, v), ("iter", tb, "val")
            if name == "collect" and not args:
                if t0[2] != "val" or L.rs(t0[1]) != "u8":
                    self.die("collect() of an iterator over %s: only u8 values -> Vec<u8>" % show(t0[1]))
                return p, v, "vec"
        if (t0, name) in EXT_METHODS and self.lookup(t0, name, True) is None:
            fmt, ptys, rty = EXT_METHODS[(t0, name)]
            return self.ext_call((fmt, ptys, rty, ()), name, [v], p, args, env)
        if t0 in ("buint", "bint"):
            sg = self.lookup(t0, name, True)
            if sg is not None:
                self.ntmp = save
                return self.call_translated(sg, recv, args, env)
        self.ntmp = save
        return P.PG.mcall(self, e, env)

    def call_translated(self, sig, recv, args, env, size=None):
        """call of another generated function; a method gets its receiver as the first argument"""
        if size is not None:
            self.die("call of %s at an inferred size" % sig["rust"])
        if not sig["self"]:
            return self.call_fn(sig, [], None, args, env)
        if sig["generics"]:
            self.die("call of the method %s with generic parameters" % sig["rust"])
        name = sig["rust"]
        if len(args) != len(sig["params"]):
            self.die("call of %s with %d arguments, expected %d" % (name, len(args), len(sig["params"])))
        pre, vs = [], []
        for a, (pn, pt) in zip([recv] + list(args), [("self", sig["selfty"])] + sig["params"]):
            p, v, t = self.ex(a, env)
            L.unify(t, pt, "argument %s of %s" % (pn, name))
            pre += p
            vs.append(v)
        if sig["coq"] == self.fname:
            self.die("recursion is not supported")
        if sig["dbg"]:
            self.uses_dbg = True
        x = self.tmp()
        return pre + ["%s <- %s %sw N fuel %s ;;" % (x, sig["coq"], "dbg " if sig["dbg"] else "", " ".join(vs))], x, sig["ret"]

    def pcall(self, e, env, gargs=None):
        _, segs, args = e[:3]
        s = tuple(segs)
        if gargs is None:
            if s == ("Vec", "with_capacity") and len(args) == 1:
                p, v, t = self.ex(args[0], env)
                L.unify(t, "usize", "argument of Vec::with_capacity")
                return p, "(vec_with_capacity %s)" % v, "vec"
            if s == ("String", "from_utf8_unchecked") and len(args) == 1:
                p, v, t = self.ex(args[0], env)                  # a String is its bytes
                L.unify(t, "vec", "argument of String::from_utf8_unchecked")
                return p, v, "string"
            if s == ("IntoIterator", "into_iter") and len(args) == 1:
                p, v, t = self.ex(args[0], env)
                if self.kind_of(t) != "digits":
                    self.die("IntoIterator::into_iter of a value of type " + show(t))
                return p, v, ("iter", "Digit", "val")               # IntoIterator for [T; N]: yields the digits by value
            if s == ("Self", "radix_base_half") and self.selfty == "buint" and len(args) == 1:
                p, v, t = self.ex(args[0], env)
                L.unify(t, "ExpType", "argument of radix_base_half")
                x = self.tmp()
                return p + ["%s <- %s %s ;;" % (x, RADIX_BASE_HALF, v)], x, ("Digit", "usize")
        return P.PG.pcall(self, e, env, gargs)

    # ------------------------------------------------ statements
    def order_state(self, env, asg):
        """the canonical order of a loop state (as in L.Gen.stmts: arrays, bools, digits, u32s, usizes, the rest)"""
        rank = {"buint": 0, "bint": 0, "digits": 0, "bool": 1, "Digit": 2, "SDigit": 2, "PInt": 2, "ExpType": 3, "usize": 4}
        state = [n for n in env if n in asg]
        return [n for _, _, n in sorted((rank.get((self.kind_of(env[n].ty) or L.rs(env[n].ty))
                                                  if not isinstance(L.rs(env[n].ty), (L.TVar, tuple)) else "", 5), k, n)
                                        for k, n in enumerate(state))]

    def stmts(self, ss, env, ctx, ind):
        pad = "  " * ind
        if not ss:
            return P.PG.stmts(self, ss, env, ctx, ind)
        s, rest = ss[0], ss[1:]
        k = s[0]
        if k == "vecop":
            _, name, m, args = s
            if name not in env:
                self.die("unbound variable " + name)
            if L.rs(env[name].ty) != "vec":
                self.die(".%s on %s, a value of type %s" % (m, name, show(env[name].ty)))
            if not env[name].mut:
                self.die(".%s on immutable variable %s" % (m, name))
            if m == "push":
                p, v, t = self.ex(args[0], env)
                L.unify(t, "u8", "argument of push")
                line = "let %s := (vec_push %s %s) in" % (name, name, v)
            elif m == "pop":
                p, line = [], "let %s := (vec_pop %s) in" % (name, name)
            else:
                p, line = [], "let %s := (rev %s) in" % (name, name)
            return self.lines(p + [line], pad) + "\n" + self.stmts(rest, env, ctx, ind)
        if k == "for":
            (x, xmut), it, body = s[1], s[2], s[3]
            if x is not None and (x in L.RESERVED or x in P.GALLINA_KEYWORDS or re.match(r"^t\d+$", x) or x == "N"):
                self.die("loop variable name %s is reserved" % x)
            if it[0] == "mcall" and it[2] == "iter_mut" and not it[3] and it[1][0] == "var":
                # `for x in v.iter_mut() { body }`: x names the elements of v in order; the body reads and writes `*x` only
                vname = it[1][1]
                if vname not in env or L.rs(env[vname].ty) != "vec" or not env[vname].mut:
                    self.die("iter_mut() of %s: not a mutable Vec<u8> variable" % vname)
                if x is None or xmut:
                    self.die("for over iter_mut(): the pattern must be a plain variable")
                if has_jump(body):
                    self.die("break / return inside `for .. in v.iter_mut()`: not supported")
                body2 = subst_deref(body, x)
                if mentions(body2, vname):
                    self.die("the body of `for .. in %s.iter_mut()` mentions %s" % (vname, vname))
                asg = self.assigned(body2)
                if asg - {x}:
                    self.die("the body of `for .. in v.iter_mut()` assigns %s: only `*%s` may be written" % (", ".join(sorted(asg - {x})), x))
                benv = self.copy(env)
                benv[x] = L.Var("u8", True)
                saved = self.ret
                self.ret = "u8"
                try:
                    tb = self.stmts(list(body2) + [["expr", ["var", x]]], benv,
                                    {"loop": None, "protected": set(benv.keys()) | ctx["protected"]}, ind + 2)
                finally:
                    self.ret = saved
                out = pad + "%s <- for_each_mut %s (fun %s =>\n%s) ;;\n" % (vname, vname, x, tb)
                return out + self.stmts(rest, env, ctx, ind)
            pi, vi, elt, byref = self.iter_of(it, env)
            if byref:
                self.die("for over an iterator of references: not supported")
            benv = self.copy(env)
            state = self.order_state(env, self.assigned(body) - ({x} if x is not None else set()))
            for n in state:
                if not env[n].mut:
                    self.die("loop assigns immutable variable " + n)
            if not state:
                self.die("for loop that assigns no variable of its context")
            if x is not None:
                if x in env:
                    self.die("loop variable %s shadows a variable (internal: renaming failed)" % x)
                benv[x] = L.Var(elt, xmut)
            enclosing = set(ctx["loop"] or []) | ctx.get("outer_states", set())
            bctx = {"loop": state, "protected": set(state) | enclosing | ({x} if x is not None else set()), "outer_states": enclosing}
            tbody = self.stmts(body, benv, bctx, ind + 2)
            r, v = self.tmp(), self.tmp()
            after = self.stmts(rest, env, ctx, ind + 2)
            out = (self.lines(pi, pad) + "\n") if pi else ""
            out += pad + "%s <- for_each (R := %s) %s\n" % (r, coq_ty(self.ret), vi)
            out += pad + "  (fun %s %s =>\n%s)\n" % (x if x is not None else "_", self.pat(state), tbody)
            out += pad + "  %s ;;\n" % self.tup(state)
            out += pad + "match %s with\n" % r
            out += pad + "| Exited %s =>\n%s\n" % (self.tup(state), after)
            out += pad + "| Returned %s => Done %s\n" % (v, v if ctx["loop"] is None else "(Return %s)" % v)
            out += pad + "end"
            return out
        return P.PG.stmts(self, ss, env, ctx, ind)

    def assigned(self, blk):
        out = set()
        for s in blk or []:
            if s[0] == "for":
                out |= self.assigned(s[3]) - ({s[1][0]} if s[1][0] is not None else set())
                if s[2][0] == "mcall" and s[2][2] == "iter_mut" and s[2][1][0] == "var":
                    out.add(s[2][1][1])
            elif s[0] == "vecop":
                out.add(s[1])
            elif s[0] == "assign" and s[1][0] == "un" and s[1][1] == "*":
                self.die("assignment through a reference: only `*x` of `for x in v.iter_mut()` is supported")
            else:
                out |= P.PG.assigned(self, [s])
        return out


# ---------------------------------------------------------------- driver

def parse_sig(name, generics, params, ret, selfty):
    sig = {"self": False, "params": [], "generics": [], "mut": set(), "selfty": selfty, "rust": name, "callable": True,
           "mutref": False, "dbg": False, "prim": None}
    if generics:
        die("fn %s: generic parameters are not supported" % name)
    t = QP(tokenize(params), selfty)
    first = True
    while t.peek() is not None:
        if first and (t.peek() == "self" or (t.peek() == "&" and t.peek(1) == "self")):
            if t.peek() == "&":
                t.eat("&")
            t.eat("self")                                # `self` / `&self`: the value (never assigned here)
            if selfty == "free":
                die("fn %s: a free function with a self parameter" % name)
            sig["self"] = True
        elif t.peek() in ("mut", "&") and "self" in (t.peek(1), t.peek(2)):
            die("fn %s: `mut self` / `&mut self` are not supported" % name)
        else:
            pn = t.ident()
            t.eat(":")
            sig["params"].append((pn, t.type_()))
        first = False
        if t.peek() == ",":
            t.eat(",")
        elif t.peek() is not None:
            die("fn %s: cannot parse the parameter list" % name)
    if ret is None:
        die("fn %s: no return type" % name)
    r = QP(tokenize(ret), selfty)
    sig["ret"] = r.type_()
    if r.peek() is not None:
        die("fn %s: cannot parse the return type %s" % (name, ret))
    return sig


def translate_one(coq, fns, sigs, dsigs):
    path, rust, body = fns[coq]
    sig = sigs[coq]
    toks = tokenize(body)
    pp = QP(toks, sig["selfty"])
    ast = pp.block()
    if pp.peek() is not None:
        die("fn %s: trailing tokens after the body" % rust)
    rn = QRenamer(rust, P.idents_of(toks))
    outer = set(n for n, _ in sig["params"]) | ({"self"} if sig["self"] else set())
    for n in outer:
        if n in P.GALLINA_KEYWORDS:
            die("fn %s: parameter name %s is a Gallina keyword" % (rust, n))
    ast = rn.block(ast, set(), {}, outer)
    tvs, txt, g = {}, None, None
    for final in (False, True):
        g = QG(coq, sigs, dsigs, {}, tvs, final)
        env = {}
        ctx = {"loop": None, "protected": set()}
        if sig["self"]:
            env["self"] = L.Var(sig["selfty"], False)
        for pn, pt in sig["params"]:
            g.declare(env, pn, pt, False, ctx)
        txt = g.stmts(ast, env, ctx, 1)
        sig["dbg"] = g.uses_dbg
    argl = " (self : list Z)" if sig["self"] else ""
    argl += "".join(" (%s : %s)" % (n, coq_ty(t)) for n, t in sig["params"])
    return "(* %s: fn %s *)\nDefinition %s %s(w N : Z) (fuel : nat)%s : res (%s) :=\n%s.\n" % (
        path, rust, coq, "(dbg : bool) " if sig["dbg"] else "", argl, coq_ty(sig["ret"]), txt)


HEADER = ["(* GENERATED on every run by tools/rs2v_print.py from /repo/src/buint/radix.rs and /repo/src/bint/radix.rs (the radix OUTPUT",
          "   code).  Do not edit.  Proofs/PrintGenTie*.v prove the functions equal to the hand-written model Model/RadixOut.v.",
          "   Vocabulary: Model/Imp.v + Model/ImpParse.v + Model/ImpDiv.v + Model/ImpPrint.v (control flow, u8 / digit checked operations,",
          "   Vec<u8> as list Z, for loops), Prim.v, Model/DigitPrims.v; called by their hand-model names (tied elsewhere):",
          "   Div.last_digit_index, Div.div_rem_digit, Bits.bits_of, Core.is_zero, Core.is_negative, AddSub.I_unsigned_abs; called as",
          "   generated by tools/rs2v_parse.py: ParseGen.radix_base_half (tie: Proofs/ParseGenTieHalf.v). *)",
          "From Bnum Require Import Base Prim.",
          "From Bnum.Model Require Import DigitPrims LoopPrims Core Imp ImpParse ImpDiv ImpPrint.",
          "From Bnum.Model Require AddSub Bits Div.",
          "From Bnum.Generated Require Import DigitGen.",
          "From Bnum.Generated Require ParseGen.", "", "Module PrintGen.", ""]
OUTFILE = os.path.join(ROOT, "coq", "Generated", "PrintGen.v")


def write(txt):
    if not os.path.exists(OUTFILE) or open(OUTFILE).read() != txt:
        open(OUTFILE, "w").write(txt)


def stub(path, rust, coq, why):
    return "(* %s: fn %s  -- NOT TRANSLATED: %s *)\nDefinition %s : unit := tt.\n" % (
        path, rust, why.replace("*)", "* )").replace("(*", "( *"), coq)


def main():
    group = sys.argv[sys.argv.index("--for") + 1] if "--for" in sys.argv else None
    failed, fns, sigs, texts = {}, {}, {}, {}
    P.REPO = REPO
    dsigs = P.global_checks()
    srcs = {}
    for path, where, anchor, rust, coq in WANTED:
        try:
            if (path, where) not in srcs:
                txt = P.read(path)
                srcs[(path, where)] = txt if where == "file" else P.macro_body(txt, path)
            generics, params, ret, body = L.find_fn(srcs[(path, where)], anchor, rust, path)
            selfty = "free" if where == "file" else L.selfty_of(path)
            sg = parse_sig(rust, generics, params, ret, selfty)
            sg["coq"] = coq
            fns[coq] = (path, rust, body)
            sigs[coq] = sg
        except (SystemExit, Exception) as ex:
            failed[coq] = LAST_MSG[0] if isinstance(ex, SystemExit) else repr(ex)
    # a function that calls an untranslatable function is untranslatable too: iterate to a fixpoint
    while True:
        again = False
        for path, where, anchor, rust, coq in WANTED:
            if coq in failed:
                continue
            try:
                texts[coq] = translate_one(coq, fns, sigs, dsigs)
            except (SystemExit, Exception) as ex:
                failed[coq] = LAST_MSG[0] if isinstance(ex, SystemExit) else repr(ex)
                sigs.pop(coq, None)
                again = True
        if not again:
            break
    out = list(HEADER)
    for path, where, anchor, rust, coq in WANTED:
        out.append(texts[coq] if coq not in failed else stub(path, rust, coq, failed[coq]))
    out.append("End PrintGen.")
    write("\n".join(out) + "\n")
    if failed:
        hit = [f for f in failed if group is None or f in GROUPS.get(group, [])]
        sys.stderr.write("rs2v_print: not translated (stub emitted, its tie lemma will not check): %s\n" % ", ".join(sorted(failed)))
        return 1 if hit else 0
    return 0


if __name__ == "__main__":
    try:
        rc = main()
    except SystemExit as ex:                              # a global failure: every function is a stub
        if LAST_MSG[0] == "":
            raise
        write("\n".join(HEADER + [stub(p, r, c, "(global failure) " + LAST_MSG[0]) for p, _, _, r, c in WANTED] + ["End PrintGen."]) + "\n")
        group = sys.argv[sys.argv.index("--for") + 1] if "--for" in sys.argv else None
        rc = 1 if group is None or group in GROUPS else 0
    sys.exit(rc)

#!/usr/bin/env python3
"""Rewrites section 10 of DESIGN.md (seeded changes table) from seeded/*/meta.json."""
import json, glob, os
ROOT = os.path.dirname(os.path.dirname(os.path.abspath(__file__)))
rows = []
n_total = n_quick = n_thorough = 0
for d in sorted(glob.glob(os.path.join(ROOT, "seeded", "*", "meta.json"))):
    m = json.load(open(d))
    sid = os.path.basename(os.path.dirname(d))
    det = ", ".join(m["detected_by"]) or "(run pending)"
    n_total += 1
    if m["detected_by"]:
        if "thorough" in det:
            n_thorough += 1
        else:
            n_quick += 1
    note = (" - " + m["note"]) if m.get("note") else ""
    rows.append("| %s | %s | %s | %s | %s%s |" % (sid, m["breaks_property"], m["change"].replace("|", "\\|"),
                                                 m["needs_to_manifest"].replace("|", "\\|"), det, note.replace("|", "\\|")))
sec = """## 10. Seeded changes: which checks catch which changes

Each change was written by a fresh sub-agent that saw only the property text and its own scratch worktree of `/repo`
(nothing from `/verif`), was required to compile, pass the unchanged test suite, and come with a demonstration program that
fails with the change and passes without it.  A second round asked for HARDER changes: manifesting only for the u64-digit
types, only for N >= 9, or only on value patterns that random and boundary sampling hit with probability below 2^-30.  A third
round (ids -5, -6) described a differential tester to the sub-agent (exhaustive 8/16-bit types, nine digit counts, random +
boundary values, both build modes) and asked for changes designed to EVADE it.
A fourth round (ids -7: c02-7, c03-7, c05-7, c06-7, c08-7, c09-7, c13-7, c14-7, c15-7, c17-7, c18-7, c19-7, written in the continuation session) asked for a plausible refactoring / optimisation
mistake needing a specific digit type, width, rare value pattern or two cooperating sites (Knuth add-back skipped when q_hat was
clamped; a power-of-two fast path in `overflowing_pow` whose u32 shift product wraps; a re-implemented `trailing_zeros` helper for the
float cast that forgets the digit offset; an `Add<digit>` carry loop testing MAX after the increment; `rotate_right` masking with
`BITS - 1`, wrong at non-power-of-two widths; a per-digit `is_power_of_two`; an equal-width unsigned -> signed `BTryFrom` fast path;
`from_f64` shifting by `exp as u8`; `carrying_mul` adding its carry to one digit only; a shift-for-division index in the u64 -> u8 digit
cast; a `from_be_slice` loop stopping at `N`; an off-by-one early exit in `nth_root`) - all twelve are detected by the quick tier with a concrete
input (c09-7 on the `(64,2) -> (8,17)` pair of the cast grid, c18-7 on the 264-bit configuration), and all but c02-7, c17-7 and c19-7
additionally break a source-regenerated tie (`divgen_basecase`, the loop translator's `overflowing_pow` and `is_power_of_two`,
`rs2v_float`'s pinned helper, `rs2v_glue`'s `U_rotate_right`, `xcast_I_btry_from_U`, `xcast_U_castd_I`, `gen_from_be_slice`, `nt_U_nth_root`); c19-7 sits in the float branch of the
num-traits conversions, which is hand-modelled, and is caught by the correspondence on the `(8,300)` = 2400-bit configuration.
I re-confirmed every one myself (`tools/confirm_mutant.sh`: demo on the clean tree, build with both feature sets, full
suite, demo with the change in debug and release) and then ran my checks with the patch applied to `/repo`
(`tools/seedrun.sh`, quick tier, `VERIF_SEED=7`), undoing it straight afterwards.  %d changes: %d detected by the quick
tier, %d only by the thorough tier, %d not detected.  Every detection is through a concrete failing input (the replay).

| id | property | change | needs | detected by |
|---|---|---|---|---|
%s

Observations.  (i) Almost every change is caught by the correspondence (implementation vs proved model) on a small
configuration: the generators enumerate the 8-/16-bit configurations densely and put boundary shapes (carry chains, top-digit
patterns, amounts at BITS and 2^32, radix 256, 0x60, odd N, N = 17 and 33, u64 digits with all-ones / top-bit patterns) first.
(ii) Cross-checks matter: c07-1 (cmp on odd N) is also caught by C16 through `checked_div`, c16-1 / c12-1 (decimal chunking for u64
digits) by C16's equal-width comparison, by C11 and by C12's comparison with the primitive; c10-2 by C10 and C15.  (iii) Changes
confined to one build mode (c15-1, c17-2, c20-1, c04-2: debug only) are caught because every binary is built and run with debug
assertions on and off.  (iv) Non-termination (c18-1) is caught because every run is under a time limit and the driver bisects for
the hanging case.  (v) What the first runs MISSED and what I did: c08-3 (a wrong ilog10 estimate at >= 681 bits, wrong only for
particular exponents) - the generator sampled exponents; it now enumerates every power of 2 and 10 at every configuration up to 1100
bits; c18-1 needed a u8-digit type wider than 256 bits - configuration (8,33) added; c18-3 (non-termination) took 25 minutes to
report - the harness now flushes one result per case and the driver detects a stalled case directly; c18-4 (Newton loop capped at
64 steps) - the generator now builds the longest descents (degree k around BITS/4..BITS/12, radicand of bit length m*k+1);
c10-3 / c10-4 / c15-6 need inputs of 2^30 .. 2^32 characters / bytes - out of reach of the model runner (and of any quick check);
the thorough tier now builds such inputs inside the harness and judges them against the theorem's statement.  The EVASIVE third
round found three classes I had not covered, all by choosing a digit count or width outside my configuration table rather than a
value: (a) counters / indices narrowed to `u8` that wrap at N >= 257 (c13-5/6, c11-5/6) - configuration (8,300) added to the
standard table; (b) width arithmetic narrowed to `i16`/`u16` that wraps at >= 32768 / 65536 bits (c09-5/6) - configuration
(64,1025) added to the cast / conversion grids; (c) a decimal-logarithm constant rounded the wrong way in a parsing shortcut, wrong
at 10 resp. 20 of the 1024 widths only (c10-5/6) - the thorough tier now sweeps EVERY u8-digit width 8..8192 bits for C10, C11, C14
(cargo feature `sweep`).  c12-5/6 and c15-5 of that round were caught as delivered (powers of ten and mixed 00/ff padding were
already generator patterns).  (vi) Since the translators of section 4.5 were merged, a change to a translated function ALSO breaks
a tie lemma (or stops the translator), whatever the value pattern needed to expose it: re-running the seeded changes shows both a
broken proof obligation and a concrete failing input in the report; the sub-agents' own mutation tables (tools/*_TRANSLATOR.md, about
400 behaviour-changing edits in all) record which lemma each edit breaks.  After the last translator was merged, 54 of the 92 changes were re-run on the final tree (69 check runs, all detected again with a concrete
input; of the 62 reports written after the driver started recording it, 38 also name the tie lemma or the translator message that breaks).  What remains tied by sampling alone: derived `Hash`, the float branches of the num-traits
conversions, a few trait wrappers (`PartialOrd`, `FromStr`), and the modelled primitives of the trusted base.
""" % (n_total, n_quick, n_thorough, n_total - n_quick - n_thorough, "\n".join(rows))
p = os.path.join(ROOT, "DESIGN.md")
s = open(p).read()
i = s.index("## 10. Seeded changes")
j = s.index("## Appendix A")
k = s.rfind("---------------------------------------------------------------------------", 0, j)
s = s[:i] + sec + "\n" + s[k:]
open(p, "w").write(s)
print(n_total, n_quick, n_thorough)

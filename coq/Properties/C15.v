(* Properties/C15.v — "Byte-slice decoding and endianness helpers denote the right value".
   All statements: for ALL digit widths w that are a positive multiple of 8 (width_ok), ALL digit
   counts n (signed decoding: n >= 1), ALL byte lists with bytes in [0,256) (bytes_ok) of ANY length.
   Vocabulary (Proofs/Endian.v): be_value = Horner base 256, most significant byte first;
   le_value bs = be_value (rev bs); be_signed_value = two's complement reading with the sign taken
   from the first (most significant) byte; le_signed_value bs = be_signed_value (rev bs).
   Target: the model transcribes the cfg(target_endian = "little") branches (x86-64). *)
From Bnum Require Import Base Prim.
From Bnum.Model Require Import Core Shift Bits Endian.
From Bnum.Proofs Require Import Endian.

(* ---------- from_be_slice / from_le_slice, unsigned ---------- *)

Theorem C15_U_from_be_slice : forall w n bs, width_ok w -> bytes_ok bs ->
  U_from_be_slice w n bs =
  if be_value bs <? Mod w n then Some (digits_of w n (be_value bs)) else None.
Proof. exact U_from_be_slice_ok. Qed.
Print Assumptions C15_U_from_be_slice.

Theorem C15_U_from_le_slice : forall w n bs, width_ok w -> bytes_ok bs ->
  U_from_le_slice w n bs =
  if le_value bs <? Mod w n then Some (digits_of w n (le_value bs)) else None.
Proof. exact U_from_le_slice_ok. Qed.
Print Assumptions C15_U_from_le_slice.

Theorem C15_U_from_be_slice_denotes : forall w n bs, width_ok w -> bytes_ok bs ->
  match U_from_be_slice w n bs with
  | Some r => wf w n r /\ uval w r = be_value bs
  | None => Mod w n <= be_value bs
  end.
Proof. exact U_from_be_slice_denotes. Qed.
Print Assumptions C15_U_from_be_slice_denotes.

Theorem C15_U_from_le_slice_denotes : forall w n bs, width_ok w -> bytes_ok bs ->
  match U_from_le_slice w n bs with
  | Some r => wf w n r /\ uval w r = le_value bs
  | None => Mod w n <= le_value bs
  end.
Proof. exact U_from_le_slice_denotes. Qed.
Print Assumptions C15_U_from_le_slice_denotes.

(* ---------- from_be_slice / from_le_slice, signed ---------- *)

Theorem C15_I_from_be_slice : forall w n bs, width_ok w -> (1 <= n)%nat -> bytes_ok bs ->
  I_from_be_slice w n bs =
  if inS (Mod w n) (be_signed_value bs)
  then Some (digits_of w n (be_signed_value bs mod Mod w n)) else None.
Proof. exact I_from_be_slice_ok. Qed.
Print Assumptions C15_I_from_be_slice.

Theorem C15_I_from_le_slice : forall w n bs, width_ok w -> (1 <= n)%nat -> bytes_ok bs ->
  I_from_le_slice w n bs =
  if inS (Mod w n) (le_signed_value bs)
  then Some (digits_of w n (le_signed_value bs mod Mod w n)) else None.
Proof. exact I_from_le_slice_ok. Qed.
Print Assumptions C15_I_from_le_slice.

Theorem C15_I_from_be_slice_denotes : forall w n bs, width_ok w -> (1 <= n)%nat -> bytes_ok bs ->
  match I_from_be_slice w n bs with
  | Some r => wf w n r /\ sval w r = be_signed_value bs
  | None => ~ (- (Mod w n / 2) <= be_signed_value bs < Mod w n / 2)
  end.
Proof. exact I_from_be_slice_denotes. Qed.
Print Assumptions C15_I_from_be_slice_denotes.

Theorem C15_I_from_le_slice_denotes : forall w n bs, width_ok w -> (1 <= n)%nat -> bytes_ok bs ->
  match I_from_le_slice w n bs with
  | Some r => wf w n r /\ sval w r = le_signed_value bs
  | None => ~ (- (Mod w n / 2) <= le_signed_value bs < Mod w n / 2)
  end.
Proof. exact I_from_le_slice_denotes. Qed.
Print Assumptions C15_I_from_le_slice_denotes.

(* ---------- empty slice, padding, le = be on the mirrored slice ---------- *)

Theorem C15_from_slice_empty : forall w n, width_ok w -> (1 <= n)%nat ->
  U_from_be_slice w n [] = Some (ZERO n) /\ U_from_le_slice w n [] = Some (ZERO n) /\
  I_from_be_slice w n [] = Some (ZERO n) /\ I_from_le_slice w n [] = Some (ZERO n).
Proof. exact from_slice_empty. Qed.
Print Assumptions C15_from_slice_empty.

Theorem C15_U_zero_padding : forall w n k bs, width_ok w -> bytes_ok bs ->
  U_from_be_slice w n (repeat 0 k ++ bs) = U_from_be_slice w n bs.
Proof. exact U_from_be_slice_zero_pad. Qed.
Print Assumptions C15_U_zero_padding.

Theorem C15_I_sign_padding : forall w n k b bs, width_ok w -> (1 <= n)%nat -> bytes_ok (b :: bs) ->
  I_from_be_slice w n (repeat (if 128 <=? b then 255 else 0) k ++ b :: bs) = I_from_be_slice w n (b :: bs).
Proof. exact I_from_be_slice_sign_pad. Qed.
Print Assumptions C15_I_sign_padding.

Theorem C15_le_is_be_mirrored : forall w n bs, width_ok w ->
  U_from_le_slice w n bs = U_from_be_slice w n (rev bs) /\
  I_from_le_slice w n bs = I_from_be_slice w n (rev bs).
Proof. exact from_le_slice_is_be_on_rev. Qed.
Print Assumptions C15_le_is_be_mirrored.

(* ---------- to_be / from_be / to_le / from_le (little-endian target) ---------- *)

Theorem C15_to_be_from_be : forall w n a, width_ok w -> wf w n a ->
  U_to_be w a = swap_bytes w a /\ U_from_be w a = swap_bytes w a /\
  U_from_be w (U_to_be w a) = a /\ U_to_be w (U_from_be w a) = a /\
  wf w n (U_to_be w a) /\
  U_to_le_bytes w (U_to_be w a) = rev (U_to_le_bytes w a) /\
  be_value (U_to_le_bytes w (U_to_be w a)) = uval w a /\
  I_to_be w a = swap_bytes w a /\ I_from_be w a = swap_bytes w a /\
  I_from_be w (I_to_be w a) = a /\ I_to_be w (I_from_be w a) = a.
Proof. exact to_be_from_be_spec. Qed.
Print Assumptions C15_to_be_from_be.

Theorem C15_to_le_from_le : forall a : list Z,
  U_to_le a = a /\ U_from_le a = a /\ I_to_le a = a /\ I_from_le a = a.
Proof. exact to_le_from_le_spec. Qed.
Print Assumptions C15_to_le_from_le.

Theorem C15_swap_bytes_involutive : forall w n a, width_ok w -> wf w n a -> swap_bytes w (swap_bytes w a) = a.
Proof. exact swap_bytes_involutive. Qed.
Print Assumptions C15_swap_bytes_involutive.

(* ---------- nightly: to_{be,le,ne}_bytes / from_{be,le,ne}_bytes ---------- *)

Theorem C15_bytes_roundtrip : forall w n a, width_ok w -> wf w n a ->
  U_from_le_bytes w n (U_to_le_bytes w a) = a /\
  U_from_be_bytes w n (U_to_be_bytes w a) = a /\
  U_from_ne_bytes w n (U_to_ne_bytes w a) = a /\
  I_from_le_bytes w n (I_to_le_bytes w a) = a /\
  I_from_be_bytes w n (I_to_be_bytes w a) = a /\
  I_from_ne_bytes w n (I_to_ne_bytes w a) = a.
Proof. exact bytes_roundtrip. Qed.
Print Assumptions C15_bytes_roundtrip.

Theorem C15_bytes_roundtrip_inv : forall w n bs, width_ok w -> bytes_ok bs -> length bs = (n * dbytes w)%nat ->
  U_to_le_bytes w (U_from_le_bytes w n bs) = bs /\
  U_to_be_bytes w (U_from_be_bytes w n bs) = bs /\
  U_to_ne_bytes w (U_from_ne_bytes w n bs) = bs /\
  wf w n (U_from_le_bytes w n bs) /\ wf w n (U_from_be_bytes w n bs) /\
  uval w (U_from_le_bytes w n bs) = le_value bs /\ uval w (U_from_be_bytes w n bs) = be_value bs.
Proof. exact bytes_roundtrip_inv. Qed.
Print Assumptions C15_bytes_roundtrip_inv.

Theorem C15_bytes_denote : forall w n a, width_ok w -> (1 <= n)%nat -> wf w n a ->
  length (U_to_le_bytes w a) = (n * dbytes w)%nat /\ bytes_ok (U_to_le_bytes w a) /\
  U_to_be_bytes w a = rev (U_to_le_bytes w a) /\ U_to_ne_bytes w a = U_to_le_bytes w a /\
  le_value (U_to_le_bytes w a) = uval w a /\ be_value (U_to_be_bytes w a) = uval w a /\
  le_signed_value (I_to_le_bytes w a) = sval w a /\ be_signed_value (I_to_be_bytes w a) = sval w a.
Proof. exact bytes_denote. Qed.
Print Assumptions C15_bytes_denote.

(* ---------- the hypotheses are satisfiable; concrete instances ---------- *)

Example width_ok_8 : width_ok 8. Proof. split; [lia | reflexivity]. Qed.
Example width_ok_16 : width_ok 16. Proof. split; [lia | reflexivity]. Qed.
Example width_ok_32 : width_ok 32. Proof. split; [lia | reflexivity]. Qed.
Example width_ok_64 : width_ok 64. Proof. split; [lia | reflexivity]. Qed.
Example width_ok_24 : width_ok 24. Proof. split; [lia | reflexivity]. Qed.
Example bytes_ok_ex : bytes_ok [0; 1; 127; 128; 255].
Proof. repeat constructor; unfold byte_ok; lia. Qed.
Example wf_ex : wf 16 2 [0x1234; 0xabcd].
Proof. apply wfb_wf. reflexivity. Qed.

(* 0x00 00 01 02 03 04 as a 32-bit number in two 16-bit digits; one more non-zero byte overflows *)
Example ex_u_be : U_from_be_slice 16 2 [0; 0; 1; 2; 3; 4] = Some [0x0304; 0x0102].
Proof. reflexivity. Qed.
Example ex_u_be_none : U_from_be_slice 16 2 [1; 1; 2; 3; 4] = None.
Proof. reflexivity. Qed.
Example ex_u_le_short : U_from_le_slice 32 1 [0xaa; 0xbb; 0xcc] = Some [0xccbbaa].
Proof. reflexivity. Qed.
(* sign extension of a short negative slice; sign padding accepted only if it agrees with the top retained bit *)
Example ex_i_be_short : I_from_be_slice 16 2 [0x80] = Some [0xff80; 0xffff].
Proof. reflexivity. Qed.
Example ex_i_be_pad : I_from_be_slice 8 1 [255; 255; 128] = Some [128].
Proof. reflexivity. Qed.
Example ex_i_be_pad_bad : I_from_be_slice 8 1 [255; 255; 127] = None.
Proof. reflexivity. Qed.
Example ex_i_be_zero_pad_bad : I_from_be_slice 8 1 [0; 128] = None.
Proof. reflexivity. Qed.
Example ex_i_le : I_from_le_slice 16 1 [0xfe; 0xff; 0xff] = Some [0xfffe].
Proof. reflexivity. Qed.
Example ex_to_be : U_to_be 16 [0x1234; 0xabcd] = [0xcdab; 0x3412].
Proof. reflexivity. Qed.
Example ex_to_le_bytes : U_to_le_bytes 16 [0x1234; 0xabcd] = [0x34; 0x12; 0xcd; 0xab].
Proof. reflexivity. Qed.
Example ex_to_be_bytes : U_to_be_bytes 16 [0x1234; 0xabcd] = [0xab; 0xcd; 0x12; 0x34].
Proof. reflexivity. Qed.
Example ex_from_be_bytes : U_from_be_bytes 16 2 [0xab; 0xcd; 0x12; 0x34] = [0x1234; 0xabcd].
Proof. reflexivity. Qed.

(* ---------- the Rust source itself: src/buint/endian.rs and src/bint/endian.rs, translated to Gallina on every run ---------- *)
(* Generated/EndianGen.v is regenerated from /repo/src by tools/rs2v_endian.py (prebuild hook of gen/c15.py); every function of it
   equals the hand-written model the theorems above are about: for every digit of 2^bs bytes (w = 8 * 2^bs; Rust: bs = 0..3),
   every digit count n (signed slices: n >= 1), every byte slice / value / byte array; `fuel` is the explicit iteration budget of
   the generated loops (NoFuel excluded: it only has to cover the longest loop).  tools/ENDIAN_TRANSLATOR.md. *)
From Bnum.Model Require Import Imp.
From Bnum.Generated Require Import EndianGen.
From Bnum.Proofs Require Import EndianGenTie.

Theorem C15_endian_rs_matches_model : forall w bs (n : nat) fuel, w = 8 * 2 ^ Z.of_nat bs -> (dbytes w <= fuel)%nat ->
  (* to_be / from_be / to_le / from_le, little-endian target *)
  (forall x, EndianGen.from_be w (Z.of_nat n) fuel x = Done (U_from_be w x)) /\
  (forall x, EndianGen.from_le w (Z.of_nat n) fuel x = Done (U_from_le x)) /\
  (forall x, EndianGen.to_be w (Z.of_nat n) fuel x = Done (U_to_be w x)) /\
  (forall x, EndianGen.to_le w (Z.of_nat n) fuel x = Done (U_to_le x)) /\
  (forall x, EndianGen.I_from_be w (Z.of_nat n) fuel x = Done (I_from_be w x)) /\
  (forall x, EndianGen.I_from_le w (Z.of_nat n) fuel x = Done (I_from_le x)) /\
  (forall x, EndianGen.I_to_be w (Z.of_nat n) fuel x = Done (I_to_be w x)) /\
  (forall x, EndianGen.I_to_le w (Z.of_nat n) fuel x = Done (I_to_le x)) /\
  (* from_be_slice / from_le_slice: any slice no longer than the budget *)
  (forall slice, (length slice <= fuel)%nat ->
     EndianGen.from_be_slice w (Z.of_nat n) fuel slice = Done (U_from_be_slice w n slice) /\
     EndianGen.from_le_slice w (Z.of_nat n) fuel slice = Done (U_from_le_slice w n slice)) /\
  (forall slice, (0 < n)%nat -> (length slice <= fuel)%nat ->
     EndianGen.I_from_be_slice w (Z.of_nat n) fuel slice = Done (I_from_be_slice w n slice) /\
     EndianGen.I_from_le_slice w (Z.of_nat n) fuel slice = Done (I_from_le_slice w n slice)) /\
  (* nightly: to_*_bytes on a value of n digits, from_*_bytes on an array of n * BYTES bytes *)
  (forall x, length x = n -> (n <= fuel)%nat ->
     EndianGen.to_be_bytes w (Z.of_nat n) fuel x = Done (U_to_be_bytes w x) /\
     EndianGen.to_le_bytes w (Z.of_nat n) fuel x = Done (U_to_le_bytes w x) /\
     EndianGen.to_ne_bytes w (Z.of_nat n) fuel x = Done (U_to_ne_bytes w x) /\
     EndianGen.I_to_be_bytes w (Z.of_nat n) fuel x = Done (I_to_be_bytes w x) /\
     EndianGen.I_to_le_bytes w (Z.of_nat n) fuel x = Done (I_to_le_bytes w x) /\
     EndianGen.I_to_ne_bytes w (Z.of_nat n) fuel x = Done (I_to_ne_bytes w x)) /\
  (forall b, length b = (n * dbytes w)%nat -> (n <= fuel)%nat ->
     EndianGen.from_be_bytes w (Z.of_nat n) fuel b = Done (U_from_be_bytes w n b) /\
     EndianGen.from_le_bytes w (Z.of_nat n) fuel b = Done (U_from_le_bytes w n b) /\
     EndianGen.from_ne_bytes w (Z.of_nat n) fuel b = Done (U_from_ne_bytes w n b) /\
     EndianGen.I_from_be_bytes w (Z.of_nat n) fuel b = Done (I_from_be_bytes w n b) /\
     EndianGen.I_from_le_bytes w (Z.of_nat n) fuel b = Done (I_from_le_bytes w n b) /\
     EndianGen.I_from_ne_bytes w (Z.of_nat n) fuel b = Done (I_from_ne_bytes w n b)).
Proof. exact endian_gen_match_model. Qed.
Print Assumptions C15_endian_rs_matches_model.

Example byte_width_ex : (64 = 8 * 2 ^ Z.of_nat 3) /\ (dbytes 64 <= 8)%nat.
Proof. split; [reflexivity | cbv; lia]. Qed.

(* Properties/C18.v — C18: the num_traits / num_integer implementations honour the trait contracts.
   Every theorem is for ALL digit widths w > 0 (roots: widths for which `to_u128` is exact, i.e. w | 128 or
   w > 128, and w >= 2 for the digit division by 3), ALL digit counts n, ALL well-formed operands, both build
   modes.  The theorems are premise-free: the value-level contracts of the inherent models of other files
   (Core, Shift, AddSub, Mul, Div, Bits, Pow) that the proofs use (records deps_* and `_spec`s of
   Proofs/NumTraitsDeps.v) are discharged in Proofs/DischargeNumTraits.v by the theorems of their owners. *)
From Bnum Require Import Base Prim.
From Bnum.Model Require Import Digit Core Shift AddSub Mul Div Bits Pow NumTraits.
From Bnum.Proofs Require Import NumTraitsZ NumTraitsDeps NumTraitsDepsCheck NumTraits DischargeNumTraits.

(* ---------- div_floor / mod_floor / div_rem ---------- *)

(* BInt: floor pair (the remainder has the divisor's sign), div_rem truncates *)
Theorem C18_floor_ok : forall dbg w n a b, 0 < w -> (0 < n)%nat -> wf w n a -> wf w n b ->
  sval w b <> 0 -> ~ (sval w a = - (Mod w n / 2) /\ sval w b = -1) ->
  (exists q, TI_div_floor dbg w a b = Ret q /\ wf w n q /\ sval w q = sval w a / sval w b) /\
  (exists r, TI_mod_floor dbg w a b = Ret r /\ wf w n r /\ sval w r = sval w a mod sval w b) /\
  (exists q r, TI_div_rem dbg w a b = Ret (q, r) /\ wf w n q /\ wf w n r /\
               sval w q = Z.quot (sval w a) (sval w b) /\ sval w r = Z.rem (sval w a) (sval w b)) /\
  TI_is_multiple_of dbg w a b = Ret (sval w a mod sval w b =? 0).
Proof. exact (TI_floor_ok deps_floor_holds). Qed.
Print Assumptions C18_floor_ok.

Theorem C18_floor_panic : forall dbg w n a b, 0 < w -> (0 < n)%nat -> wf w n a -> wf w n b ->
  sval w b = 0 \/ (sval w a = - (Mod w n / 2) /\ sval w b = -1) ->
  TI_div_floor dbg w a b = Panic /\ TI_mod_floor dbg w a b = Panic /\ TI_div_rem dbg w a b = Panic /\
  TI_is_multiple_of dbg w a b = Panic.
Proof. exact (TI_floor_panic deps_floor_holds). Qed.
Print Assumptions C18_floor_panic.

Theorem C18_floor_unsigned_ok : forall w n a b, 0 < w -> wf w n a -> wf w n b -> uval w b <> 0 ->
  (exists q, TU_div_floor w a b = Ret q /\ wf w n q /\ uval w q = uval w a / uval w b) /\
  (exists r, TU_mod_floor w a b = Ret r /\ wf w n r /\ uval w r = uval w a mod uval w b) /\
  (exists q r, TU_div_rem w a b = Ret (q, r) /\ wf w n q /\ wf w n r /\
               uval w q = Z.quot (uval w a) (uval w b) /\ uval w r = Z.rem (uval w a) (uval w b)) /\
  TU_is_multiple_of w a b = Ret (uval w a mod uval w b =? 0).
Proof. exact (TU_floor_ok deps_udiv_holds). Qed.
Print Assumptions C18_floor_unsigned_ok.

Theorem C18_floor_unsigned_panic : forall w n a b, 0 < w -> wf w n a -> wf w n b -> uval w b = 0 ->
  TU_div_floor w a b = Panic /\ TU_mod_floor w a b = Panic /\ TU_div_rem w a b = Panic /\
  TU_is_multiple_of w a b = Panic.
Proof. exact TU_floor_panic. Qed.
Print Assumptions C18_floor_unsigned_panic.

(* ---------- gcd / lcm ---------- *)

(* the binary gcd ends within its fuel 2*BITS+2 and denotes Z.gcd, in both build modes *)
Theorem C18_gcd_ok : forall dbg w n a b, 0 < w -> wf w n a -> wf w n b ->
  exists r, TU_gcd dbg w a b = Some (Ret r) /\ wf w n r /\ uval w r = Z.gcd (uval w a) (uval w b).
Proof. exact (TU_gcd_ok deps_gcd_holds). Qed.
Print Assumptions C18_gcd_ok.

Theorem C18_gcd_signed_ok : forall dbg w n a b, 0 < w -> (0 < n)%nat ->
  wf w n a -> wf w n b -> Z.gcd (sval w a) (sval w b) < Mod w n / 2 ->
  exists r, TI_gcd dbg w a b = Some (Ret r) /\ wf w n r /\ sval w r = Z.gcd (sval w a) (sval w b).
Proof. exact (TI_gcd_ok deps_gcd_holds deps_signed_holds). Qed.
Print Assumptions C18_gcd_signed_ok.

Theorem C18_lcm_ok : forall dbg w n a b, 0 < w -> wf w n a -> wf w n b ->
  Z.lcm (uval w a) (uval w b) < Mod w n ->
  exists r, TU_lcm dbg w a b = Some (Ret r) /\ wf w n r /\ uval w r = Z.lcm (uval w a) (uval w b).
Proof. exact (TU_lcm_ok deps_gcd_holds deps_udiv_holds U_mul_spec_holds). Qed.
Print Assumptions C18_lcm_ok.

Theorem C18_lcm_signed_ok : forall dbg w n a b,
  0 < w -> (0 < n)%nat -> wf w n a -> wf w n b -> Z.lcm (sval w a) (sval w b) < Mod w n / 2 ->
  exists r, TI_lcm dbg w a b = Some (Ret r) /\ wf w n r /\ sval w r = Z.lcm (sval w a) (sval w b).
Proof. exact (TI_lcm_ok deps_gcd_holds deps_signed_holds deps_floor_holds I_mul_spec_holds). Qed.
Print Assumptions C18_lcm_signed_ok.

Theorem C18_parity_ok : forall w n a, 0 < w -> (0 < n)%nat -> wf w n a ->
  (TU_is_even a = Z.even (uval w a) /\ TU_is_odd a = Z.odd (uval w a)) /\
  (TI_is_even a = Z.even (sval w a) /\ TI_is_odd a = Z.odd (sval w a)).
Proof. intros w n a Hw Hn Ha. exact (conj (TU_parity_ok w n a Hw Hn Ha) (TI_parity_ok w n a Hw Hn Ha)). Qed.
Print Assumptions C18_parity_ok.

(* ---------- roots ---------- *)

(* the specification of the primitive's root used by the `to_u128` shortcut: zroot is the floor root *)
Theorem C18_zroot_spec : forall k v, 1 <= k -> 0 <= v ->
  0 <= zroot k v /\ zroot k v ^ k <= v < (zroot k v + 1) ^ k.
Proof. exact zroot_spec. Qed.
Print Assumptions C18_zroot_spec.

(* `to_u128` is exact for the digit widths of the crate *)
Theorem C18_to_u128_ok : forall w n a, 0 < w -> u128_width_ok w -> (0 < n)%nat -> wf w n a ->
  U_to_u128 w a = Ret (if uval w a <? 2 ^ 128 then Some (uval w a) else None).
Proof. exact U_to_u128_spec. Qed.
Print Assumptions C18_to_u128_ok.

(* Newton lemma: integer AM-GM, the iteration never drops below the floor root and strictly
   decreases above it *)
Theorem C18_am_gm : forall k s r, 1 <= k -> 0 <= s -> 0 <= r -> k * r * s ^ (k - 1) <= (k - 1) * s ^ k + r ^ k.
Proof. exact am_gm. Qed.
Print Assumptions C18_am_gm.

Theorem C18_newton_ge_root : forall k A s R, 1 <= k -> 1 <= s -> 0 <= R -> R ^ k <= A ->
  R <= ((k - 1) * s + A / s ^ (k - 1)) / k.
Proof. exact newton_ge_root. Qed.
Print Assumptions C18_newton_ge_root.

Theorem C18_newton_decreases : forall k A s R, 1 <= k -> 0 <= R -> 0 <= A -> A < (R + 1) ^ k -> R < s ->
  ((k - 1) * s + A / s ^ (k - 1)) / k < s.
Proof. exact newton_lt. Qed.
Print Assumptions C18_newton_decreases.

Theorem C18_sqrt_ok : forall dbg w n a, 0 < w -> u128_width_ok w -> (0 < n)%nat -> wf w n a ->
  exists r, TU_sqrt dbg w a = Some (Ret r) /\ wf w n r /\ uval w r ^ 2 <= uval w a < (uval w r + 1) ^ 2.
Proof. exact (TU_sqrt_contract deps_roots_holds). Qed.
Print Assumptions C18_sqrt_ok.

Theorem C18_cbrt_ok : forall dbg w n a, 0 < w -> 3 < B w -> u128_width_ok w -> (0 < n)%nat ->
  wf w n a ->
  exists r, TU_cbrt dbg w a = Some (Ret r) /\ wf w n r /\ uval w r ^ 3 <= uval w a < (uval w r + 1) ^ 3.
Proof. exact (TU_cbrt_contract deps_roots_holds). Qed.
Print Assumptions C18_cbrt_ok.

(* every degree 1..u32::MAX (the full statement, including the general-k Newton iteration);
   degree 0 panics; the fuel of the two loops of `fixpoint` suffices (never None) *)
Theorem C18_nth_root_ok : forall dbg w n a k, 0 < w -> 3 < B w -> u128_width_ok w -> (0 < n)%nat ->
  wf w n a -> 0 <= k < 2 ^ 32 ->
  if k =? 0 then TU_nth_root dbg w a k = Some Panic
  else exists r, TU_nth_root dbg w a k = Some (Ret r) /\ wf w n r /\
                 uval w r ^ k <= uval w a < (uval w r + 1) ^ k.
Proof. exact (TU_nth_root_contract deps_roots_holds). Qed.
Print Assumptions C18_nth_root_ok.

Theorem C18_sqrt_signed_ok : forall dbg w n a,
  0 < w -> u128_width_ok w -> (0 < n)%nat -> wf w n a ->
  if sval w a <? 0 then TI_sqrt dbg w a = Some Panic
  else exists r, TI_sqrt dbg w a = Some (Ret r) /\ wf w n r /\ 0 <= sval w r /\
                 sval w r ^ 2 <= sval w a < (sval w r + 1) ^ 2.
Proof. exact (TI_sqrt_contract deps_roots_holds deps_signed_holds). Qed.
Print Assumptions C18_sqrt_signed_ok.

Theorem C18_cbrt_signed_ok : forall dbg w n a,
  0 < w -> 3 < B w -> u128_width_ok w -> (0 < n)%nat -> wf w n a ->
  exists r, TI_cbrt dbg w a = Some (Ret r) /\ wf w n r /\
         Z.abs (sval w r) ^ 3 <= Z.abs (sval w a) < (Z.abs (sval w r) + 1) ^ 3 /\
         (sval w r = 0 \/ Z.sgn (sval w r) = Z.sgn (sval w a)).
Proof. exact (TI_cbrt_contract deps_roots_holds deps_signed_holds). Qed.
Print Assumptions C18_cbrt_signed_ok.

(* Panic <-> k = 0 or (negative radicand and even degree); otherwise the root of largest magnitude with
   |r^k| <= |x|, sign preserved for odd k *)
Theorem C18_nth_root_signed_ok : forall dbg w n a k,
  0 < w -> 3 < B w -> u128_width_ok w -> (0 < n)%nat -> wf w n a -> 0 <= k < 2 ^ 32 ->
  if (k =? 0) || ((sval w a <? 0) && Z.even k) then TI_nth_root dbg w a k = Some Panic
  else exists r, TI_nth_root dbg w a k = Some (Ret r) /\ wf w n r /\
         Z.abs (sval w r) ^ k <= Z.abs (sval w a) < (Z.abs (sval w r) + 1) ^ k /\
         (sval w r = 0 \/ Z.sgn (sval w r) = Z.sgn (sval w a)).
Proof. exact (TI_nth_root_contract deps_roots_holds deps_signed_holds). Qed.
Print Assumptions C18_nth_root_signed_ok.

(* ---------- Signed ---------- *)
Theorem C18_signum_ok : forall w n a, 0 < w -> (0 < n)%nat -> wf w n a ->
  wf w n (TI_signum w a) /\ sval w (TI_signum w a) = Z.sgn (sval w a).
Proof. exact (TI_signum_ok is_negative_spec_holds). Qed.
Print Assumptions C18_signum_ok.

Theorem C18_abs_sub_ok : forall dbg w n a b, 0 < w -> (0 < n)%nat ->
  wf w n a -> wf w n b -> sval w a - sval w b < Mod w n / 2 ->
  exists r, TI_abs_sub dbg w a b = Ret r /\ wf w n r /\ sval w r = Z.max 0 (sval w a - sval w b).
Proof. exact (TI_abs_sub_ok icmp_spec_holds I_sub_spec_holds). Qed.
Print Assumptions C18_abs_sub_ok.

(* ---------- forwarders = inherent models ---------- *)
Theorem C18_forwarders :
  (TU_checked_add = U_checked_add /\ TU_checked_sub = U_checked_sub /\ TU_checked_mul = U_checked_mul /\
   TU_checked_div = U_checked_div /\ TU_checked_rem = U_checked_rem /\ TU_checked_neg = U_checked_neg /\
   TU_checked_shl = U_checked_shl /\ TU_checked_shr = U_checked_shr /\
   TU_saturating_add = U_saturating_add /\ TU_saturating_sub = U_saturating_sub /\ TU_saturating_mul = U_saturating_mul /\
   TU_wrapping_add = U_wrapping_add /\ TU_wrapping_sub = U_wrapping_sub /\ TU_wrapping_mul = U_wrapping_mul /\
   TU_wrapping_neg = U_wrapping_neg /\ TU_wrapping_shl = U_wrapping_shl /\ TU_wrapping_shr = U_wrapping_shr /\
   TU_overflowing_add = U_overflowing_add /\ TU_overflowing_sub = U_overflowing_sub /\
   TU_div_euclid = U_div_euclid /\ TU_rem_euclid = U_rem_euclid /\
   TU_checked_div_euclid = U_checked_div_euclid /\ TU_checked_rem_euclid = U_checked_rem_euclid /\
   TU_pow = U_pow /\
   (forall dbg w a b c, TU_mul_add dbg w a b c = obind (U_mul dbg w a b) (fun p => U_add dbg w p c)) /\
   (forall n, TU_min_value n = ZERO n) /\ (forall w n, TU_max_value w n = UMAX w n) /\
   TU_div_floor = U_div /\ TU_mod_floor = U_rem /\ TU_div_rem = U_div_rem /\
   (forall dbg w a z, TU_signed_shl dbg w a z = U_shl dbg w a z) /\
   (forall dbg w a z, TU_signed_shr dbg w a z = I_shr dbg w a z) /\
   (forall dbg w a z, TU_unsigned_shl dbg w a z = U_shl dbg w a z) /\
   (forall dbg w a z, TU_unsigned_shr dbg w a z = U_shr dbg w a z)) /\
  (TI_checked_add = I_checked_add /\ TI_checked_sub = I_checked_sub /\ TI_checked_mul = I_checked_mul /\
   TI_checked_div = I_checked_div /\ TI_checked_rem = I_checked_rem /\ TI_checked_neg = I_checked_neg /\
   TI_checked_shl = I_checked_shl /\ TI_checked_shr = I_checked_shr /\
   TI_saturating_add = I_saturating_add /\ TI_saturating_sub = I_saturating_sub /\ TI_saturating_mul = I_saturating_mul /\
   TI_wrapping_add = I_wrapping_add /\ TI_wrapping_sub = I_wrapping_sub /\ TI_wrapping_mul = I_wrapping_mul /\
   TI_wrapping_neg = I_wrapping_neg /\ TI_wrapping_shl = I_wrapping_shl /\ TI_wrapping_shr = I_wrapping_shr /\
   TI_overflowing_add = I_overflowing_add /\ TI_overflowing_sub = I_overflowing_sub /\
   TI_div_euclid = I_div_euclid /\ TI_rem_euclid = I_rem_euclid /\
   TI_checked_div_euclid = I_checked_div_euclid /\ TI_checked_rem_euclid = I_checked_rem_euclid /\
   TI_pow = I_pow /\
   (forall dbg w a b c, TI_mul_add dbg w a b c = obind (I_mul dbg w a b) (fun p => I_add dbg w p c)) /\
   (forall w n, TI_min_value w n = IMIN w n) /\ (forall w n, TI_max_value w n = IMAX w n) /\
   TI_abs = I_abs /\ TI_signum = signum /\ TI_is_positive = is_positive /\ TI_is_negative = is_negative /\
   (forall dbg w a z, TI_signed_shl dbg w a z = I_shl dbg w a z) /\
   (forall dbg w a z, TI_signed_shr dbg w a z = I_shr dbg w a z) /\
   (forall dbg w a z, TI_unsigned_shl dbg w a z = I_shl dbg w a z) /\
   (forall dbg w a z, TI_unsigned_shr dbg w a z = U_shr dbg w a z)) /\
  (T_zero = ZERO /\ T_one = ONE /\ T_is_zero = is_zero /\ T_is_one = is_one /\
   T_count_ones = count_ones /\ T_count_zeros = count_zeros /\ T_leading_zeros = leading_zeros /\
   T_trailing_zeros = trailing_zeros /\ T_leading_ones = leading_ones /\ T_trailing_ones = trailing_ones /\
   T_rotate_left = rotate_left /\ T_rotate_right = rotate_right /\ T_swap_bytes = swap_bytes /\
   T_reverse_bits = reverse_bits /\ T_from_be = swap_bytes /\ T_to_be = swap_bytes /\
   (forall w a, T_from_le w a = a) /\ (forall w a, T_to_le w a = a)).
Proof. exact (conj forwarders_U (conj forwarders_I forwarders_common)). Qed.
Print Assumptions C18_forwarders.

(* ---------- the hypotheses are satisfiable; the repaired defects on their witnesses ---------- *)
Example C18_widths_ok : u128_width_ok 8 /\ u128_width_ok 16 /\ u128_width_ok 32 /\ u128_width_ok 64 /\
  3 < B 8 /\ 3 < B 16 /\ 3 < B 32 /\ 3 < B 64.
Proof. unfold u128_width_ok. repeat split; try (right; reflexivity); reflexivity. Qed.

Example C18_wf_example : wf 64 3 [0; 0; 1] /\ uval 64 [0; 0; 1] = 2 ^ 128 /\ (0 < 3)%nat.
Proof. split; [apply wfb_wf; reflexivity|]. split; [reflexivity|lia]. Qed.

(* Integer::div_floor(-7, 2) = -4 and mod_floor = 1 (the pre-fix code returned -3 and -1), 8-bit *)
Example C18_div_floor_witness :
  TI_div_floor true 8 [249] [2] = Ret [252] /\ TI_mod_floor true 8 [249] [2] = Ret [1] /\
  sval 8 [249] = -7 /\ sval 8 [252] = -4.
Proof. vm_compute. repeat split. Qed.

(* BUint::<4>::MAX.nth_root(40) = 84 (the pre-fix code overflowed in s.pow(39)), both build modes, Newton path *)
Example C18_nth_root_witness :
  let mx := [18446744073709551615; 18446744073709551615; 18446744073709551615; 18446744073709551615] in
  TU_nth_root true 64 mx 40 = Some (Ret [84; 0; 0; 0]) /\ TU_nth_root false 64 mx 40 = Some (Ret [84; 0; 0; 0]) /\
  84 ^ 40 <= uval 64 mx < 85 ^ 40.
Proof. vm_compute. repeat split; intro H; discriminate H. Qed.

(* sqrt(2^128) = 2^64 through the Newton path *)
Example C18_sqrt_newton_witness : TU_sqrt true 64 [0; 0; 1] = Some (Ret [0; 1; 0]).
Proof. vm_compute. reflexivity. Qed.

(* the contracts of the other models (the deps_ records, now proved for all widths in DischargeNumTraits.v),
   restated as boolean checks, also hold by kernel evaluation on every operand tuple of the configurations
   (w, n) = (2,1), (2,2), (3,2), (2,3) in both build modes *)
Example C18_premises_hold_on_small_configs : deps_check_all = true.
Proof. exact deps_check_all_ok. Qed.
(* ==== glue tie, round 2 (text written by tools/mk_gluetie.py; keep at the END of the file) ==== *)
(* ---- tie to the source, second round: the non-loop functions (the num_traits forwarders of src/int/numtraits.rs: Bounded, Zero, One, Checked* / Wrapping* / Saturating* / Overflowing* (the 13 num_trait_impl! expansions included), CheckedEuclid, Euclid, Pow, MulAdd) REGENERATED from /repo/src on every run
   (Generated/Glue.v, tools/rs2v_glue.py) are the model's, function by function, for every digit width, digit count,
   build mode and operand (no well-formedness hypothesis): an edit of the source that changes what one of these
   functions computes or delegates to breaks this theorem ---- *)
From Bnum.Model Require Import Digit Core Shift AddSub Mul Div Bits Pow.
From Bnum.Model Require Ops NumTraits.
From Bnum.Generated Require Import Glue.
From Bnum.Proofs Require Import GlueTieCommon GlueTieC18.
Theorem C18_glue_rs_matches_model :
  (forall w a, Glue.U_CheckedNeg_checked_neg w a = NumTraits.TU_checked_neg a) /\
  (forall w a k, Glue.U_CheckedShl_checked_shl w a k = NumTraits.TU_checked_shl w a k) /\
  (forall w a k, Glue.U_CheckedShr_checked_shr w a k = NumTraits.TU_checked_shr w a k) /\
  (forall w a b, Glue.U_CheckedEuclid_checked_div_euclid w a b = NumTraits.TU_checked_div_euclid w a b) /\
  (forall w a b, Glue.U_CheckedEuclid_checked_rem_euclid w a b = NumTraits.TU_checked_rem_euclid w a b) /\
  (forall w a b, Glue.U_Euclid_div_euclid w a b = NumTraits.TU_div_euclid w a b) /\
  (forall w a b, Glue.U_Euclid_rem_euclid w a b = NumTraits.TU_rem_euclid w a b) /\
  (forall w a, Glue.U_WrappingNeg_wrapping_neg w a = NumTraits.TU_wrapping_neg w a) /\
  (forall w a k, Glue.U_WrappingShl_wrapping_shl w a k = NumTraits.TU_wrapping_shl w a k) /\
  (forall w a k, Glue.U_WrappingShr_wrapping_shr w a k = NumTraits.TU_wrapping_shr w a k) /\
  (forall dbg w a k, Glue.U_Pow_pow dbg w a k = NumTraits.TU_pow dbg w a k) /\
  (forall w a b, Glue.U_Saturating_saturating_add w a b = NumTraits.TU_saturating_add w a b) /\
  (forall w a b, Glue.U_Saturating_saturating_sub w a b = NumTraits.TU_saturating_sub w a b) /\
  (forall dbg w a b c, Glue.U_MulAdd_mul_add dbg w a b c = NumTraits.TU_mul_add dbg w a b c) /\
  (forall w a b, Glue.U_CheckedAdd_checked_add w a b = NumTraits.TU_checked_add w a b) /\
  (forall w a b, Glue.U_CheckedDiv_checked_div w a b = NumTraits.TU_checked_div w a b) /\
  (forall w a b, Glue.U_CheckedMul_checked_mul w a b = NumTraits.TU_checked_mul w a b) /\
  (forall w a b, Glue.U_CheckedRem_checked_rem w a b = NumTraits.TU_checked_rem w a b) /\
  (forall w a b, Glue.U_CheckedSub_checked_sub w a b = NumTraits.TU_checked_sub w a b) /\
  (forall w a b, Glue.U_SaturatingAdd_saturating_add w a b = NumTraits.TU_saturating_add w a b) /\
  (forall w a b, Glue.U_SaturatingMul_saturating_mul w a b = NumTraits.TU_saturating_mul w a b) /\
  (forall w a b, Glue.U_SaturatingSub_saturating_sub w a b = NumTraits.TU_saturating_sub w a b) /\
  (forall w a b, Glue.U_WrappingAdd_wrapping_add w a b = NumTraits.TU_wrapping_add w a b) /\
  (forall w a b, Glue.U_WrappingMul_wrapping_mul w a b = NumTraits.TU_wrapping_mul w a b) /\
  (forall w a b, Glue.U_WrappingSub_wrapping_sub w a b = NumTraits.TU_wrapping_sub w a b) /\
  (forall w a b, Glue.U_OverflowingAdd_overflowing_add w a b = NumTraits.TU_overflowing_add w a b) /\
  (forall w a b, Glue.U_OverflowingSub_overflowing_sub w a b = NumTraits.TU_overflowing_sub w a b) /\
  (forall w a, Glue.I_CheckedNeg_checked_neg w a = NumTraits.TI_checked_neg w a) /\
  (forall w a k, Glue.I_CheckedShl_checked_shl w a k = NumTraits.TI_checked_shl w a k) /\
  (forall w a k, Glue.I_CheckedShr_checked_shr w a k = NumTraits.TI_checked_shr w a k) /\
  (forall dbg w a b, Glue.I_CheckedEuclid_checked_div_euclid dbg w a b = NumTraits.TI_checked_div_euclid dbg w a b) /\
  (forall dbg w a b, Glue.I_CheckedEuclid_checked_rem_euclid dbg w a b = NumTraits.TI_checked_rem_euclid dbg w a b) /\
  (forall dbg w a b, Glue.I_Euclid_div_euclid dbg w a b = NumTraits.TI_div_euclid dbg w a b) /\
  (forall dbg w a b, Glue.I_Euclid_rem_euclid dbg w a b = NumTraits.TI_rem_euclid dbg w a b) /\
  (forall w a, Glue.I_WrappingNeg_wrapping_neg w a = NumTraits.TI_wrapping_neg w a) /\
  (forall w a k, Glue.I_WrappingShl_wrapping_shl w a k = NumTraits.TI_wrapping_shl w a k) /\
  (forall w a k, Glue.I_WrappingShr_wrapping_shr w a k = NumTraits.TI_wrapping_shr w a k) /\
  (forall dbg w a k, Glue.I_Pow_pow dbg w a k = NumTraits.TI_pow dbg w a k) /\
  (forall w a b, Glue.I_Saturating_saturating_add w a b = NumTraits.TI_saturating_add w a b) /\
  (forall w a b, Glue.I_Saturating_saturating_sub w a b = NumTraits.TI_saturating_sub w a b) /\
  (forall dbg w a b c, Glue.I_MulAdd_mul_add dbg w a b c = NumTraits.TI_mul_add dbg w a b c) /\
  (forall w a b, Glue.I_CheckedAdd_checked_add w a b = NumTraits.TI_checked_add w a b) /\
  (forall dbg w a b, Glue.I_CheckedDiv_checked_div dbg w a b = NumTraits.TI_checked_div dbg w a b) /\
  (forall w a b, Glue.I_CheckedMul_checked_mul w a b = NumTraits.TI_checked_mul w a b) /\
  (forall dbg w a b, Glue.I_CheckedRem_checked_rem dbg w a b = NumTraits.TI_checked_rem dbg w a b) /\
  (forall w a b, Glue.I_CheckedSub_checked_sub w a b = NumTraits.TI_checked_sub w a b) /\
  (forall w a b, Glue.I_SaturatingAdd_saturating_add w a b = NumTraits.TI_saturating_add w a b) /\
  (forall w a b, Glue.I_SaturatingMul_saturating_mul w a b = NumTraits.TI_saturating_mul w a b) /\
  (forall w a b, Glue.I_SaturatingSub_saturating_sub w a b = NumTraits.TI_saturating_sub w a b) /\
  (forall w a b, Glue.I_WrappingAdd_wrapping_add w a b = NumTraits.TI_wrapping_add w a b) /\
  (forall w a b, Glue.I_WrappingMul_wrapping_mul w a b = NumTraits.TI_wrapping_mul w a b) /\
  (forall w a b, Glue.I_WrappingSub_wrapping_sub w a b = NumTraits.TI_wrapping_sub w a b) /\
  (forall w a b, Glue.I_OverflowingAdd_overflowing_add w a b = NumTraits.TI_overflowing_add w a b) /\
  (forall w a b, Glue.I_OverflowingSub_overflowing_sub w a b = NumTraits.TI_overflowing_sub w a b) /\
  (forall w n, Glue.U_Bounded_min_value w n = NumTraits.TU_min_value n) /\
  (forall w n, Glue.U_Bounded_max_value w n = NumTraits.TU_max_value w n) /\
  (forall w n, Glue.I_Bounded_min_value w n = NumTraits.TI_min_value w n) /\
  (forall w n, Glue.I_Bounded_max_value w n = NumTraits.TI_max_value w n) /\
  (forall w n, Glue.U_One_one w n = NumTraits.T_one n) /\
  (forall w n, Glue.I_One_one w n = NumTraits.T_one n) /\
  (forall w n, Glue.U_Zero_zero w n = NumTraits.T_zero n) /\
  (forall w n, Glue.I_Zero_zero w n = NumTraits.T_zero n) /\
  (forall w a, Glue.U_One_is_one w a = NumTraits.T_is_one a) /\
  (forall w a, Glue.I_One_is_one w a = NumTraits.T_is_one a) /\
  (forall w a, Glue.U_Zero_is_zero w a = NumTraits.T_is_zero a) /\
  (forall w a, Glue.I_Zero_is_zero w a = NumTraits.T_is_zero a).
Proof. exact glue_numtraits_matches_model. Qed.
Print Assumptions C18_glue_rs_matches_model.

(* ---------- the num-traits / num-integer implementations WITH CODE (src/buint/numtraits.rs, src/bint/numtraits.rs):
   Integer (div_floor .. the binary gcd loop .. div_rem), the PrimInt shifts, fixpoint (higher-order), Roots (sqrt, cbrt,
   nth_root), Signed - regenerated from the source on every run (tools/rs2v_nt.py -> Generated/NtGen.v) and proved equal
   to the model functions the theorems above are about (Proofs/NtGenTie*.v).  `fuel` bounds the iterations of the
   generated loops; the model's own budgets are gcd_fuel (gcd loop) and 2^fixpoint_depth (each loop of fixpoint), and its
   `None` (budget exhausted) is excluded by C18_TU_gcd / C18_TU_sqrt .. above. ---------- *)
From Bnum.Model Require Import Imp.
From Bnum.Generated Require Import NtGen.
From Bnum.Proofs Require Import NtGenTie.

Theorem C18_nt_rs_matches_model :
  (forall w N fuel a b, NtGen.U_div_floor w N fuel a b =
     match TU_div_floor w a b with Ret r => Done r | Panic => Panicked end) /\
  (forall w N fuel a b, NtGen.U_mod_floor w N fuel a b =
     match TU_mod_floor w a b with Ret r => Done r | Panic => Panicked end) /\
  (forall dbg w N a b fuel, (gcd_fuel w (length a) <= fuel)%nat ->
     match TU_gcd dbg w a b with
     | Some (Ret r) => NtGen.U_gcd dbg w N fuel a b = Done r
     | Some Panic => NtGen.U_gcd dbg w N fuel a b = Panicked
     | None => True
     end) /\
  (forall dbg w N a b, NtGen.U_gcd dbg w N (gcd_fuel w (length a)) a b =
     match TU_gcd dbg w a b with Some (Ret r) => Done r | Some Panic => Panicked | None => NoFuel end) /\
  (forall dbg w a b fuel, (gcd_fuel w (length a) <= fuel)%nat ->
     match TU_lcm dbg w a b with
     | Some (Ret r) => NtGen.U_lcm dbg w (Z.of_nat (length a)) fuel a b = Done r
     | Some Panic => NtGen.U_lcm dbg w (Z.of_nat (length a)) fuel a b = Panicked
     | None => True
     end) /\
  (forall w N fuel a b, NtGen.U_is_multiple_of w N fuel a b =
     match TU_is_multiple_of w a b with Ret r => Done r | Panic => Panicked end) /\
  (forall w N fuel a b, NtGen.U_divides w N fuel a b =
     match TU_divides w a b with Ret r => Done r | Panic => Panicked end) /\
  (forall w N fuel a, (0 < length a)%nat -> NtGen.U_is_even w N fuel a = Done (TU_is_even a)) /\
  (forall w N fuel a, (0 < length a)%nat -> NtGen.U_is_odd w N fuel a = Done (TU_is_odd a)) /\
  (forall w N fuel a b, NtGen.U_div_rem w N fuel a b =
     match TU_div_rem w a b with Ret r => Done r | Panic => Panicked end) /\
  (forall dbg w N fuel a k, NtGen.U_signed_shl dbg w N fuel a k =
     match TU_signed_shl dbg w a k with Ret r => Done r | Panic => Panicked end) /\
  (forall dbg w N fuel a k, NtGen.U_signed_shr dbg w N fuel a k =
     match TU_signed_shr dbg w a k with Ret r => Done r | Panic => Panicked end) /\
  (forall dbg w N fuel a k, NtGen.U_unsigned_shl dbg w N fuel a k =
     match TU_unsigned_shl dbg w a k with Ret r => Done r | Panic => Panicked end) /\
  (forall dbg w N fuel a k, NtGen.U_unsigned_shr dbg w N fuel a k =
     match TU_unsigned_shr dbg w a k with Ret r => Done r | Panic => Panicked end) /\
  (forall depth w x max_bits (f : list Z -> outcome (list Z)) (f' : list Z -> res (list Z)) fuel,
     (forall s, f' s = match f s with Ret r => Done r | Panic => Panicked end) -> (2 ^ depth <= fuel)%nat ->
     match NumTraits.fixpoint depth w x max_bits f with
     | Some (Ret r) => NtGen.fixpoint w (Z.of_nat (length x)) fuel x max_bits f' = Done r
     | Some Panic => NtGen.fixpoint w (Z.of_nat (length x)) fuel x max_bits f' = Panicked
     | None => True
     end) /\
  (forall dbg w a fuel, (2 ^ fixpoint_depth w (length a) <= fuel)%nat ->
     match TU_sqrt dbg w a with
     | Some (Ret r) => NtGen.U_sqrt dbg w (Z.of_nat (length a)) fuel a = Done r
     | Some Panic => NtGen.U_sqrt dbg w (Z.of_nat (length a)) fuel a = Panicked
     | None => True
     end) /\
  (forall dbg w a fuel, (2 ^ fixpoint_depth w (length a) <= fuel)%nat ->
     match TU_cbrt dbg w a with
     | Some (Ret r) => NtGen.U_cbrt dbg w (Z.of_nat (length a)) fuel a = Done r
     | Some Panic => NtGen.U_cbrt dbg w (Z.of_nat (length a)) fuel a = Panicked
     | None => True
     end) /\
  (forall dbg w a k fuel, 0 <= k -> (2 ^ fixpoint_depth w (length a) <= fuel)%nat ->
     match TU_nth_root dbg w a k with
     | Some (Ret r) => NtGen.U_nth_root dbg w (Z.of_nat (length a)) fuel a k = Done r
     | Some Panic => NtGen.U_nth_root dbg w (Z.of_nat (length a)) fuel a k = Panicked
     | None => True
     end) /\
  (forall dbg w N fuel a, NtGen.I_abs dbg w N fuel a =
     match TI_abs dbg w a with Ret r => Done r | Panic => Panicked end) /\
  (forall dbg w fuel a b, NtGen.I_abs_sub dbg w (Z.of_nat (length a)) fuel a b =
     match TI_abs_sub dbg w a b with Ret r => Done r | Panic => Panicked end) /\
  (forall w N fuel a, NtGen.I_signum w N fuel a = Done (TI_signum w a)) /\
  (forall w N fuel a, NtGen.I_is_positive w N fuel a = Done (TI_is_positive w a)) /\
  (forall w N fuel a, NtGen.I_is_negative w N fuel a = Done (TI_is_negative w a)) /\
  (forall dbg w fuel a b, NtGen.I_div_floor dbg w (Z.of_nat (length a)) fuel a b =
     match TI_div_floor dbg w a b with Ret r => Done r | Panic => Panicked end) /\
  (forall dbg w N fuel a b, NtGen.I_mod_floor dbg w N fuel a b =
     match TI_mod_floor dbg w a b with Ret r => Done r | Panic => Panicked end) /\
  (forall dbg w N a b fuel, (gcd_fuel w (length a) <= fuel)%nat ->
     match TI_gcd dbg w a b with
     | Some (Ret r) => NtGen.I_gcd dbg w N fuel a b = Done r
     | Some Panic => NtGen.I_gcd dbg w N fuel a b = Panicked
     | None => True
     end) /\
  (forall dbg w a b fuel, (gcd_fuel w (length a) <= fuel)%nat ->
     match TI_lcm dbg w a b with
     | Some (Ret r) => NtGen.I_lcm dbg w (Z.of_nat (length a)) fuel a b = Done r
     | Some Panic => NtGen.I_lcm dbg w (Z.of_nat (length a)) fuel a b = Panicked
     | None => True
     end) /\
  (forall dbg w N fuel a b, NtGen.I_is_multiple_of dbg w N fuel a b =
     match TI_is_multiple_of dbg w a b with Ret r => Done r | Panic => Panicked end) /\
  (forall dbg w N fuel a b, NtGen.I_divides dbg w N fuel a b =
     match TI_divides dbg w a b with Ret r => Done r | Panic => Panicked end) /\
  (forall w N fuel a, (0 < length a)%nat -> NtGen.I_is_even w N fuel a = Done (TI_is_even a)) /\
  (forall w N fuel a, (0 < length a)%nat -> NtGen.I_is_odd w N fuel a = Done (TI_is_odd a)) /\
  (forall dbg w N fuel a b, NtGen.I_div_rem dbg w N fuel a b =
     match TI_div_rem dbg w a b with Ret r => Done r | Panic => Panicked end) /\
  (forall dbg w N fuel a k, NtGen.I_signed_shl dbg w N fuel a k =
     match TI_signed_shl dbg w a k with Ret r => Done r | Panic => Panicked end) /\
  (forall dbg w N fuel a k, NtGen.I_signed_shr dbg w N fuel a k =
     match TI_signed_shr dbg w a k with Ret r => Done r | Panic => Panicked end) /\
  (forall dbg w N fuel a k, NtGen.I_unsigned_shl dbg w N fuel a k =
     match TI_unsigned_shl dbg w a k with Ret r => Done r | Panic => Panicked end) /\
  (forall dbg w N fuel a k, NtGen.I_unsigned_shr dbg w N fuel a k =
     match TI_unsigned_shr dbg w a k with Ret r => Done r | Panic => Panicked end) /\
  (forall dbg w a fuel, (2 ^ fixpoint_depth w (length a) <= fuel)%nat ->
     match TI_sqrt dbg w a with
     | Some (Ret r) => NtGen.I_sqrt dbg w (Z.of_nat (length a)) fuel a = Done r
     | Some Panic => NtGen.I_sqrt dbg w (Z.of_nat (length a)) fuel a = Panicked
     | None => True
     end) /\
  (forall dbg w a fuel, (2 ^ fixpoint_depth w (length a) <= fuel)%nat ->
     match TI_cbrt dbg w a with
     | Some (Ret r) => NtGen.I_cbrt dbg w (Z.of_nat (length a)) fuel a = Done r
     | Some Panic => NtGen.I_cbrt dbg w (Z.of_nat (length a)) fuel a = Panicked
     | None => True
     end) /\
  (forall dbg w a k fuel, 0 <= k -> (2 ^ fixpoint_depth w (length a) <= fuel)%nat ->
     match TI_nth_root dbg w a k with
     | Some (Ret r) => NtGen.I_nth_root dbg w (Z.of_nat (length a)) fuel a k = Done r
     | Some Panic => NtGen.I_nth_root dbg w (Z.of_nat (length a)) fuel a k = Panicked
     | None => True
     end).
Proof. exact nt_rs_matches_model. Qed.
Print Assumptions C18_nt_rs_matches_model.

(* the three callees that Generated/NtGen.v reaches through LOCAL models of Model/NumTraits.v (to_u128; From<u32> / From<u128>
   by `.into()`) agree with the models their source is tied to elsewhere (C19: Proofs/ConvGenTieC19.v; C13: Proofs/LoopsTieC13.v),
   to_u128 for the digit widths of Rust; the two models of From<$uint> for every value, width, digit count and build mode *)
From Bnum.Model Require Convert NumConv.
From Bnum.Proofs Require Import NtGenTieDeps.

Theorem C18_nt_local_models_agree :
  (forall dbg w n a, 0 < w -> (0 < n)%nat -> wf w n a -> 128 < w \/ (w | 128) ->
     NumTraits.U_to_u128 w a = NumConv.U_to_int dbg 128 false w a) /\
  (forall dbg w n v, 0 < w -> NumTraits.U_from_u32 w n v = Convert.U_from_uint dbg 32 w n v) /\
  (forall dbg w n v, 0 < w -> NumTraits.U_from_u128 w n v = Convert.U_from_uint dbg 128 w n v).
Proof. exact nt_local_models_agree. Qed.
Print Assumptions C18_nt_local_models_agree.

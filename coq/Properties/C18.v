From Bnum Require Import Base Prim.
Theorem C18_placeholder : forall w n ds, 0 <= w -> wf w n ds -> 0 <= uval w ds < Mod w n.
Proof. exact uval_bounds. Qed.
Print Assumptions C18_placeholder.

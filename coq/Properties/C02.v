(* Properties/C02.v — "Multiplication is exact: low half, overflow flag and full
   double-width product".  Statements only; proofs are in Proofs/Mul.v (+ Proofs/MulAux.v).
   Notation in comments: A = uval w a, B = uval w b, C = uval w c, SA = sval w a, SB = sval w b,
   M = Mod w n = 2^(w*n). *)
From Bnum Require Import Base Prim.
From Bnum.Model Require Import Digit Core Shift AddSub Mul.
From Bnum.Proofs Require Import MulAux Mul.

(* ---------- 1. long_mul / U.overflowing_mul ---------- *)

Theorem C02_long_mul : forall w n a b, 0 < w -> wf w n a -> wf w n b ->
  let '(r, f) := long_mul w a b in
  wf w n r /\ uval w r = (uval w a * uval w b) mod Mod w n /\
  f = (Mod w n <=? uval w a * uval w b).
Proof. exact long_mul_ok. Qed.
Print Assumptions C02_long_mul.

Theorem C02_U_overflowing_mul : forall w n a b, 0 < w -> wf w n a -> wf w n b ->
  let '(r, f) := U_overflowing_mul w a b in
  wf w n r /\ uval w r = (uval w a * uval w b) mod Mod w n /\
  f = (Mod w n <=? uval w a * uval w b).
Proof. exact U_overflowing_mul_ok. Qed.
Print Assumptions C02_U_overflowing_mul.

(* ---------- 2. full double-width product ---------- *)

Theorem C02_U_widening_mul : forall w n a b, 0 < w -> wf w n a -> wf w n b ->
  let '(lo, hi) := U_widening_mul w a b in
  wf w n lo /\ wf w n hi /\ uval w lo + Mod w n * uval w hi = uval w a * uval w b.
Proof. exact U_widening_mul_ok. Qed.
Print Assumptions C02_U_widening_mul.

Theorem C02_U_carrying_mul : forall w n a b c, 0 < w -> wf w n a -> wf w n b -> wf w n c ->
  let '(lo, hi) := U_carrying_mul w a b c in
  wf w n lo /\ wf w n hi /\
  uval w lo + Mod w n * uval w hi = uval w a * uval w b + uval w c.
Proof. exact U_carrying_mul_ok. Qed.
Print Assumptions C02_U_carrying_mul.

(* ---------- 4a. unsigned projections ---------- *)

Theorem C02_U_checked_mul : forall w n a b, 0 < w -> wf w n a -> wf w n b ->
  match U_checked_mul w a b with
  | None => Mod w n <= uval w a * uval w b
  | Some r => wf w n r /\ uval w r = uval w a * uval w b /\ uval w a * uval w b < Mod w n
  end.
Proof. exact U_checked_mul_ok. Qed.
Print Assumptions C02_U_checked_mul.

Theorem C02_U_wrapping_mul : forall w n a b, 0 < w -> wf w n a -> wf w n b ->
  wf w n (U_wrapping_mul w a b) /\
  uval w (U_wrapping_mul w a b) = (uval w a * uval w b) mod Mod w n.
Proof. exact U_wrapping_mul_ok. Qed.
Print Assumptions C02_U_wrapping_mul.

Theorem C02_U_saturating_mul : forall w n a b, 0 < w -> wf w n a -> wf w n b ->
  wf w n (U_saturating_mul w a b) /\
  uval w (U_saturating_mul w a b) = Z.min (Mod w n - 1) (uval w a * uval w b).
Proof. exact U_saturating_mul_ok. Qed.
Print Assumptions C02_U_saturating_mul.

Theorem C02_U_strict_mul : forall w n a b, 0 < w -> wf w n a -> wf w n b ->
  match U_strict_mul w a b with
  | Panic => Mod w n <= uval w a * uval w b
  | Ret r => wf w n r /\ uval w r = uval w a * uval w b /\ uval w a * uval w b < Mod w n
  end.
Proof. exact U_strict_mul_ok. Qed.
Print Assumptions C02_U_strict_mul.

(* overflow: panic under debug assertions, wrapped result otherwise; no overflow: exact *)
Theorem C02_U_mul : forall dbg w n a b, 0 < w -> wf w n a -> wf w n b ->
  match U_mul dbg w a b with
  | Panic => dbg = true /\ Mod w n <= uval w a * uval w b
  | Ret r => wf w n r /\ uval w r = (uval w a * uval w b) mod Mod w n /\
             (dbg = true -> uval w a * uval w b < Mod w n /\ uval w r = uval w a * uval w b)
  end.
Proof. exact U_mul_ok. Qed.
Print Assumptions C02_U_mul.

(* ---------- 3. signed multiplication (covers MIN * -1 and x * MIN) ---------- *)

Theorem C02_I_overflowing_mul : forall w n a b, 0 < w -> (0 < n)%nat -> wf w n a -> wf w n b ->
  let '(r, f) := I_overflowing_mul w a b in
  wf w n r /\ sval w r = wrapS (Mod w n) (sval w a * sval w b) /\
  f = negb (inS (Mod w n) (sval w a * sval w b)).
Proof. exact I_overflowing_mul_ok. Qed.
Print Assumptions C02_I_overflowing_mul.

(* the AddSub facts the signed proof rests on, proved in Proofs/MulAux.v *)
Theorem C02_I_unsigned_abs : forall w n a, 0 < w -> (0 < n)%nat -> wf w n a ->
  wf w n (I_unsigned_abs w a) /\ uval w (I_unsigned_abs w a) = Z.abs (sval w a).
Proof. exact I_unsigned_abs_spec. Qed.
Print Assumptions C02_I_unsigned_abs.

Theorem C02_I_checked_neg : forall w n a, 0 < w -> (0 < n)%nat -> wf w n a ->
  match I_checked_neg w a with
  | None => sval w a = - (Mod w n / 2)
  | Some r => wf w n r /\ sval w r = - sval w a /\ sval w a <> - (Mod w n / 2)
  end.
Proof. exact I_checked_neg_spec. Qed.
Print Assumptions C02_I_checked_neg.

(* ---------- 4b. signed projections ---------- *)

Theorem C02_I_checked_mul : forall w n a b, 0 < w -> (0 < n)%nat -> wf w n a -> wf w n b ->
  match I_checked_mul w a b with
  | None => sval w a * sval w b < - (Mod w n / 2) \/ Mod w n / 2 <= sval w a * sval w b
  | Some r => wf w n r /\ sval w r = sval w a * sval w b /\
              - (Mod w n / 2) <= sval w a * sval w b < Mod w n / 2
  end.
Proof. exact I_checked_mul_ok. Qed.
Print Assumptions C02_I_checked_mul.

Theorem C02_I_wrapping_mul : forall w n a b, 0 < w -> (0 < n)%nat -> wf w n a -> wf w n b ->
  wf w n (I_wrapping_mul w a b) /\
  sval w (I_wrapping_mul w a b) = wrapS (Mod w n) (sval w a * sval w b).
Proof. exact I_wrapping_mul_ok. Qed.
Print Assumptions C02_I_wrapping_mul.

(* saturates toward the sign of the exact product *)
Theorem C02_I_saturating_mul : forall w n a b, 0 < w -> (0 < n)%nat -> wf w n a -> wf w n b ->
  wf w n (I_saturating_mul w a b) /\
  sval w (I_saturating_mul w a b) =
    Z.max (- (Mod w n / 2)) (Z.min (Mod w n / 2 - 1) (sval w a * sval w b)).
Proof. exact I_saturating_mul_ok. Qed.
Print Assumptions C02_I_saturating_mul.

Theorem C02_I_strict_mul : forall w n a b, 0 < w -> (0 < n)%nat -> wf w n a -> wf w n b ->
  match I_strict_mul w a b with
  | Panic => sval w a * sval w b < - (Mod w n / 2) \/ Mod w n / 2 <= sval w a * sval w b
  | Ret r => wf w n r /\ sval w r = sval w a * sval w b /\
             - (Mod w n / 2) <= sval w a * sval w b < Mod w n / 2
  end.
Proof. exact I_strict_mul_ok. Qed.
Print Assumptions C02_I_strict_mul.

Theorem C02_I_mul : forall dbg w n a b, 0 < w -> (0 < n)%nat -> wf w n a -> wf w n b ->
  match I_mul dbg w a b with
  | Panic => dbg = true /\
             (sval w a * sval w b < - (Mod w n / 2) \/ Mod w n / 2 <= sval w a * sval w b)
  | Ret r => wf w n r /\ sval w r = wrapS (Mod w n) (sval w a * sval w b) /\
             (dbg = true -> - (Mod w n / 2) <= sval w a * sval w b < Mod w n / 2 /\
                            sval w r = sval w a * sval w b)
  end.
Proof. exact I_mul_ok. Qed.
Print Assumptions C02_I_mul.

(* ---------- the hypothesis sets are satisfiable (w = 8, n = 3) ---------- *)

(* unsigned binary: 0xFFFFFF * 2 overflows, low half 0xFFFFFE *)
Example C02_ex_unsigned :
  0 < 8 /\ wf 8 3 [255; 255; 255] /\ wf 8 3 [2; 0; 0] /\
  U_overflowing_mul 8 [255; 255; 255] [2; 0; 0] = ([254; 255; 255], true) /\
  U_widening_mul 8 [255; 255; 255] [2; 0; 0] = ([254; 255; 255], [1; 0; 0]) /\
  U_saturating_mul 8 [255; 255; 255] [2; 0; 0] = [255; 255; 255].
Proof.
  split; [reflexivity|]. split; [apply wfb_wf; reflexivity|]. split; [apply wfb_wf; reflexivity|].
  vm_compute. repeat split.
Qed.
Print Assumptions C02_ex_unsigned.

(* unsigned ternary: MAX * MAX + MAX = M*M - M, i.e. (lo, hi) = (0, MAX) *)
Example C02_ex_carrying :
  0 < 8 /\ wf 8 3 [255; 255; 255] /\ wf 8 3 [255; 255; 255] /\ wf 8 3 [255; 255; 255] /\
  U_carrying_mul 8 [255; 255; 255] [255; 255; 255] [255; 255; 255] = ([0; 0; 0], [255; 255; 255]).
Proof.
  split; [reflexivity|]. split; [apply wfb_wf; reflexivity|]. split; [apply wfb_wf; reflexivity|].
  split; [apply wfb_wf; reflexivity|]. vm_compute. reflexivity.
Qed.
Print Assumptions C02_ex_carrying.

(* signed: MIN * -1 overflows and wraps to MIN; saturates to MAX; 3 * -5 = -15 exactly *)
Example C02_ex_signed :
  0 < 8 /\ (0 < 3)%nat /\ wf 8 3 [0; 0; 128] /\ wf 8 3 [255; 255; 255] /\
  I_overflowing_mul 8 [0; 0; 128] [255; 255; 255] = ([0; 0; 128], true) /\
  I_saturating_mul 8 [0; 0; 128] [255; 255; 255] = [255; 255; 127] /\
  I_overflowing_mul 8 [3; 0; 0] [251; 255; 255] = ([241; 255; 255], false).
Proof.
  split; [reflexivity|]. split; [repeat constructor|].
  split; [apply wfb_wf; reflexivity|]. split; [apply wfb_wf; reflexivity|].
  vm_compute. repeat split.
Qed.
Print Assumptions C02_ex_signed.

(* ---- tie to the source: the digit primitives REGENERATED from /repo/src/digit.rs on every run
   (Generated/DigitGen.v, tools/rs2v_digit.py) are the model's digit primitives, for every digit width ---- *)
From Bnum.Model Require Import DigitPrims Digit.
From Bnum.Generated Require Import DigitGen.
From Bnum.Proofs Require Import DigitTie.
Theorem C02_digit_rs_matches_model w : 0 < w ->
  (forall low high, digit_ok w low -> digit_ok w high -> DigitGen.to_double_digit w low high = to_double_digit w low high) /\
  (forall a b c, DigitGen.carrying_add w a b c = carrying_add w a b c) /\
  (forall a b c, DigitGen.borrowing_sub w a b c = borrowing_sub w a b c) /\
  (forall a b c, DigitGen.carrying_add_signed w a b c = carrying_add_signed w a b c) /\
  (forall a b c, DigitGen.borrowing_sub_signed w a b c = borrowing_sub_signed w a b c) /\
  (forall a b, digit_ok w a -> digit_ok w b -> DigitGen.widening_mul w a b = widening_mul w a b) /\
  (forall a b c d, digit_ok w a -> digit_ok w b -> digit_ok w c -> digit_ok w d ->
                   DigitGen.carrying_mul w a b c d = carrying_mul w a b c d) /\
  (forall low high rhs, digit_ok w low -> digit_ok w high -> DigitGen.div_rem_wide w low high rhs = div_rem_wide w low high rhs).
Proof. exact (digit_rs_matches_model w). Qed.
Print Assumptions C02_digit_rs_matches_model.

(* ---- tie to the source: the glue layer (mul and pow projections) REGENERATED from /repo/src on every run
   (Generated/Glue.v, tools/rs2v_glue.py) is the model's, function by function, for every digit width, digit count,
   build mode and operand (no well-formedness hypothesis): an edit of the source that changes what one of these
   one-line functions delegates to breaks this theorem ---- *)
From Bnum.Model Require Import Digit Core Shift AddSub Mul Div Bits Pow.
From Bnum.Generated Require Import Glue.
From Bnum.Proofs Require Import GlueTieCommon GlueTieC02.
Theorem C02_glue_rs_matches_model :
  (forall w a b, Glue.U_checked_mul w a b = U_checked_mul w a b) /\
  (forall w a b, Glue.U_wrapping_mul w a b = U_wrapping_mul w a b) /\
  (forall w a b, Glue.U_saturating_mul w a b = U_saturating_mul w a b) /\
  (forall w a e, Glue.U_saturating_pow w a e = U_saturating_pow w a e) /\
  (forall w a b, Glue.U_strict_mul w a b = U_strict_mul w a b) /\
  (forall w a e, Glue.U_strict_pow w a e = U_strict_pow w a e) /\
  (forall w a b, Glue.I_strict_mul w a b = I_strict_mul w a b) /\
  (forall w a e, Glue.I_strict_pow w a e = I_strict_pow w a e) /\
  (forall dbg w a b, Glue.U_mul dbg w a b = U_mul dbg w a b) /\
  (forall dbg w a b, Glue.I_mul dbg w a b = I_mul dbg w a b) /\
  (forall w a b, Glue.I_checked_mul w a b = I_checked_mul w a b) /\
  (forall w a b, Glue.I_wrapping_mul w a b = I_wrapping_mul w a b) /\
  (forall w a e, Glue.I_wrapping_pow w a e = I_wrapping_pow w a e) /\
  (forall w a b, Glue.I_saturating_mul w a b = I_saturating_mul w a b) /\
  (forall w a e, Glue.I_saturating_pow w a e = I_saturating_pow w a e) /\
  (forall w a b, Glue.U_overflowing_mul w a b = U_overflowing_mul w a b) /\
  (forall w a b, Glue.I_overflowing_mul w a b = I_overflowing_mul w a b).
Proof. exact glue_mul_matches_model. Qed.
Print Assumptions C02_glue_rs_matches_model.
(* ---- tie to the source: long_mul REGENERATED from /repo/src/buint/mul.rs on every run
   (Generated/Loops.v, tools/rs2v_loops.py; control-flow vocabulary Model/Imp.v) computes exactly the model's
   long_mul: with an iteration budget of at least N (for each of the two nested loops) it neither panics
   nor runs out of budget. ---- *)
From Bnum.Model Require Import Imp.
From Bnum.Generated Require Import Loops.
From Bnum.Proofs Require Import LoopsTieC02.
Theorem C02_loops_rs_match_model w : 0 < w ->
  (forall n a b fuel, wf w n a -> wf w n b -> (n <= fuel)%nat ->
     Loops.long_mul w (Z.of_nat n) fuel a b = Done (long_mul w a b)).
Proof. exact (loops_C02_match_model w). Qed.
Print Assumptions C02_loops_rs_match_model.
(* ==== glue tie, round 2 (text written by tools/mk_gluetie.py; keep at the END of the file) ==== *)
(* ---- tie to the source, second round: the non-loop functions (unchecked_mul of src/int/unchecked.rs) REGENERATED from /repo/src on every run
   (Generated/Glue.v, tools/rs2v_glue.py) are the model's, function by function, for every digit width, digit count,
   build mode and operand (no well-formedness hypothesis): an edit of the source that changes what one of these
   functions computes or delegates to breaks this theorem ---- *)
From Bnum.Model Require Import Digit Core Shift AddSub Mul Div Bits Pow.
From Bnum.Model Require Ops NumTraits.
From Bnum.Generated Require Import Glue.
From Bnum.Proofs Require Import GlueTieCommon GlueTieC02.
Theorem C02_glue2_rs_matches_model :
  (forall w a b, Glue.U_unchecked_mul w a b = U_checked_mul w a b) /\
  (forall w a b, Glue.I_unchecked_mul w a b = I_checked_mul w a b).
Proof. exact glue_mul2_matches_model. Qed.
Print Assumptions C02_glue2_rs_matches_model.

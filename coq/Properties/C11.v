(* Properties/C11.v — radix output is the canonical numeral and round-trips with parsing.
   Model: Model/RadixOut.v (src/buint/radix.rs:450-607, src/bint/radix.rs:131-163).
   The facts about functions modelled elsewhere that the development took as premises
   (Proofs/RadixOutDeps.v: div_digit_spec — BUint::div_rem_digit, C03 —, is_negative_spec and
   unsigned_abs_spec — C07 / C01) are discharged by the owners' theorems (Proofs/DischargeRadix.v):
   no theorem below has such a premise.  The generic round-trip corollaries C11_round_trip_* hold for
   ANY parser meeting `parse_*_spec`; the C11_round_trip_*_closed theorems instantiate them with the
   real model parsers of property C10 (Model/Parse.v; Proofs/RoundTrip.v) and are unconditional. *)
From Bnum Require Import Base Prim.
From Bnum.Model Require Import Digit Core Shift AddSub Mul Div Bits RadixOut.
From Bnum.Proofs Require Import RadixSpec RadixOutDeps RadixOut.
From Bnum.Proofs Require Import DischargeRadix.
From Bnum.Model Require Import Parse.
From Bnum.Proofs Require Import RoundTrip.

(* the specification determines the output: a value has exactly one canonical digit sequence *)
Theorem C11_canonical_unique : forall r x a b,
  2 <= r -> canonical_le r x a -> canonical_le r x b -> a = b.
Proof. exact canonical_unique. Qed.
Print Assumptions C11_canonical_unique.

(* to_radix_le: every radix 2..=256, every dispatch path (byte copy, exact and inexact bit slicing,
   repeated division), all digit widths w >= 8, all digit counts: never out of fuel, never panics,
   digits < r, value = the integer, [0] for zero, no most-significant zero *)
Theorem C11_to_radix_le_ok : forall w n a r,
  8 <= w -> wf w n a -> 2 <= r <= 256 ->
  exists ds, U_to_radix_le w a r = Some (Ret ds) /\ canonical_le r (uval w a) ds.
Proof. exact (to_radix_le_ok DischargeRadix.div_digit_spec_holds). Qed.
Print Assumptions C11_to_radix_le_ok.

(* power-of-two radices (2,4,8,...,256: bit slicing incl. to_inexact_bitwise_digits_le) need no premise *)
Theorem C11_to_radix_le_pow2_ok : forall w n a r,
  8 <= w -> wf w n a -> 2 <= r <= 256 -> u32_is_power_of_two r = true ->
  exists ds, U_to_radix_le w a r = Some (Ret ds) /\ canonical_le r (uval w a) ds.
Proof. exact to_radix_le_pow2_ok. Qed.
Print Assumptions C11_to_radix_le_pow2_ok.

(* to_radix_be is the reversal, for every radix (also the panic) *)
Theorem C11_to_radix_be_rev : forall w a r, U_to_radix_be w a r = oomap (@rev Z) (U_to_radix_le w a r).
Proof. exact to_radix_be_rev. Qed.
Print Assumptions C11_to_radix_be_rev.

Theorem C11_to_radix_be_ok : forall w n a r,
  8 <= w -> wf w n a -> 2 <= r <= 256 ->
  exists ds, U_to_radix_be w a r = Some (Ret (rev ds)) /\ canonical_le r (uval w a) ds.
Proof. exact (to_radix_be_ok DischargeRadix.div_digit_spec_holds). Qed.
Print Assumptions C11_to_radix_be_ok.

(* signed types print the two's complement bit pattern *)
Theorem C11_I_to_radix_ok : forall w n a r,
  8 <= w -> wf w n a -> 2 <= r <= 256 ->
  exists ds, I_to_radix_le w a r = Some (Ret ds) /\ I_to_radix_be w a r = Some (Ret (rev ds)) /\
             canonical_le r (sval w a mod Mod w n) ds.
Proof. exact (I_to_radix_le_ok DischargeRadix.div_digit_spec_holds). Qed.
Print Assumptions C11_I_to_radix_ok.

(* strings: lowercase ASCII of the canonical digits, most significant first; '-' for negative values *)
Theorem C11_ascii_lower : forall d, 0 <= d < 36 ->
  (d < 10 /\ ascii_lower d = 48 + d) \/ (10 <= d /\ ascii_lower d = 97 + (d - 10)).
Proof. exact ascii_lower_spec. Qed.
Print Assumptions C11_ascii_lower.

Theorem C11_U_to_str_radix_ok : forall w n a r,
  8 <= w -> wf w n a -> 2 <= r <= 36 ->
  exists ds, canonical_le r (uval w a) ds /\
             U_to_str_radix w a r = Some (Ret (map ascii_lower (rev ds))).
Proof. exact (U_to_str_radix_ok DischargeRadix.div_digit_spec_holds). Qed.
Print Assumptions C11_U_to_str_radix_ok.

Theorem C11_I_to_str_radix_ok : forall w n a r,
  8 <= w -> (0 < n)%nat -> wf w n a -> 2 <= r <= 36 ->
  exists ds, canonical_le r (Z.abs (sval w a)) ds /\
             I_to_str_radix w a r =
             Some (Ret ((if sval w a <? 0 then [45] else []) ++ map ascii_lower (rev ds))).
Proof. exact (I_to_str_radix_ok DischargeRadix.div_digit_spec_holds DischargeRadix.is_negative_spec_holds DischargeRadix.unsigned_abs_spec_holds). Qed.
Print Assumptions C11_I_to_str_radix_ok.

(* panics exactly for an out-of-range radix (all w, all inputs, no premise) *)
Theorem C11_U_to_radix_le_panic : forall w a r, U_to_radix_le w a r = Some Panic <-> ~ (2 <= r <= 256).
Proof. exact U_to_radix_le_panic. Qed.
Print Assumptions C11_U_to_radix_le_panic.
Theorem C11_U_to_radix_be_panic : forall w a r, U_to_radix_be w a r = Some Panic <-> ~ (2 <= r <= 256).
Proof. exact U_to_radix_be_panic. Qed.
Print Assumptions C11_U_to_radix_be_panic.
Theorem C11_U_to_str_radix_panic : forall w a r, U_to_str_radix w a r = Some Panic <-> ~ (2 <= r <= 36).
Proof. exact U_to_str_radix_panic. Qed.
Print Assumptions C11_U_to_str_radix_panic.
Theorem C11_I_to_str_radix_panic : forall w a r, I_to_str_radix w a r = Some Panic <-> ~ (2 <= r <= 36).
Proof. exact I_to_str_radix_panic. Qed.
Print Assumptions C11_I_to_str_radix_panic.

(* round trip: parsing the output with the same radix returns the original value.  The parser is
   property C10; what the round trip needs of its theorem is the premise parse_*_spec *)
Theorem C11_round_trip_le : forall (R : Type) (ok : list Z -> R),
  forall w n parse, parse_le_spec ok w n parse ->
  forall a r, 8 <= w -> wf w n a -> 2 <= r <= 256 ->
  exists ds, U_to_radix_le w a r = Some (Ret ds) /\ parse ds r = ok a.
Proof. exact (fun R ok => @round_trip_le R ok DischargeRadix.div_digit_spec_holds). Qed.
Print Assumptions C11_round_trip_le.

Theorem C11_round_trip_be : forall (R : Type) (ok : list Z -> R),
  forall w n parse, parse_be_spec ok w n parse ->
  forall a r, 8 <= w -> wf w n a -> 2 <= r <= 256 ->
  exists bs, U_to_radix_be w a r = Some (Ret bs) /\ parse bs r = ok a.
Proof. exact (fun R ok => @round_trip_be R ok DischargeRadix.div_digit_spec_holds). Qed.
Print Assumptions C11_round_trip_be.

Theorem C11_round_trip_str : forall (R : Type) (ok : list Z -> R),
  forall w n parse, parse_str_spec ok w n parse ->
  forall a r, 8 <= w -> wf w n a -> 2 <= r <= 36 ->
  exists s, U_to_str_radix w a r = Some (Ret s) /\ parse s r = ok a.
Proof. exact (fun R ok => @round_trip_str R ok DischargeRadix.div_digit_spec_holds). Qed.
Print Assumptions C11_round_trip_str.

Theorem C11_round_trip_istr : forall (R : Type) (ok : list Z -> R),
  forall w n parse, parse_istr_spec ok w n parse ->
  forall a r, 8 <= w -> (0 < n)%nat -> wf w n a -> 2 <= r <= 36 ->
  exists s, I_to_str_radix w a r = Some (Ret s) /\ parse s r = ok a.
Proof.
  exact (fun R ok => @round_trip_istr R ok DischargeRadix.div_digit_spec_holds
           DischargeRadix.is_negative_spec_holds DischargeRadix.unsigned_abs_spec_holds).
Qed.
Print Assumptions C11_round_trip_istr.

(* ---- the round trip closed over the REAL parsers of property C10 (Model/Parse.v): the model parsers
        meet the four parser specifications (C10's theorems, Proofs/RoundTrip.v) ... ---- *)
Theorem C11_parse_le_real : forall dbg w n, 0 < w -> w mod 8 = 0 -> (0 < n)%nat ->
  parse_le_spec (fun a => POk (Some a)) w n (U_from_radix_le dbg w n).
Proof. exact parse_le_real. Qed.
Print Assumptions C11_parse_le_real.
Theorem C11_parse_be_real : forall dbg w n, 0 < w -> w mod 8 = 0 -> (0 < n)%nat ->
  parse_be_spec (fun a => POk (Some a)) w n (U_from_radix_be dbg w n).
Proof. exact parse_be_real. Qed.
Print Assumptions C11_parse_be_real.
Theorem C11_parse_str_real : forall dbg w n, 0 < w -> w mod 8 = 0 -> (0 < n)%nat ->
  parse_str_spec (@POk (list Z)) w n (U_from_str_radix dbg w n).
Proof. exact parse_str_real. Qed.
Print Assumptions C11_parse_str_real.
Theorem C11_parse_istr_real : forall dbg w n, 0 < w -> w mod 8 = 0 -> (0 < n)%nat ->
  parse_istr_spec (@POk (list Z)) w n (I_from_str_radix dbg w n).
Proof. exact parse_istr_real. Qed.
Print Assumptions C11_parse_istr_real.

(* ---- ... hence, with no premise: for both build modes, every digit width w that is a multiple of 8
        (side conditions of both developments: 8 <= w for the output, w mod 8 = 0 for the parser),
        every digit count n >= 1, every well-formed value and every radix in range, parsing the
        output with the same radix returns the original value ---- *)
Theorem C11_round_trip_le_closed : forall dbg w n a r,
  8 <= w -> w mod 8 = 0 -> (0 < n)%nat -> wf w n a -> 2 <= r <= 256 ->
  exists ds, U_to_radix_le w a r = Some (Ret ds) /\ U_from_radix_le dbg w n ds r = POk (Some a).
Proof. exact round_trip_le_closed. Qed.
Print Assumptions C11_round_trip_le_closed.

Theorem C11_round_trip_be_closed : forall dbg w n a r,
  8 <= w -> w mod 8 = 0 -> (0 < n)%nat -> wf w n a -> 2 <= r <= 256 ->
  exists bs, U_to_radix_be w a r = Some (Ret bs) /\ U_from_radix_be dbg w n bs r = POk (Some a).
Proof. exact round_trip_be_closed. Qed.
Print Assumptions C11_round_trip_be_closed.

Theorem C11_round_trip_str_closed : forall dbg w n a r,
  8 <= w -> w mod 8 = 0 -> (0 < n)%nat -> wf w n a -> 2 <= r <= 36 ->
  exists s, U_to_str_radix w a r = Some (Ret s) /\ U_from_str_radix dbg w n s r = POk a.
Proof. exact round_trip_str_closed. Qed.
Print Assumptions C11_round_trip_str_closed.

Theorem C11_round_trip_istr_closed : forall dbg w n a r,
  8 <= w -> w mod 8 = 0 -> (0 < n)%nat -> wf w n a -> 2 <= r <= 36 ->
  exists s, I_to_str_radix w a r = Some (Ret s) /\ I_from_str_radix dbg w n s r = POk a.
Proof. exact round_trip_istr_closed. Qed.
Print Assumptions C11_round_trip_istr_closed.

(* the hypotheses are satisfiable / the statements are not vacuous *)
Example C11_ex_hyps : 8 <= 8 /\ wf 8 2 [255; 1] /\ 2 <= 10 <= 36 /\ (0 < 2)%nat.
Proof. repeat split; try lia; repeat constructor; unfold digit_ok, B; cbn; lia. Qed.
Example C11_ex_str : U_to_str_radix 8 [255; 1] 10 = Some (Ret [53; 49; 49]).          (* "511" *)
Proof. vm_compute. reflexivity. Qed.
Example C11_ex_istr : I_to_str_radix 8 [254; 255] 16 = Some (Ret [45; 50]).            (* "-2" *)
Proof. vm_compute. reflexivity. Qed.
Example C11_ex_inexact : U_to_radix_le 8 [255; 1] 8 = Some (Ret [7; 7; 7]).            (* 0o777 *)
Proof. vm_compute. reflexivity. Qed.
Example C11_ex_canonical : canonical_le 8 511 [7; 7; 7].
Proof. repeat split; try (repeat constructor; lia); cbn; lia. Qed.
Example C11_ex_panic : U_to_radix_le 8 [1] 257 = Some Panic /\ U_to_str_radix 8 [1] 37 = Some Panic.
Proof. split; vm_compute; reflexivity. Qed.
Example C11_ex_parse_le_spec : forall w n, 0 < w ->
  parse_le_spec (@Some (list Z)) w n (fun ds r => Some (digits_of w n (horner_le r ds))).
Proof. exact parse_le_spec_sat. Qed.
Example C11_ex_parse_str_spec : forall w n, 0 < w ->
  parse_str_spec (@Some (list Z)) w n (fun s r => Some (digits_of w n (horner_le r (rev (map unascii s))))).
Proof. exact parse_str_spec_sat. Qed.
(* the closed round trip on instances: "511" and "-2" parse back to the arrays they were printed from *)
Example C11_ex_round_trip_str : U_from_str_radix true 8 2 [53; 49; 49] 10 = POk [255; 1].
Proof. vm_compute. reflexivity. Qed.
Example C11_ex_round_trip_istr : I_from_str_radix true 8 2 [45; 50] 16 = POk [254; 255].
Proof. vm_compute. reflexivity. Qed.
Example C11_ex_round_trip_le : U_from_radix_le true 8 2 [7; 7; 7] 8 = POk (Some [255; 1]).
Proof. vm_compute. reflexivity. Qed.

(* ---- tie to the source: radix_base_half (the chunk size of the repeated division in to_radix_digits_le) REGENERATED from
   /repo/src/buint/radix.rs on every run (Generated/ParseGen.v, tools/rs2v_parse.py; control-flow vocabulary Model/Imp.v) computes
   exactly the model's radix_base_half: with an iteration budget of at least w it neither panics nor runs out of budget.
   (The printing loops themselves - Vec, iterators - are hand-modelled and tied by the correspondence check only.) ---- *)
From Bnum.Model Require Import Imp.
From Bnum.Generated Require Import ParseGen.
From Bnum.Proofs Require Import ParseGenTieHalf.
Theorem C11_radix_base_half_rs_matches_model w N fuel radix b p : 0 < w -> (Z.to_nat w <= fuel)%nat ->
  RadixOut.radix_base_half w radix = Some (b, p) -> ParseGen.radix_base_half w N fuel radix = Done (b, Z.of_nat p).
Proof. exact (gen_radix_base_half w N fuel radix b p). Qed.
Print Assumptions C11_radix_base_half_rs_matches_model.

(* ---- tie to the source: the radix OUTPUT code itself - to_radix_le (assert_range! panic, zero, byte copy, dispatch),
   to_bitwise_digits_le, to_inexact_bitwise_digits_le, to_radix_digits_le, to_radix_be, to_str_radix of src/buint/radix.rs and
   to_str_radix / to_radix_be / to_radix_le of src/bint/radix.rs - REGENERATED from /repo on every run (Generated/PrintGen.v,
   tools/rs2v_print.py; vocabulary Model/Imp.v + ImpParse.v + ImpDiv.v + ImpPrint.v: Vec<u8> as list Z, `for` loops) equals the
   hand-written model these theorems are about: for every digit width 8 <= w <= 248 (bnum: 8, 16, 32, 64), every digit count,
   every well-formed operand and EVERY radix, with an iteration budget of 2 w (n + 1) + 1.
   oo_res (Proofs/PrintGenTieD.v): Some (Ret l) <-> Done l, Some Panic <-> Panicked, None <-> NoFuel. ---- *)
From Bnum.Generated Require Import PrintGen.
From Bnum.Proofs Require Import PrintGenTie.
Theorem C11_print_rs_matches_model : forall w n fuel a radix,
  8 <= w <= 248 -> wf w n a -> (Z.to_nat (2 * w) * S n + 1 <= fuel)%nat ->
  PrintGen.to_radix_le w (Z.of_nat n) fuel a radix = oo_res (U_to_radix_le w a radix) /\
  PrintGen.to_radix_be w (Z.of_nat n) fuel a radix = oo_res (U_to_radix_be w a radix) /\
  PrintGen.to_str_radix w (Z.of_nat n) fuel a radix = oo_res (U_to_str_radix w a radix) /\
  PrintGen.I_to_radix_le w (Z.of_nat n) fuel a radix = oo_res (I_to_radix_le w a radix) /\
  PrintGen.I_to_radix_be w (Z.of_nat n) fuel a radix = oo_res (I_to_radix_be w a radix) /\
  ((0 < n)%nat -> PrintGen.I_to_str_radix w (Z.of_nat n) fuel a radix = oo_res (I_to_str_radix w a radix)).
Proof. exact print_C11_match_model. Qed.
Print Assumptions C11_print_rs_matches_model.
(* the three digit loops on their own (no well-formedness needed: wherever the model's own budget suffices) *)
Theorem C11_print_loops_rs_match_model : forall w N fuel self,
  (forall bits out, 0 < bits < w -> self <> [] -> (Z.to_nat w <= fuel)%nat ->
     to_bitwise_digits_le w self bits = Some out ->
     PrintGen.to_bitwise_digits_le w N fuel self bits = Done out) /\
  (forall bits out, 0 < bits < w -> w + bits <= 256 -> (Z.to_nat (2 * w) * S (length self) <= fuel)%nat ->
     to_inexact_bitwise_digits_le w self bits = Some out ->
     PrintGen.to_inexact_bitwise_digits_le w N fuel self bits = Done out) /\
  (forall radix out, 0 < w -> 2 <= radix < 2 ^ 32 -> radix mod B w <> 0 -> self <> [] ->
     (Z.to_nat w <= fuel)%nat -> (S (Z.to_nat (bits w (length self))) <= fuel)%nat ->
     to_radix_digits_le w self radix = Some out ->
     PrintGen.to_radix_digits_le w N fuel self radix = Done out).
Proof. exact print_C11_loops_match_model. Qed.
Print Assumptions C11_print_loops_rs_match_model.

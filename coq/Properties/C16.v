(* Properties/C16.v — C16: "Results depend only on width, signedness and value - never on the digit
   type"; extension commutes with value-level operations whose exact result is representable in
   the narrower type; the associated constants and the aliases denote what their names advertise.
   The digit-independence and extension statements are corollaries of the Model = Spec theorems
   of C01, C02, C05, C07, C08 (every spec mentions only BITS and the operand VALUES); the
   constant / alias statements are about the tables REGENERATED FROM THE SOURCE on every run
   (Generated/Config.v, by tools/rs2v_config.py) and about the constants' defining expressions
   transcribed in Model/Consts.v. *)
From Bnum Require Import Base Prim.
From Bnum.Model Require Import Digit Core Shift AddSub Mul Div Bits Pow Consts.
From Bnum.Generated Require Import Config.
From Bnum.Proofs Require Import AddSubLemmas Consts DigitIndep.
From Coq Require Import String.

(* ---- 1. digit-type independence: equal width, equal values => equal results and flags ---- *)

Theorem C16_U_add_digit_independent w1 w2 n1 n2 a1 b1 a2 b2 :
  0 < w1 -> 0 < w2 -> bits w1 n1 = bits w2 n2 ->
  wf w1 n1 a1 -> wf w1 n1 b1 -> wf w2 n2 a2 -> wf w2 n2 b2 ->
  uval w1 a1 = uval w2 a2 -> uval w1 b1 = uval w2 b2 ->
  uval w1 (fst (U_overflowing_add w1 a1 b1)) = uval w2 (fst (U_overflowing_add w2 a2 b2)) /\
  snd (U_overflowing_add w1 a1 b1) = snd (U_overflowing_add w2 a2 b2).
Proof. intros; eapply (U_add_indep w1 w2 n1 n2); eassumption. Qed.
Print Assumptions C16_U_add_digit_independent.

Theorem C16_U_sub_digit_independent w1 w2 n1 n2 a1 b1 a2 b2 :
  0 < w1 -> 0 < w2 -> bits w1 n1 = bits w2 n2 ->
  wf w1 n1 a1 -> wf w1 n1 b1 -> wf w2 n2 a2 -> wf w2 n2 b2 ->
  uval w1 a1 = uval w2 a2 -> uval w1 b1 = uval w2 b2 ->
  uval w1 (fst (U_overflowing_sub w1 a1 b1)) = uval w2 (fst (U_overflowing_sub w2 a2 b2)) /\
  snd (U_overflowing_sub w1 a1 b1) = snd (U_overflowing_sub w2 a2 b2).
Proof. intros; eapply (U_sub_indep w1 w2 n1 n2); eassumption. Qed.
Print Assumptions C16_U_sub_digit_independent.

Theorem C16_U_mul_digit_independent w1 w2 n1 n2 a1 b1 a2 b2 :
  0 < w1 -> 0 < w2 -> bits w1 n1 = bits w2 n2 ->
  wf w1 n1 a1 -> wf w1 n1 b1 -> wf w2 n2 a2 -> wf w2 n2 b2 ->
  uval w1 a1 = uval w2 a2 -> uval w1 b1 = uval w2 b2 ->
  uval w1 (fst (U_overflowing_mul w1 a1 b1)) = uval w2 (fst (U_overflowing_mul w2 a2 b2)) /\
  snd (U_overflowing_mul w1 a1 b1) = snd (U_overflowing_mul w2 a2 b2).
Proof. intros; eapply (U_mul_indep w1 w2 n1 n2); eassumption. Qed.
Print Assumptions C16_U_mul_digit_independent.

Theorem C16_U_cmp_digit_independent w1 w2 n1 n2 a1 b1 a2 b2 :
  0 < w1 -> 0 < w2 -> bits w1 n1 = bits w2 n2 ->
  wf w1 n1 a1 -> wf w1 n1 b1 -> wf w2 n2 a2 -> wf w2 n2 b2 ->
  uval w1 a1 = uval w2 a2 -> uval w1 b1 = uval w2 b2 -> ucmp a1 b1 = ucmp a2 b2.
Proof. intros; eapply (U_cmp_indep w1 w2 n1 n2); eassumption. Qed.
Print Assumptions C16_U_cmp_digit_independent.

Theorem C16_shl_digit_independent w1 w2 n1 n2 a1 b1 a2 b2 :
  0 < w1 -> 0 < w2 -> bits w1 n1 = bits w2 n2 ->
  wf w1 n1 a1 -> wf w1 n1 b1 -> wf w2 n2 a2 -> wf w2 n2 b2 ->
  forall s, 0 <= s < bits w1 n1 -> uval w1 a1 = uval w2 a2 ->
  uval w1 (shl_internal w1 a1 s) = uval w2 (shl_internal w2 a2 s).
Proof. intros; eapply (U_shl_indep w1 w2 n1 n2); eassumption. Qed.
Print Assumptions C16_shl_digit_independent.

Theorem C16_shr_digit_independent w1 w2 n1 n2 a1 b1 a2 b2 :
  0 < w1 -> 0 < w2 -> bits w1 n1 = bits w2 n2 ->
  wf w1 n1 a1 -> wf w1 n1 b1 -> wf w2 n2 a2 -> wf w2 n2 b2 ->
  forall s, 0 <= s < bits w1 n1 -> uval w1 a1 = uval w2 a2 ->
  uval w1 (shr_pad_internal w1 false a1 s) = uval w2 (shr_pad_internal w2 false a2 s).
Proof. intros; eapply (U_shr_indep w1 w2 n1 n2); eassumption. Qed.
Print Assumptions C16_shr_digit_independent.

Theorem C16_U_pow_digit_independent w1 w2 n1 n2 a1 b1 a2 b2 :
  0 < w1 -> 0 < w2 -> bits w1 n1 = bits w2 n2 ->
  wf w1 n1 a1 -> wf w1 n1 b1 -> wf w2 n2 a2 -> wf w2 n2 b2 ->
  forall e, (0 < n1)%nat -> (0 < n2)%nat -> 0 <= e -> uval w1 a1 = uval w2 a2 ->
  uval w1 (fst (U_overflowing_pow w1 a1 e)) = uval w2 (fst (U_overflowing_pow w2 a2 e)) /\
  snd (U_overflowing_pow w1 a1 e) = snd (U_overflowing_pow w2 a2 e).
Proof. intros; eapply (U_pow_indep w1 w2 n1 n2); eassumption. Qed.
Print Assumptions C16_U_pow_digit_independent.

Theorem C16_I_add_digit_independent w1 w2 n1 n2 a1 b1 a2 b2 :
  0 < w1 -> 0 < w2 -> bits w1 n1 = bits w2 n2 ->
  wf w1 n1 a1 -> wf w1 n1 b1 -> wf w2 n2 a2 -> wf w2 n2 b2 -> (0 < n1)%nat -> (0 < n2)%nat ->
  sval w1 a1 = sval w2 a2 -> sval w1 b1 = sval w2 b2 ->
  sval w1 (fst (I_overflowing_add w1 a1 b1)) = sval w2 (fst (I_overflowing_add w2 a2 b2)) /\
  snd (I_overflowing_add w1 a1 b1) = snd (I_overflowing_add w2 a2 b2).
Proof. intros; eapply (I_add_indep w1 w2 n1 n2); eassumption. Qed.
Print Assumptions C16_I_add_digit_independent.

Theorem C16_I_mul_digit_independent w1 w2 n1 n2 a1 b1 a2 b2 :
  0 < w1 -> 0 < w2 -> bits w1 n1 = bits w2 n2 ->
  wf w1 n1 a1 -> wf w1 n1 b1 -> wf w2 n2 a2 -> wf w2 n2 b2 -> (0 < n1)%nat -> (0 < n2)%nat ->
  sval w1 a1 = sval w2 a2 -> sval w1 b1 = sval w2 b2 ->
  sval w1 (fst (I_overflowing_mul w1 a1 b1)) = sval w2 (fst (I_overflowing_mul w2 a2 b2)) /\
  snd (I_overflowing_mul w1 a1 b1) = snd (I_overflowing_mul w2 a2 b2).
Proof. intros; eapply (I_mul_indep w1 w2 n1 n2); eassumption. Qed.
Print Assumptions C16_I_mul_digit_independent.

Theorem C16_I_cmp_digit_independent w1 w2 n1 n2 a1 b1 a2 b2 :
  0 < w1 -> 0 < w2 -> bits w1 n1 = bits w2 n2 ->
  wf w1 n1 a1 -> wf w1 n1 b1 -> wf w2 n2 a2 -> wf w2 n2 b2 -> (0 < n1)%nat -> (0 < n2)%nat ->
  sval w1 a1 = sval w2 a2 -> sval w1 b1 = sval w2 b2 -> icmp w1 a1 b1 = icmp w2 a2 b2.
Proof. intros; eapply (I_cmp_indep w1 w2 n1 n2); eassumption. Qed.
Print Assumptions C16_I_cmp_digit_independent.

(* ---- 2. extension into a wider type commutes when the exact result fits the narrow type ---- *)

Theorem C16_U_add_extension w1 w2 n1 n2 a1 b1 a2 b2 :
  0 < w1 -> 0 < w2 -> 0 <= bits w1 n1 <= bits w2 n2 ->
  wf w1 n1 a1 -> wf w1 n1 b1 -> wf w2 n2 a2 -> wf w2 n2 b2 ->
  uval w1 a1 = uval w2 a2 -> uval w1 b1 = uval w2 b2 ->
  uval w1 a1 + uval w1 b1 < Mod w1 n1 ->
  U_checked_add w1 a1 b1 <> None /\ U_checked_add w2 a2 b2 <> None /\
  uval w1 (fst (U_overflowing_add w1 a1 b1)) = uval w1 a1 + uval w1 b1 /\
  uval w2 (fst (U_overflowing_add w2 a2 b2)) = uval w1 a1 + uval w1 b1.
Proof. intros; eapply (U_add_ext w1 w2 n1 n2); eassumption. Qed.
Print Assumptions C16_U_add_extension.

Theorem C16_U_sub_extension w1 w2 n1 n2 a1 b1 a2 b2 :
  0 < w1 -> 0 < w2 -> 0 <= bits w1 n1 <= bits w2 n2 ->
  wf w1 n1 a1 -> wf w1 n1 b1 -> wf w2 n2 a2 -> wf w2 n2 b2 ->
  uval w1 a1 = uval w2 a2 -> uval w1 b1 = uval w2 b2 -> uval w1 b1 <= uval w1 a1 ->
  uval w1 (fst (U_overflowing_sub w1 a1 b1)) = uval w1 a1 - uval w1 b1 /\
  uval w2 (fst (U_overflowing_sub w2 a2 b2)) = uval w1 a1 - uval w1 b1 /\
  snd (U_overflowing_sub w1 a1 b1) = false /\ snd (U_overflowing_sub w2 a2 b2) = false.
Proof. intros; eapply (U_sub_ext w1 w2 n1 n2); eassumption. Qed.
Print Assumptions C16_U_sub_extension.

Theorem C16_U_mul_extension w1 w2 n1 n2 a1 b1 a2 b2 :
  0 < w1 -> 0 < w2 -> 0 <= bits w1 n1 <= bits w2 n2 ->
  wf w1 n1 a1 -> wf w1 n1 b1 -> wf w2 n2 a2 -> wf w2 n2 b2 ->
  uval w1 a1 = uval w2 a2 -> uval w1 b1 = uval w2 b2 -> uval w1 a1 * uval w1 b1 < Mod w1 n1 ->
  uval w1 (fst (U_overflowing_mul w1 a1 b1)) = uval w1 a1 * uval w1 b1 /\
  uval w2 (fst (U_overflowing_mul w2 a2 b2)) = uval w1 a1 * uval w1 b1 /\
  snd (U_overflowing_mul w1 a1 b1) = false /\ snd (U_overflowing_mul w2 a2 b2) = false.
Proof. intros; eapply (U_mul_ext w1 w2 n1 n2); eassumption. Qed.
Print Assumptions C16_U_mul_extension.

Theorem C16_cmp_extension w1 w2 n1 n2 a1 b1 a2 b2 :
  0 < w1 -> 0 < w2 -> 0 <= bits w1 n1 <= bits w2 n2 ->
  wf w1 n1 a1 -> wf w1 n1 b1 -> wf w2 n2 a2 -> wf w2 n2 b2 ->
  (uval w1 a1 = uval w2 a2 -> uval w1 b1 = uval w2 b2 -> ucmp a1 b1 = ucmp a2 b2) /\
  ((0 < n1)%nat -> (0 < n2)%nat -> sval w1 a1 = sval w2 a2 -> sval w1 b1 = sval w2 b2 ->
   icmp w1 a1 b1 = icmp w2 a2 b2).
Proof.
  intros; split; intros; [eapply (U_cmp_ext w1 w2 n1 n2) | eapply (I_cmp_ext w1 w2 n1 n2)]; eassumption.
Qed.
Print Assumptions C16_cmp_extension.

Theorem C16_I_add_extension w1 w2 n1 n2 a1 b1 a2 b2 :
  0 < w1 -> 0 < w2 -> 0 <= bits w1 n1 <= bits w2 n2 ->
  wf w1 n1 a1 -> wf w1 n1 b1 -> wf w2 n2 a2 -> wf w2 n2 b2 -> (0 < n1)%nat -> (0 < n2)%nat ->
  sval w1 a1 = sval w2 a2 -> sval w1 b1 = sval w2 b2 ->
  inS (Mod w1 n1) (sval w1 a1 + sval w1 b1) = true ->
  sval w1 (fst (I_overflowing_add w1 a1 b1)) = sval w1 a1 + sval w1 b1 /\
  sval w2 (fst (I_overflowing_add w2 a2 b2)) = sval w1 a1 + sval w1 b1 /\
  snd (I_overflowing_add w1 a1 b1) = false /\ snd (I_overflowing_add w2 a2 b2) = false.
Proof. intros; eapply (I_add_ext w1 w2 n1 n2); eassumption. Qed.
Print Assumptions C16_I_add_extension.

(* ---- 3. constants and aliases ---- *)

(* the pos_const!/neg_const! tables regenerated from the source bind every advertised name to its
   numeral, list exactly ONE..TEN / TWO..TEN / NEG_ONE..NEG_TEN, and every defining expression
   (MIN, MAX, BITS, BYTES, ZERO, ONE, from_digit, MAX - (k-1)) still has the transcribed shape *)
Theorem C16_constant_tables : tables_ok = true.
Proof. exact tables_ok_true. Qed.
Print Assumptions C16_constant_tables.

Theorem C16_pos_const_value w k num : 0 < w -> 0 <= num < B w ->
  wf w (S k) (U_pos_const (S k) num) /\ uval w (U_pos_const (S k) num) = num.
Proof. exact (U_pos_const_ok w k num). Qed.
Print Assumptions C16_pos_const_value.

Theorem C16_neg_const_value w k num : 0 < w -> 1 <= num <= B w / 2 ->
  wf w (S k) (I_neg_const w (S k) num) /\ sval w (I_neg_const w (S k) num) = - num.
Proof. exact (I_neg_const_ok w k num). Qed.
Print Assumptions C16_neg_const_value.

Theorem C16_MAX_MIN_values w k : 0 < w ->
  uval w (UMAX w (S k)) = Mod w (S k) - 1 /\ uval w (ZERO (S k)) = 0 /\
  sval w (IMIN w (S k)) = - (Mod w (S k) / 2) /\ sval w (IMAX w (S k)) = Mod w (S k) / 2 - 1.
Proof.
  intros Hw. repeat split.
  - apply UMAX_uval; lia.
  - apply ZERO_uval.
  - apply IMIN_sval; exact Hw.
  - apply IMAX_sval; exact Hw.
Qed.
Print Assumptions C16_MAX_MIN_values.

Theorem C16_BITS_BYTES w n : BITS w n = Z.of_nat n * w /\ BYTES w n = BITS w n / 8.
Proof. exact (conj (BITS_ok w n) (BYTES_ok w n)). Qed.
Print Assumptions C16_BITS_BYTES.

(* U128..U8192 / I128..I8192 are named after their widths, and the digit count bits / 64 of the
   alias definition gives back exactly that width *)
Theorem C16_aliases : aliases_ok = true /\
  forall bits u i, In (bits, u, i) aliases -> alias_bits bits = Some (bits, bits).
Proof. exact (conj aliases_ok_true alias_bits_ok). Qed.
Print Assumptions C16_aliases.

Theorem C16_instantiations : instantiations_ok = true.
Proof. exact instantiations_ok_true. Qed.
Print Assumptions C16_instantiations.

(* non-vacuity *)
Example C16_ex_same_value : uval 8 [0x34; 0x12] = uval 16 [0x1234] /\ bits 8 2 = bits 16 1 /\
  wf 8 2 [0x34; 0x12] /\ wf 16 1 [0x1234].
Proof. repeat split; try reflexivity; repeat constructor; unfold digit_ok, B; cbn; lia. Qed.
Example C16_ex_consts : U_named_const 3 "TEN"%string = Some [10; 0; 0] /\
  I_named_const 8 3 "NEG_TEN"%string = Some [246; 255; 255] /\ alias_bits 4096 = Some (4096, 4096).
Proof. vm_compute. repeat split. Qed.
